import PyaModel.Proofs.C06
import PyaModel.Generated.ClassTable
import PyaModel.Props.C03
import PyaModel.Generated.AnnotCtx
/-!
# Props/C06 — call checking: arguments against parameter types, result type, type variables

Property theorems only. Model: `Pya.C06.checkCall` (Core/Call.lean: `check_call_with_bound_args`
on top of the shared binder `pyaBind`, the shared `ca` = `can_assign`, the shared type-variable
solver `Pya.C15.resolveCa`). Spec: `Pya.C06.cpyLand` (which argument lands on which parameter under
CPython), `specDiag` / `specAccepts` (membership `mem` of the landed arguments in the declared
types), `runTmpl` (what a template body returns) — Spec/CallSpec.lean.

Calls are literal (`LCall`: positional objects and keyword/object pairs, no star arguments) and
bind under CPython (`cpyBind`, C05). The class table is any table satisfying the laws of
`Spec/TableLaws` (`tableOk`) and the three facts of `callTableOk`; both are re-proved for the table
regenerated from the live tree on every run.
-/
namespace Pya.C06
open Pya

/-- Obligation over the regenerated class table: `tuple` / `dict` seen as themselves pass their
parameters through and `str` accepts `str` (what the variadic-parameter checks rely on). -/
theorem liveCallTable_ok : callTableOk liveTable = true := by decide +kernel

/-- Obligation over the list regenerated from the live `pyanalyze/arg_spec.py`: every place that
converts an annotation (`type_from_runtime`) or builds an `AnnotationsContext` is a registered one,
and the two sites converting the parameter and return annotations of a runtime signature are given
a context that carries the function's globals — so a context built without globals (which turns an
embedded forward reference into `Any`) is noticed. -/
theorem annotation_contexts_registered :
    annotSitesOk liveAnnotCtxCtors liveTypeFromRuntime = true := by decide

/-- **The verdict depends on the resolved types only.** Two headers whose annotations are written
differently (unquoted, quoted, partially quoted, forward references, aliases, string-bounded type
variables, `from __future__ import annotations`) but denote the same types get the same outcome —
verdict, inferred type and solution — for every call. (Trivial in the model, where the declared
type is a parameter; the `spelling` stream of the harness compares the implementation's verdicts
across all spellings and callee forms with each other and with this outcome.) -/
theorem call_verdict_of_resolved (tbl : ClassTable) (s₁ s₂ : SpelledSig)
    (h : s₁.resolve = s₂.resolve) (c : VCall) :
    checkCall tbl s₁.resolve.asig c = checkCall tbl s₂.resolve.asig c := by rw [h]

/-- every spelling of a parameter list denotes the header with the plain spelling -/
theorem spelling_irrelevant (t : Ty) (n : Nat) :
    (Spell.quoted t).resolve = (Spell.plain t).resolve ∧
    (Spell.partialQ t).resolve = (Spell.plain t).resolve ∧
    (Spell.late t).resolve = (Spell.plain t).resolve ∧
    (Spell.alias n t).resolve = (Spell.plain t).resolve ∧
    (Spell.strTv t).resolve = (Spell.plain t).resolve ∧
    (Spell.future t).resolve = (Spell.plain t).resolve := ⟨rfl, rfl, rfl, rfl, rfl, rfl⟩

/-! ## First clause: diagnosed ⇔ some argument is not a member of its parameter's declared type -/

/-- **C06 first clause, full-strength statement** (false of pyanalyze: `equalLiteralArgs_witness`,
and the three inherited C03 classes). For every annotated header without type variables and every
literal call that binds: an `incompatible_argument` is reported exactly when some argument does
not belong to the declared type of the parameter CPython binds it to. -/
def CallDiagIff (tbl : ClassTable) : Prop :=
  ∀ (s : SSig) (c : LCall), s.defSig.WF → s.generic = false → c.kwNames.Nodup →
    cpyBind s.defSig c.ccall = true →
    (checkCall tbl s.asig c.toV).verdict.diagnosed = specDiag tbl s c

/-- **C06 first clause, outside the exception classes.** For every class table satisfying the
table laws, every annotated `def` header with distinct parameter names and no type variables (any
number of parameters of every kind, any defaults), every literal call with distinct keyword names
that binds under CPython, such that every (declared type, landed argument) pair satisfies C03's
side conditions (well-formed fully static type without an unpacked tuple member — class
`variadicTuple`; argument without a frozenset — `frozensetLiteral`; not a class object against a
protocol — `protoClassObj`; not a `str`/`bytes` against a generic ABC, where the property is
silent) and no two arguments collected by the same `*args` / `**kw` are equal as `KnownValue`s
while only one of them belongs to the declared type (class `equalLiteralArgs`): the model of
`Signature.check_call` reports an `incompatible_argument` exactly when some argument is not a
member of the declared type of the parameter it lands on. Corollary of C05 (the binder's tags are
CPython's landing: `pyaBind_landTags`) and C03 (`ca T (known o) = mem o T`). -/
theorem call_diag_iff_partial (tbl : ClassTable) (htbl : tableOk tbl = true)
    (hct : callTableOk tbl = true) (s : SSig) (hwf : s.defSig.WF) (hng : s.generic = false)
    (c : LCall) (hks : c.kwNames.Nodup) (hb : cpyBind s.defSig c.ccall = true)
    (hside : sideOk tbl [] s c = true) :
    (checkCall tbl s.asig c.toV).verdict.diagnosed = specDiag tbl s c := by
  have L := laws_of_tableOk tbl htbl
  have hg : s.asig.allTvs.isEmpty = true := by simpa [SSig.generic] using hng
  rw [checkCall_binds tbl s hwf c hks hb]
  simp only [checkBound, hg, if_true, Verdict.diagnosed, filter_map_isEmpty]
  rw [← any_map_id, landTags_bad L hct [] s hwf c hks hb hside, any_map_id]
  have : slotBad tbl [] = fun sl => !landedOk tbl sl.got sl.ann := by
    funext sl; simp [slotBad, applySol]
  rw [this]; rfl

/-- The same for the class table regenerated from the live tree. -/
theorem call_diag_iff_live (s : SSig) (hwf : s.defSig.WF) (hng : s.generic = false)
    (c : LCall) (hks : c.kwNames.Nodup) (hb : cpyBind s.defSig c.ccall = true)
    (hside : sideOk liveTable [] s c = true) :
    (checkCall liveTable s.asig c.toV).verdict.diagnosed = specDiag liveTable s c :=
  call_diag_iff_partial liveTable liveTable_ok liveCallTable_ok s hwf hng c hks hb hside

/-- The binding half on its own (no table, no side condition): on a literal call that binds,
`bind_arguments` records for every parameter exactly the source CPython fills it from
(`landTags`: positional index, keyword, `*args`, `**kwargs` or default). Strengthens C05's verdict
theorem `bind_literal_iff` to the content of the binding. -/
theorem bind_lands (s : DefSig) (hwf : s.WF) (n : Nat) (ks : List String) (hks : ks.Nodup)
    (hb : cpyBind s ⟨n, ks⟩ = true) :
    pyaBind s.params (litActual n ks) = some (landTags s n ks) :=
  pyaBind_landTags s hwf n ks hks hb

/-! ## Third clause: the solution makes every argument acceptable, or an error is reported -/

/-- **C06 third clause.** For every annotated header (with or without type variables: plain,
bounded, constrained; `T`, `list[T]`, `dict[K, V]`, … forms) and every literal call that binds: if
the model reports no error at all (verdict `done []`: no binder error, no failure while collecting
bounds, the bounds were solvable, no parameter rejected), then every landed argument is a member of
the declared type of its parameter with the inferred solution `sol` substituted
(`specAccepts`) — under C03's side conditions for the substituted types and outside
`equalLiteralArgs`. Read contrapositively: if some argument is not acceptable to the substituted
parameter type, an error is reported. The solver itself enters only through the value `sol` it
returned (no hypothesis about `Pya.C15.resolveCa` is needed: the main loop re-checks every argument
against the substituted type). -/
theorem solution_accepts_args_partial (tbl : ClassTable) (htbl : tableOk tbl = true)
    (hct : callTableOk tbl = true) (s : SSig) (hwf : s.defSig.WF)
    (c : LCall) (hks : c.kwNames.Nodup) (hb : cpyBind s.defSig c.ccall = true)
    (hok : (checkCall tbl s.asig c.toV).verdict = .done [])
    (hside : sideOk tbl (checkCall tbl s.asig c.toV).sol s c = true) :
    specAccepts tbl (checkCall tbl s.asig c.toV).sol s c = true := by
  have L := laws_of_tableOk tbl htbl
  rw [checkCall_binds tbl s hwf c hks hb] at hok hside ⊢
  generalize hbd : landTags s.defSig c.pos.length c.kwNames = bound at hok hside ⊢
  obtain ⟨hbad, _⟩ := checkBound_done tbl s.asig c.toV bound [] hok
  have hnone : ∀ b ∈ bound, paramBad tbl s.asig c.toV bound (checkBound tbl s.asig c.toV bound).sol b = false := by
    intro b hbm
    have : (bound.filter (paramBad tbl s.asig c.toV bound (checkBound tbl s.asig c.toV bound).sol)) = [] := by
      simpa using hbad.symm
    have := List.filter_eq_nil_iff.mp this b hbm
    simpa using this
  have hmap := landTags_bad L hct (checkBound tbl s.asig c.toV bound).sol s hwf c hks hb hside
  rw [hbd] at hmap
  simp only [specAccepts, List.all_eq_true]
  intro sl hsl
  have h1 : slotBad tbl (checkBound tbl s.asig c.toV bound).sol sl ∈
      (cpyLand s c).map (slotBad tbl (checkBound tbl s.asig c.toV bound).sol) :=
    List.mem_map.mpr ⟨sl, hsl, rfl⟩
  rw [← hmap] at h1
  obtain ⟨b, hbm, hbe⟩ := List.mem_map.mp h1
  rw [hnone b hbm] at hbe
  simpa [slotBad] using hbe.symm

/-! ## Second clause: the value returned at run time belongs to the inferred type -/

/-- **C06 second clause, template bodies `return p` and `return p[0]`.** For every annotated
header whose return annotation is the declared type of the parameter `p` (template `retParam p`;
for `*args: T` that is `tuple[T, ...]`, for `**kw: T` `dict[str, T]`) or the element type of a
`list[..]` / `tuple[.., ...]` / `*args` parameter (template `retElem p`), every literal call that
binds and for which the model reports no error: the object the body returns when executed
(`runTmpl`, evaluated on CPython's landing) is a member of the type the model infers for the call —
the declared return type, with the type-variable solution substituted when it mentions a type
variable. Hypotheses: C03's side conditions and `equalLiteralArgs` as above; every default that is
actually used belongs to its declared type (`usedDefaultsOk`: the function itself is well typed);
and the signature has no type variables or its return type mentions one (`hshape`; what is missing
for a generic signature with a closed return type is only the lemma `subst σ R = R` for closed
`R`). -/
theorem call_result_mem_partial (tbl : ClassTable) (htbl : tableOk tbl = true)
    (hct : callTableOk tbl = true) (s : SSig) (hwf : s.defSig.WF)
    (c : LCall) (hks : c.kwNames.Nodup) (hb : cpyBind s.defSig c.ccall = true)
    (t : Tmpl) (hret : t.retTy s c = some s.ret)
    (hshape : (!s.generic || hasTv s.ret) = true)
    (hok : (checkCall tbl s.asig c.toV).verdict = .done [])
    (hside : sideOk tbl (checkCall tbl s.asig c.toV).sol s c = true)
    (hdef : usedDefaultsOk tbl (checkCall tbl s.asig c.toV).sol s c = true)
    (o : Obj) (hrun : runTmpl s c t = some o) :
    mem tbl o (checkCall tbl s.asig c.toV).ret = true := by
  have L := laws_of_tableOk tbl htbl
  have hacc := solution_accepts_args_partial tbl htbl hct s hwf c hks hb hok hside
  -- the inferred type is the declared return type under the solution
  have hretty : (checkCall tbl s.asig c.toV).ret = applySol (checkCall tbl s.asig c.toV).sol s.ret := by
    rw [checkCall_binds tbl s hwf c hks hb] at hok ⊢
    obtain ⟨_, h | h⟩ := checkBound_done tbl s.asig c.toV _ [] hok
    · rw [h.2.2, h.2.1]; simp [applySol, SSig.asig]
    · have hgen : s.generic = true := by simp [SSig.generic, h.1]
      have htv : hasTv s.ret = true := by simpa [hgen] using hshape
      have hne : (checkBound tbl s.asig c.toV (landTags s.defSig c.pos.length c.kwNames)).sol.isEmpty = false := by
        cases hs : (checkBound tbl s.asig c.toV (landTags s.defSig c.pos.length c.kwNames)).sol with
        | nil => exact absurd hs h.2.1
        | cons _ _ => rfl
      rw [h.2.2]
      simp only [applySol, hne, Bool.false_eq_true, if_false]
      show (if hasTv s.ret = true then _ else _) = _
      rw [if_pos htv]; rfl
  rw [hretty]
  generalize (checkCall tbl s.asig c.toV).sol = sol at hacc hdef ⊢
  simp only [specAccepts, List.all_eq_true] at hacc
  simp only [usedDefaultsOk, List.all_eq_true] at hdef
  cases t with
  | retConst k => simp [Tmpl.retTy] at hret
  | retParam p =>
    simp only [Tmpl.retTy, Option.map_eq_some_iff] at hret
    obtain ⟨sl, hfs, hty⟩ := hret
    have hsl : sl ∈ cpyLand s c := List.mem_of_find?_eq_some hfs
    simp only [runTmpl, hfs, Option.bind_some] at hrun
    rw [← hty]
    exact slot_obj_mem L sol sl o (hacc sl hsl) (hdef sl hsl) hrun
  | retElem p =>
    simp only [Tmpl.retTy, Option.bind_eq_some_iff, Option.map_eq_some_iff] at hret
    obtain ⟨T, ⟨sl, hfs, hty⟩, hel⟩ := hret
    have hsl : sl ∈ cpyLand s c := List.mem_of_find?_eq_some hfs
    simp only [runTmpl, hfs, Option.bind_some] at hrun
    cases hso : sl.obj with
    | none => simp [hso] at hrun
    | some ob =>
      have hm := slot_obj_mem L sol sl ob (hacc sl hsl) (hdef sl hsl) hso
      rw [hty] at hm
      rw [hso] at hrun
      cases ob with
      | list xs =>
        cases xs with
        | nil => simp at hrun
        | cons x xs =>
          simp only [Option.some.injEq] at hrun; subst hrun
          exact elem_mem sol T s.ret x xs _ hel (Or.inl rfl) hm
      | tuple xs =>
        cases xs with
        | nil => simp at hrun
        | cons x xs =>
          simp only [Option.some.injEq] at hrun; subst hrun
          exact elem_mem sol T s.ret x xs _ hel (Or.inr rfl) hm
      | _ => simp at hrun

/-- **C06 second clause, template body `return <constant>`.** For a header without type variables
whose declared return type contains the constant `k`, the inferred type of *every* call (also one
the binder rejects: `get_default_return`) is the declared return type, hence contains `k`. -/
theorem call_result_const (tbl : ClassTable) (s : SSig) (hng : s.generic = false) (c : VCall)
    (k : Obj) (hk : mem tbl k s.ret = true) :
    mem tbl k (checkCall tbl s.asig c).ret = true := by
  have hg : s.asig.allTvs.isEmpty = true := by simpa [SSig.generic] using hng
  have hr : hasTv s.asig.ret = false := by
    have : s.asig.ret.tvars = [] := by
      have h := hg
      simp only [ASig.allTvs, List.isEmpty_iff] at h
      -- a type variable of the return type would be in `allTvs`
      cases hv : s.asig.ret.tvars with
      | nil => rfl
      | cons v vs =>
        exfalso
        have : ∀ (l acc : List Nat), dedupNat l acc = [] → l = [] ∧ acc = [] := by
          intro l
          induction l with
          | nil => intro acc h; exact ⟨rfl, by simpa [dedupNat] using h⟩
          | cons i is ih =>
            intro acc h
            simp only [dedupNat] at h
            split at h
            · rename_i hc
              have := (ih acc h).2
              subst this; simp at hc
            · have := (ih _ h).2
              simp at this
        have := (this _ _ h).1
        simp [hv] at this
    simp [hasTv, this]
  have hr' : hasTv s.ret = false := hr
  have hret : (checkCall tbl s.asig c).ret = s.ret := by
    unfold checkCall
    split
    · simp [defaultReturn, hr', SSig.asig]
    · have hg' : ({ params := s.aparams, ret := s.ret, tvs := s.tvs } : ASig).allTvs.isEmpty = true := hg
      simp [checkBound, hg', SSig.asig]
  rw [hret]; exact hk

/-! ## Several `*iterable`s in one call -/

theorem starFold_covers (tbl : ClassTable) (x : Bool) (T : Ty)
    (hresp : ∀ a b, (Ty.hashEq a b && Ty.beq a b) = true → ca tbl x T a = ca tbl x T b) :
    ∀ (rest : List PosItem) (a m : Ty), rest.foldl starStep (some a) = some m →
      ca tbl x T m = true → ca tbl x T a = true ∧ ∀ it ∈ rest, ca tbl x T it.2 = true := by
  intro rest
  induction rest with
  | nil => intro a m h hm; simp at h; subst h; exact ⟨hm, by simp⟩
  | cons it rest ih =>
    intro a m h hm
    simp only [List.foldl_cons, starStep] at h
    obtain ⟨h1, h2⟩ := ih _ m h hm
    rw [ca_unite_all tbl x T _ (fun a _ b _ hab => hresp a b hab)] at h1
    simp only [List.all_cons, List.all_nil, Bool.and_true, Bool.and_eq_true] at h1
    refine ⟨h1.2, ?_⟩
    intro it' hit
    rcases List.mem_cons.mp hit with rfl | hit
    · exact h1.1
    · exact h2 it' hit

/-- **`star_merge_covers`.** `preprocess_args` merges everything from the first `*xs` on — the
element types of all `*iterable`s and the single positionals written between / after them — into
one element type by `unite_values`. For every declared type `T` that does not distinguish values
`unite_values` identifies (`hresp`; it fails exactly in the class `equalLiteralArgs`): if `T`
accepts the merged type it accepts every contributing element type and every interleaved
positional — so an ill-typed positional between two `*iterable`s cannot be lost. -/
theorem star_merge_covers (tbl : ClassTable) (x : Bool) (T : Ty)
    (hresp : ∀ a b, (Ty.hashEq a b && Ty.beq a b) = true → ca tbl x T a = ca tbl x T b) :
    ∀ (items : List PosItem) (m : Ty), starMerge items = some m → ca tbl x T m = true →
      ∀ c ∈ starContrib items, ca tbl x T c = true := by
  intro items
  induction items with
  | nil => intro m h; simp [starMerge] at h
  | cons it rest ih =>
    intro m h hm c hc
    obtain ⟨b, v⟩ := it
    cases b
    · simp only [starMerge, List.foldl_cons, starStep] at h
      simp only [starContrib] at hc
      exact ih m h hm c hc
    · simp only [starMerge, List.foldl_cons, starStep] at h
      obtain ⟨h1, h2⟩ := starFold_covers tbl x T hresp rest v m h hm
      simp only [starContrib, List.mem_cons, List.mem_map] at hc
      rcases hc with rfl | ⟨it, hit, rfl⟩
      · exact h1
      · exact h2 it hit

/-- `f(*xs, "bad", *ys)` with `xs, ys : list[int]`: the merged element type keeps the literal. -/
example : starMerge [(true, .typed C.int), (false, .known (.str "bad")), (true, .typed C.int)] =
    some (.union [.typed C.int, .known (.str "bad")]) := by
  simp [starMerge, starStep, unite, flatten1, dedup, dictMem, Ty.hashEq, Ty.beq]

/-! ## Constructors and bound methods -/

/-- arg_spec.py:857-936 + `bind_self`: calling a class whose `__init__` is `def __init__(self, …)`
with header `s` is checking the call against `s` with the instance type as return type — so the
three clauses above apply verbatim to constructor (and `@dataclass`) calls. -/
theorem ctorSig_eq (cls : Cls) (s : SSig) (self : AParam)
    (hk : self.kind = .posOnly ∨ self.kind = .posOrKw) :
    ctorSig cls { params := self :: s.aparams, ret := s.ret, tvs := s.tvs } =
      some ({ s with ret := .typed cls } : SSig).asig := by
  rcases hk with hk | hk <;> simp [ctorSig, bindSelf, hk, SSig.asig, SSig.aparams]

/-! ## Witnesses: the full statement is false in the exception class of C06 (live table) -/

/-- `def f(*a: tuple[bool]) -> int` -/
def wSig : SSig :=
  { po := [], pk := [], vp := some ("a", .seq C.tuple [.typed C.bool]), ko := [], vk := none,
    ret := .typed C.int }
/-- `f((True,), (1,))` -/
def wCall : LCall := ⟨[.tuple [.bool true], .tuple [.int 1]], []⟩

theorem wUnite : unite [.known (.tuple [.bool true]), .known (.tuple [.int 1])] =
    .known (.tuple [.bool true]) := by
  simp [unite, flatten1, dedup, dictMem, Ty.hashEq, Ty.beq, Obj.same, Obj.pyEq, Obj.pyEqList,
    Obj.tag, Obj.hashable, Obj.hashableAll]

/-- **class `equalLiteralArgs`.** `def f(*a: tuple[bool])`, `f((True,), (1,))`: the header is well
formed and has no type variables, the call binds, the input is in the class and satisfies every
other side condition; the model (like pyanalyze) reports nothing, although `(1,)` is not a
`tuple[bool]` — `(True,)` and `(1,)` are equal as `KnownValue`s and `unite_values` drops the
second before the check. So the full statement `CallDiagIff` is false. -/
theorem equalLiteralArgs_witness :
    wSig.defSig.WF ∧ wSig.generic = false ∧ wCall.kwNames.Nodup ∧
    cpyBind wSig.defSig wCall.ccall = true ∧
    D06_equalLiteralArgs liveTable [] wSig wCall = true ∧
    (checkCall liveTable wSig.asig wCall.toV).verdict = .done [] ∧
    specDiag liveTable wSig wCall = true ∧ ¬ CallDiagIff liveTable := by
  have hwf : wSig.defSig.WF := by unfold DefSig.WF; decide
  have hv : (checkCall liveTable wSig.asig wCall.toV).verdict = .done [] := by
    rw [checkCall_binds liveTable wSig hwf wCall (by decide) (by decide)]
    have hb : landTags wSig.defSig wCall.pos.length wCall.kwNames = [("a", .args)] := by decide
    have ht : wSig.asig.allTvs = [] := by decide
    have hf : wSig.asig.find "a" = ⟨"a", .varPos, none, .seq C.tuple [.typed C.bool]⟩ := by rfl
    have hg : liveTable.gbase C.tuple C.tuple = some [.param 0] := by rfl
    rw [hb]
    simp [checkBound, ht, paramBad, applySol, hf, AParam.ty, argValue, wCall, LCall.toV, nIdx,
      uniteOrAny, wUnite]
    simp only [ca, theirArgs, hg, instArgs, caArgs, caArg, caZipK, typedCA, clsOf, Option.map_some,
      List.map_cons, List.map_nil, List.getD_cons_zero, List.length_cons, List.length_nil]
    decide +kernel
  have hsd : specDiag liveTable wSig wCall = true := by
    simp [specDiag, cpyLand, wSig, wCall, landSeg, landKo, landedOk, Landed.objs, mem, memSeq,
      matchSeq, clsOf]
    decide +kernel
  have hd : D06_equalLiteralArgs liveTable [] wSig wCall = true := by
    simp [D06_equalLiteralArgs, cpyLand, wSig, wCall, landSeg, landKo, eqLitsIn, applySol,
      mem, memSeq, matchSeq, clsOf, Obj.same, Obj.tag, Obj.pyEq, Obj.pyEqList]
    decide +kernel
  refine ⟨hwf, by decide, by decide, by decide, hd, hv, hsd, ?_⟩
  intro h
  have := h wSig wCall hwf (by decide) (by decide) (by decide)
  rw [hv, hsd] at this
  simp [Verdict.diagnosed] at this

/-! ## Non-vacuity: the hypotheses are met by non-trivial inputs, and both verdicts occur -/

/-- `def f(a: int, /, b: str = "x", *args: int, d: bool, **kw: int) -> tuple[int, ...]: return args` -/
def exS : SSig :=
  { po := [⟨"a", none, .typed C.int⟩], pk := [⟨"b", some (.str "x"), .typed C.str⟩],
    vp := some ("args", .typed C.int), ko := [⟨"d", none, .typed C.bool⟩],
    vk := some ("kw", .typed C.int), ret := .generic C.tuple [.typed C.int] }
/-- `f(1, "y", 2, 3, d=True, x=4)`: accepted -/
def exGood : LCall := ⟨[.int 1, .str "y", .int 2, .int 3], [("d", .bool true), ("x", .int 4)]⟩
/-- `f(1, "y", 2, "z", d=True, x=4)`: the second `*args` element is not an `int` -/
def exBad : LCall := ⟨[.int 1, .str "y", .int 2, .str "z"], [("d", .bool true), ("x", .int 4)]⟩

example : exS.defSig.WF := by unfold DefSig.WF; decide
example : exS.generic = false := by decide
example : exGood.kwNames.Nodup ∧ cpyBind exS.defSig exGood.ccall = true := by decide
example : exBad.kwNames.Nodup ∧ cpyBind exS.defSig exBad.ccall = true := by decide
theorem exGood_side : sideOk liveTable [] exS exGood = true := by
  simp [sideOk, D06_equalLiteralArgs, cpyLand, exS, exGood, landSeg, landKo, lookupKw,
    SSig.kwSlotNames, Landed.objs, eqLitsIn, applySol, pairOk, mem, clsOf, Obj.same, Obj.tag,
    Obj.pyEq]
  decide +kernel
theorem exBad_side : sideOk liveTable [] exS exBad = true := by
  simp [sideOk, D06_equalLiteralArgs, cpyLand, exS, exBad, landSeg, landKo, lookupKw,
    SSig.kwSlotNames, Landed.objs, eqLitsIn, applySol, pairOk, mem, clsOf, Obj.same, Obj.tag,
    Obj.pyEq]
  decide +kernel
example : specDiag liveTable exS exGood = false := by
  simp only [specDiag, cpyLand, exS, exGood, landSeg, landKo, lookupKw, SSig.kwSlotNames]
  simp [landedOk, Landed.objs, mem, clsOf]
  decide +kernel
example : specDiag liveTable exS exBad = true := by
  simp only [specDiag, cpyLand, exS, exBad, landSeg, landKo, lookupKw, SSig.kwSlotNames]
  simp [landedOk, Landed.objs, mem, clsOf]
  decide +kernel
/-- hence, through the theorem, the model reports nothing for `exGood` and something for `exBad` -/
example : (checkCall liveTable exS.asig exGood.toV).verdict.diagnosed = false := by
  rw [call_diag_iff_live exS (by unfold DefSig.WF; decide) (by decide) exGood (by decide) (by decide)
    exGood_side]
  simp only [specDiag, cpyLand, exS, exGood, landSeg, landKo, lookupKw, SSig.kwSlotNames]
  simp [landedOk, Landed.objs, mem, clsOf]
  decide +kernel
example : (checkCall liveTable exS.asig exBad.toV).verdict.diagnosed = true := by
  rw [call_diag_iff_live exS (by unfold DefSig.WF; decide) (by decide) exBad (by decide) (by decide)
    exBad_side]
  simp only [specDiag, cpyLand, exS, exBad, landSeg, landKo, lookupKw, SSig.kwSlotNames]
  simp [landedOk, Landed.objs, mem, clsOf]
  decide +kernel
/-- the template `return args` fits `exS` (`hret` of `call_result_mem_partial`), and it returns the
tuple of the remaining positionals -/
example : (Tmpl.retParam "args").retTy exS exGood = some exS.ret := by
  simp [Tmpl.retTy, findSlot, cpyLand, exS, exGood, landSeg, landKo, Slot.declTy]
example : runTmpl exS exGood (.retParam "args") = some (.tuple [.int 2, .int 3]) := by
  simp [runTmpl, findSlot, cpyLand, exS, exGood, landSeg, landKo, Slot.obj]
example : usedDefaultsOk liveTable [] exS exGood = true := by
  simp [usedDefaultsOk, cpyLand, exS, exGood, landSeg, landKo, lookupKw, SSig.kwSlotNames, applySol]
example : (!exS.generic || hasTv exS.ret) = true := by decide

/-! ### a generic function: `def g(x: T, /) -> T: return x`, called as `g(1)` -/
def gS : SSig :=
  { po := [⟨"x", none, .tvar 0⟩], pk := [], vp := none, ko := [], vk := none, ret := .tvar 0,
    tvs := [(0, {})] }
def gC : LCall := ⟨[.int 1], []⟩

/-- the model's outcome: no error, `T := Literal[1]`, inferred type `Literal[1]` -/
theorem gOut :
    (checkCall liveTable gS.asig gC.toV).verdict = .done [] ∧
    (checkCall liveTable gS.asig gC.toV).sol = [(0, .known (.int 1)), (0, .any)] ∧
    (checkCall liveTable gS.asig gC.toV).ret = .known (.int 1) := by
  rw [checkCall_binds liveTable gS (by unfold DefSig.WF; decide) gC (by decide) (by decide)]
  have hb : landTags gS.defSig gC.pos.length gC.kwNames = [("x", .idx 0)] := by decide
  have ht : gS.asig.allTvs = [0] := by decide
  have hf : gS.asig.find "x" = ⟨"x", .posOnly, none, .tvar 0⟩ := by rfl
  have hp : gS.asig.params = [⟨"x", .posOnly, none, .tvar 0⟩] := by rfl
  have htv : gS.asig.tvs = [(0, {})] := rfl
  have hr : gS.asig.ret = .tvar 0 := rfl
  rw [hb]
  simp [checkBound, ht, hp, htv, hr, tvPass, hasTv, Ty.tvars, AParam.ty, argValue, gC, LCall.toV,
    caB, tvDecl, C15.TV.inherent, C15.resolveCa, C15.resolve, C15.dedupB, C15.keyMem, C15.solve,
    C15.run, C15.step, C15.finish, C15.pick, C15.choose, C15.Result.isOk, resolveAll, bmKeys,
    bmBounds, paramBad, hf, applySol, subst, TvMap.get, ca, Obj.same, Obj.tag, Obj.pyEq]

theorem gSide : sideOk liveTable (checkCall liveTable gS.asig gC.toV).sol gS gC = true := by
  rw [gOut.2.1]
  simp [sideOk, D06_equalLiteralArgs, cpyLand, gS, gC, landSeg, landKo, Landed.objs, applySol,
    subst, TvMap.get, pairOk, strVsGeneric, protoClassObj]
  decide +kernel

example : gS.defSig.WF ∧ gS.generic = true ∧ cpyBind gS.defSig gC.ccall = true := by
  refine ⟨by unfold DefSig.WF; decide, by decide, by decide⟩
/-- third clause, through the theorem: `1 ∈ Literal[1]` -/
example : specAccepts liveTable (checkCall liveTable gS.asig gC.toV).sol gS gC = true :=
  solution_accepts_args_partial liveTable liveTable_ok liveCallTable_ok gS
    (by unfold DefSig.WF; decide) gC (by decide) (by decide) gOut.1 gSide
/-- second clause, through the theorem: executing `g(1)` returns `1`, a member of the inferred
type -/
example : mem liveTable (.int 1) (checkCall liveTable gS.asig gC.toV).ret = true :=
  call_result_mem_partial liveTable liveTable_ok liveCallTable_ok gS (by unfold DefSig.WF; decide)
    gC (by decide) (by decide) (.retParam "x")
    (by simp [Tmpl.retTy, findSlot, cpyLand, gS, gC, landSeg, landKo, Slot.declTy])
    (by decide) gOut.1 gSide
    (by rw [gOut.2.1]; simp [usedDefaultsOk, cpyLand, gS, gC, landSeg, landKo])
    (.int 1) (by simp [runTmpl, findSlot, cpyLand, gS, gC, landSeg, landKo, Slot.obj])

end Pya.C06
