import PyaModel.Spec.SigAssignSpec
import PyaModel.Generated.SigTypes
namespace Pya.C07
end Pya.C07
