import PyaModel.Proofs.C07
import PyaModel.Generated.SigTypes
import PyaModel.Generated.SigRoutes
import PyaModel.Generated.AttrUnwrap
import PyaModel.Core.Obtain
import PyaModel.Spec.Mem
import PyaModel.Generated.ClassTable
/-!
# Props/C07 — callable compatibility is behaviourally sound

Property theorems only. Model: `sigCanAssign` (Core/SigAssign.lean, follows
`Signature.can_assign` branch by branch; `R : TyRel τ` = the annotation-level questions it asks).
Spec: `BehSound` / `ArgsContra` (Spec/SigAssignSpec.lean) over CPython's binder `cpyBind`
(Spec/CpyBind.lean).  `E` = expected header (`self`), `A` = actual header (`other`).

The code does **not** satisfy the full statement; the exception classes are
`D07_posKwClash` and `D07_starKwClash`. Two further classes were repaired in /repo and are kept as
regression theorems: `kwShadow` (d699eb1, `kwShadow_fixed`) and `staticFirst` (7244153,
`old_staticFirst_fixed`).
-/
namespace Pya.C07

variable {τ : Type}

/-- **C07, full statement (not asserted — it is false, see the witnesses).** Whenever
pyanalyze accepts `A` where `E` is expected, every concrete call shape `E` binds is bound by `A`. -/
def SigAssignSoundFull (R : TyRel τ) : Prop :=
  ∀ E A : TDefSig τ, E.WF → A.WF → sigCanAssign R E.tsig A.tsig = true → BehSound E A

/-- **C07, typed part, full statement (not asserted).** Accepted pairs are contravariant in
every parameter and covariant in the return annotation. -/
def SigAssignVarianceFull (R : TyRel τ) (sup : τ → τ → Prop) : Prop :=
  ∀ E A : TDefSig τ, E.WF → A.WF → sigCanAssign R E.tsig A.tsig = true →
    ArgsContra sup E A ∧ sup A.ret E.ret

/-- **Behavioural soundness outside the two exception classes** — for every pair of `def`
headers (any number of parameters of every kind, any default pattern, any annotations, the actual
header with distinct names), any annotation relation `R`, and **every** concrete call shape
(no bound on the number of positionals or keywords): if `Signature.can_assign` accepts the pair and
the pair is in neither `posKwClash` nor `starKwClash`, then every call the expected header binds
is bound by the actual header. -/
theorem sig_assign_sound_partial (R : TyRel τ) (E A : TDefSig τ) (hA : A.WF)
    (h1 : ¬ D07_posKwClash E A = true) (h2 : ¬ D07_starKwClash E A = true)
    (hacc : sigCanAssign R E.tsig A.tsig = true) : BehSound E A := by
  intro c hc
  rw [sig_eq_nf] at hacc
  obtain ⟨n, ks⟩ := c
  exact nf_sound R E A hA hacc (by simpa using h1) (by simpa using h2) n ks hc

/-- **Parameter contravariance and return covariance outside `posKwClash`** — for any
supertype relation `sup` for which the annotation-level answers `R` are sound (`RelSound`): in an
accepted pair outside `posKwClash`, every argument of every call the expected header binds lands,
in the actual header, on a parameter whose annotation is a supertype of the annotation it lands
on in the expected header; and the actual return annotation is a subtype of the expected one. All
call shapes, no bound. (`starKwClash` is not needed here: it only makes the actual header reject
the call. Since the repair d699eb1 there is no typed exception class left.) -/
theorem sig_assign_variance_partial (R : TyRel τ) (sup : τ → τ → Prop) (hR : RelSound R sup)
    (E A : TDefSig τ) (hE : E.WF) (hA : A.WF)
    (h1 : ¬ D07_posKwClash E A = true)
    (hacc : sigCanAssign R E.tsig A.tsig = true) :
    ArgsContra sup E A ∧ sup A.ret E.ret := by
  rw [sig_eq_nf] at hacc
  exact ⟨nf_contra R sup hR E A hE hA hacc (by simpa using h1),
    hR.asg _ _ (nf_ret R E A hacc)⟩

/-- **The two behavioural classes are exact.** For every pair pyanalyze accepts (both headers
with distinct names): every call the expected header binds is bound by the actual header
*if and only if* the pair is in neither `posKwClash` nor `starKwClash`. (The "only if" direction
does not even need acceptance: a pair in one of the classes is behaviourally unsound whatever
pyanalyze answers — `posKwClash_unsound`, `starKwClash_unsound` in Proofs/C07.lean construct the
failing call.) -/
theorem sig_assign_sound_iff (R : TyRel τ) (E A : TDefSig τ) (hE : E.WF) (hA : A.WF)
    (hacc : sigCanAssign R E.tsig A.tsig = true) :
    BehSound E A ↔ (¬ D07_posKwClash E A = true ∧ ¬ D07_starKwClash E A = true) := by
  constructor
  · intro hs
    exact ⟨fun h => posKwClash_unsound E A hE h hs, fun h => starKwClash_unsound E A hE h hs⟩
  · rintro ⟨h1, h2⟩
    exact sig_assign_sound_partial R E A hA h1 h2 hacc

/-- A pair in `posKwClash` is behaviourally unsound (whatever pyanalyze answers). -/
theorem posKwClash_exact (E A : TDefSig τ) (hE : E.WF) (hD : D07_posKwClash E A = true) :
    ∃ c, cpyBind E.shape c = true ∧ cpyBind A.shape c = false :=
  posKwClash_cex E A hE hD

/-- A pair in `starKwClash` is behaviourally unsound (whatever pyanalyze answers). -/
theorem starKwClash_exact (E A : TDefSig τ) (hE : E.WF) (hD : D07_starKwClash E A = true) :
    ∃ c, cpyBind E.shape c = true ∧ cpyBind A.shape c = false :=
  starKwClash_cex E A hE hD

/-- **Overloads.** `OverloadedSignature.can_assign` (every expected overload is matched by some
actual overload): if no matched pair is in an exception class, every call bound by *some*
expected overload is bound by *some* actual overload. -/
theorem ov_assign_sound_partial (R : TyRel τ) (Es As : List (TDefSig τ))
    (hA : ∀ A ∈ As, A.WF)
    (hD : ∀ E ∈ Es, ∀ A ∈ As, ¬ D07_posKwClash E A = true ∧ ¬ D07_starKwClash E A = true)
    (hacc : ovCanAssign R (Es.map (·.tsig)) (As.map (·.tsig)) = true)
    (c : CCall) (hc : ∃ E ∈ Es, cpyBind E.shape c = true) :
    ∃ A ∈ As, cpyBind A.shape c = true := by
  obtain ⟨E, hE, hb⟩ := hc
  simp only [ovCanAssign, List.all_map, List.any_map, List.all_eq_true, List.any_eq_true,
    Function.comp_apply] at hacc
  obtain ⟨A, hAm, ha⟩ := hacc E hE
  exact ⟨A, hAm, sig_assign_sound_partial R E A (hA A hAm) (hD E hE A hAm).1 (hD E hE A hAm).2 ha c hb⟩

/-! ## The regenerated annotation tables are sound for the membership model -/

/-- Supertype relation on the annotation tags: inclusion of the representative members, with an
unannotated side gradual. -/
abbrev tagSup (S T : Tag) : Prop := tagIncl S T = true

/-- Obligation over `Generated/SigTypes.lean`: each of the seven answers pyanalyze gives on the tag
universe is sound for `tagSup`. Re-checked whenever the tables are regenerated. -/
theorem liveTyRel_sound : RelSound liveTyRel tagSup := by
  constructor <;> intro T S <;> cases T <;> cases S <;> decide

/-- `tagIncl` on two real annotations is inclusion of the representative members. -/
theorem tagIncl_members (S T : Tag) (hS : S ≠ .any) (hT : T ≠ .any) (h : tagIncl S T = true)
    (x : RObj) : memR x S = true → memR x T = true := by
  revert h; cases S <;> cases T <;> cases x <;> simp_all [tagIncl, RObj.all, memR]

/-- The typed theorem instantiated with the regenerated tables of the tag universe. -/
theorem sig_assign_variance_tags (E A : TDefSig Tag) (hE : E.WF) (hA : A.WF)
    (h1 : ¬ D07_posKwClash E A = true)
    (hacc : sigCanAssign liveTyRel E.tsig A.tsig = true) :
    ArgsContra tagSup E A ∧ tagSup A.ret E.ret :=
  sig_assign_variance_partial liveTyRel tagSup liveTyRel_sound E A hE hA h1 hacc

/-! ## Witnesses: the full statements are false, one concrete pair per exception class -/

def wp (n : String) (d : Bool := false) : TP Tag := ⟨n, d, .any⟩

/-- `def f(x, /, **kw)` ← `def g(a, **kw)`; `f(1, a=2)` binds, `g(1, a=2)` does not. -/
def wPosKwE : TDefSig Tag := { po := [wp "x"], pk := [], vp := none, ko := [], vk := some ("kw", .any), ret := .any }
def wPosKwA : TDefSig Tag := { po := [], pk := [wp "a"], vp := none, ko := [], vk := some ("kw", .any), ret := .any }

theorem witness_posKwClash :
    wPosKwE.WF ∧ wPosKwA.WF ∧ sigCanAssign liveTyRel wPosKwE.tsig wPosKwA.tsig = true ∧
    D07_posKwClash wPosKwE wPosKwA = true ∧ D07_starKwClash wPosKwE wPosKwA = false ∧
    cpyBind wPosKwE.shape ⟨1, ["a"]⟩ = true ∧ cpyBind wPosKwA.shape ⟨1, ["a"]⟩ = false := by
  decide

/-- `def f(*args, **kw)` ← `def g(a=0, *args, **kw)`; `f(1, a=2)` binds, `g(1, a=2)` does not. -/
def wStarKwE : TDefSig Tag := { po := [], pk := [], vp := some ("args", .any), ko := [], vk := some ("kw", .any), ret := .any }
def wStarKwA : TDefSig Tag := { po := [], pk := [wp "a" true], vp := some ("args", .any), ko := [], vk := some ("kw", .any), ret := .any }

theorem witness_starKwClash :
    wStarKwE.WF ∧ wStarKwA.WF ∧ sigCanAssign liveTyRel wStarKwE.tsig wStarKwA.tsig = true ∧
    D07_starKwClash wStarKwE wStarKwA = true ∧ D07_posKwClash wStarKwE wStarKwA = false ∧
    cpyBind wStarKwE.shape ⟨1, ["a"]⟩ = true ∧ cpyBind wStarKwA.shape ⟨1, ["a"]⟩ = false := by
  decide

/-- The behavioural full statement is false of the model (and, by the correspondence run, of the
implementation), through either class. -/
theorem sig_assign_sound_full_false : ¬ SigAssignSoundFull liveTyRel := by
  intro h
  have w := witness_posKwClash
  have := h wPosKwE wPosKwA w.1 w.2.1 w.2.2.1 ⟨1, ["a"]⟩ w.2.2.2.2.2.1
  rw [w.2.2.2.2.2.2] at this
  cases this

theorem sig_assign_sound_full_false' : ¬ SigAssignSoundFull liveTyRel := by
  intro h
  have w := witness_starKwClash
  have := h wStarKwE wStarKwA w.1 w.2.1 w.2.2.1 ⟨1, ["a"]⟩ w.2.2.2.2.2.1
  rw [w.2.2.2.2.2.2] at this
  cases this

/-- Regression pair of the repaired class `kwShadow` (/repo d699eb1):
`def f(b: float)` ← `def g(*c, b: int = 0, **a)`; in `f(b=1.5)` the argument would land on `b: int`. -/
def wShadowE : TDefSig Tag := { po := [], pk := [⟨"b", false, .float⟩], vp := none, ko := [], vk := none, ret := .any }
def wShadowA : TDefSig Tag :=
  { po := [], pk := [], vp := some ("c", .any), ko := [⟨"b", true, .int⟩], vk := some ("a", .any), ret := .any }
/-- The same actual header with a compatible keyword-only parameter: `b: float = 0`. -/
def wShadowA' : TDefSig Tag :=
  { po := [], pk := [], vp := some ("c", .any), ko := [⟨"b", true, .float⟩], vk := some ("a", .str), ret := .any }

/-- **Regression (was `witness_kwShadow`).** The pair is now rejected; the keyword would land on
`b: int` (`kwTy`), which is why it has to be. With a compatible keyword-only parameter the pair is
accepted — whatever the `**kwargs` annotation says, since the keyword never lands there. -/
theorem kwShadow_fixed :
    sigCanAssign liveTyRel wShadowE.tsig wShadowA.tsig = false ∧
    kwTy wShadowE "b" = some .float ∧ kwTy wShadowA "b" = some .int ∧ tagIncl .float .int = false ∧
    sigCanAssign liveTyRel wShadowE.tsig wShadowA'.tsig = true ∧ kwTy wShadowA' "b" = some .float := by
  decide

/-- `def f(x: int, /, **kw: str)` ← `def g(a: int, **kw: str)`: the typed face of `posKwClash`
(`a` is exempted from the `**kw` comparison through `consumed_required_pos_only`); in `f(1, a="s")`
the keyword lands in `**kw: str` for `f` and on `a: int` for `g`. -/
def wPosKwTE : TDefSig Tag :=
  { po := [⟨"x", false, .int⟩], pk := [], vp := none, ko := [], vk := some ("kw", .str), ret := .any }
def wPosKwTA : TDefSig Tag :=
  { po := [], pk := [⟨"a", false, .int⟩], vp := none, ko := [], vk := some ("kw", .str), ret := .any }

theorem witness_posKwClash_typed :
    wPosKwTE.WF ∧ wPosKwTA.WF ∧ sigCanAssign liveTyRel wPosKwTE.tsig wPosKwTA.tsig = true ∧
    D07_posKwClash wPosKwTE wPosKwTA = true ∧
    cpyBind wPosKwTE.shape ⟨1, ["a"]⟩ = true ∧
    kwTy wPosKwTE "a" = some .str ∧ kwTy wPosKwTA "a" = some .int ∧ tagIncl .str .int = false := by
  decide

/-- The typed full statement is false (through `posKwClash`, the only class it needs). -/
theorem sig_assign_variance_full_false : ¬ SigAssignVarianceFull liveTyRel tagSup := by
  intro h
  have w := witness_posKwClash_typed
  obtain ⟨hc, _⟩ := h wPosKwTE wPosKwTA w.1 w.2.1 w.2.2.1
  obtain ⟨S, T, hS, hT, hST⟩ := (hc ⟨1, ["a"]⟩ w.2.2.2.2.1).2 "a" (by simp)
  rw [w.2.2.2.2.2.1] at hS
  rw [w.2.2.2.2.2.2.1] at hT
  cases hS; cases hT
  rw [tagSup, w.2.2.2.2.2.2.2] at hST
  cases hST

/-! ## Non-vacuity: the hypotheses are met by a pair using every parameter kind, annotated

`def f(a: int, /, b: int, c: int = 0, *args: int, d: bool, e: int = 0, **kw: int) -> float`
`def g(p: float, /, b: int, c: object = 0, *args: float, d: int, e: int = 0, f: object = 1, **kw: float) -> int` -/
def exE : TDefSig Tag :=
  { po := [⟨"a", false, .int⟩], pk := [⟨"b", false, .int⟩, ⟨"c", true, .int⟩], vp := some ("args", .int),
    ko := [⟨"d", false, .bool⟩, ⟨"e", true, .int⟩], vk := some ("kw", .int), ret := .float }
def exA : TDefSig Tag :=
  { po := [⟨"p", false, .float⟩], pk := [⟨"b", false, .int⟩, ⟨"c", true, .object⟩], vp := some ("args", .float),
    ko := [⟨"d", false, .int⟩, ⟨"e", true, .int⟩, ⟨"f", true, .object⟩], vk := some ("kw", .float), ret := .int }

example : exE.WF ∧ exA.WF := by decide
example : sigCanAssign liveTyRel exE.tsig exA.tsig = true := by decide
example : ¬ D07_posKwClash exE exA = true ∧ ¬ D07_starKwClash exE exA = true := by decide
example : cpyBind exE.shape ⟨4, ["d", "z"]⟩ = true := by decide      -- f(1, 2, 3, 4, d=True, z=5)
example : cpyBind exA.shape ⟨4, ["d", "z"]⟩ = true :=
  sig_assign_sound_partial liveTyRel exE exA (by decide) (by decide) (by decide) (by decide) _ (by decide)
example : sigCanAssign liveTyRel exA.tsig exE.tsig = false := by decide  -- and the converse pair is rejected
example : ovCanAssign liveTyRel [exE.tsig, wShadowE.tsig] [wShadowA'.tsig, exA.tsig] = true := by decide

/-! ## The override route (`_check_for_incompatible_overrides`) -/

/-- **Every definer is compared.** The override check passes exactly when the child's member is
compatible with the member of *every* ancestor that binds the name in its own body — not just
with the nearest one in the MRO. (This is the content of the model `overrideOk`; the `hier`
correspondence stream ties the implementation to it on sibling bases, diamonds and chains.) -/
theorem override_all_definers (R : TyRel τ) (defs : Nat → Option (Member τ)) (anc : List Nat)
    (child : Member τ) :
    overrideOk R defs anc child = true ↔
      ∀ i ∈ anc, ∀ b, defs i = some b → memberOk R b child = true :=
  overrideOk_iff R defs anc child

/-- **The verdict does not depend on the order of the bases**: any two linearisations of the same
set of ancestors (e.g. the MROs of `class C(A, B)` and `class C(B, A)`) give the same verdict. -/
theorem override_order_irrelevant (R : TyRel τ) (defs : Nat → Option (Member τ)) (l₁ l₂ : List Nat)
    (hp : l₁.Perm l₂) (child : Member τ) :
    overrideOk R defs l₁ child = overrideOk R defs l₂ child :=
  overrideOk_perm R defs l₁ l₂ hp child

/-- **Overrides are behaviourally sound against every ancestor, outside the two signature-level
classes.** If the override check passes for a function member `c` (method or staticmethod), then
for every ancestor `i` of the class binding a function member `b` under the same name, every call
shape that binds to `b`'s header binds to `c`'s — unless that pair is in `posKwClash` or
`starKwClash`. (The former third exclusion `staticFirst` was repaired by /repo 7244153.) -/
theorem override_sound_partial (R : TyRel τ) (a : τ) (defs : Nat → Option (Member τ))
    (anc : List Nat) (c : FnMember τ) (hc : c.hdr.WF)
    (hok : overrideOk R defs anc (c.member a) = true)
    (i : Nat) (hi : i ∈ anc) (b : FnMember τ) (hb : defs i = some (b.member a))
    (h1 : ¬ D07_posKwClash b.hdr c.hdr = true) (h2 : ¬ D07_starKwClash b.hdr c.hdr = true) :
    BehSound b.hdr c.hdr := by
  have hm := (overrideOk_iff R defs anc _).mp hok i hi _ hb
  simp only [memberOk, FnMember.member, callableOk_hdr] at hm
  exact sig_assign_sound_partial R b.hdr c.hdr hc h1 h2 hm

/-- …and contravariant in the parameters, covariant in the return annotation (outside
`posKwClash`). -/
theorem override_variance_partial (R : TyRel τ) (sup : τ → τ → Prop) (hR : RelSound R sup) (a : τ)
    (defs : Nat → Option (Member τ)) (anc : List Nat) (c : FnMember τ) (hc : c.hdr.WF)
    (hok : overrideOk R defs anc (c.member a) = true)
    (i : Nat) (hi : i ∈ anc) (b : FnMember τ) (hbw : b.hdr.WF) (hb : defs i = some (b.member a))
    (h1 : ¬ D07_posKwClash b.hdr c.hdr = true) :
    ArgsContra sup b.hdr c.hdr ∧ sup c.hdr.ret b.hdr.ret := by
  have hm := (overrideOk_iff R defs anc _).mp hok i hi _ hb
  simp only [memberOk, FnMember.member, callableOk_hdr] at hm
  exact sig_assign_variance_partial R sup hR b.hdr c.hdr hbw hc h1 hm

/-- Function members are compared on the headers a caller passes, staticmethod or not. -/
theorem override_fn_is_header_check (R : TyRel τ) (a : τ) (b c : FnMember τ) :
    memberOk R (b.member a) (c.member a) = sigCanAssign R b.hdr.tsig c.hdr.tsig := by
  simp only [memberOk, FnMember.member, callableOk_hdr]

/-- **Property overrides, full strength.** An accepted property override has a getter type
included in the base's, and a settable base has a settable child accepting the base's values. -/
theorem override_prop_sound (R : TyRel τ) (sup : τ → τ → Prop) (hR : RelSound R sup)
    (bt ct : τ) (bs cs : Bool) (h : memberOk R (.prop bt bs) (.prop ct cs) = true) :
    sup ct bt ∧ (bs = true → cs = true ∧ sup bt ct) := by
  simp only [memberOk, Bool.and_eq_true, Bool.or_eq_true, Bool.not_eq_true'] at h
  obtain ⟨⟨h1, h2⟩, h3⟩ := h
  refine ⟨hR.asg _ _ h2, fun hbs => ?_⟩
  subst hbs
  simp at h1 h3
  exact ⟨h1, hR.asg _ _ h3⟩

/-- Regression pair of the repaired class `staticFirst` (/repo 7244153): `@staticmethod def s(a=0)`
overridden by `@staticmethod def s(a)`; `s()` binds to the base only. -/
def wStatB : FnMember Tag := ⟨true, { po := [], pk := [wp "a" true], vp := none, ko := [], vk := none, ret := .any }⟩
def wStatC : FnMember Tag := ⟨true, { po := [], pk := [wp "a"], vp := none, ko := [], vk := none, ret := .any }⟩
/-- `@staticmethod def u()` overridden by `@staticmethod def u(a)`. -/
def wStatU : FnMember Tag := ⟨true, { po := [], pk := [], vp := none, ko := [], vk := none, ret := .any }⟩

/-- **Regression (was `witness_staticFirst`).** The override is now rejected; the old comparison
(`bind_self` on both sides) accepted it, it was in the old class, and `s()` separates the two
headers. Likewise for a parameterless base staticmethod, which used to accept every override. -/
theorem old_staticFirst_fixed :
    memberOk liveTyRel (wStatB.member .any) (wStatC.member .any) = false ∧
    old_callableOk liveTyRel (wStatB.raw .any) (wStatC.raw .any) = true ∧
    old_D07_staticFirst liveTyRel wStatB wStatC = true ∧
    cpyBind wStatB.hdr.shape ⟨0, []⟩ = true ∧ cpyBind wStatC.hdr.shape ⟨0, []⟩ = false ∧
    memberOk liveTyRel (wStatU.member .any) (wStatC.member .any) = false ∧
    old_callableOk liveTyRel (wStatU.raw .any) (wStatC.raw .any) = true ∧
    memberOk liveTyRel (wStatC.member .any) (wStatB.member .any) = true := by
  decide

/-- Sibling bases (regression for "compare with the nearest definer only"):
`Reader.fetch(self, key)`, `Retrying.fetch(self, key, retries=0)`, `class C(Reader, Retrying)` with
`fetch(self, key)`: the MRO is `C, Reader, Retrying`; the override is compatible with the first
definer and incompatible with the second, so it is rejected — in either order of the bases — and
`c.fetch(k, r)` binds to `Retrying.fetch` only. -/
def wFetch1 : FnMember Tag := ⟨false, { po := [], pk := [wp "key"], vp := none, ko := [], vk := none, ret := .any }⟩
def wFetch2 : FnMember Tag :=
  ⟨false, { po := [], pk := [wp "key", wp "retries" true], vp := none, ko := [], vk := none, ret := .any }⟩
def wFetchDefs : Nat → Option (Member Tag)
  | 0 => some (wFetch1.member .any)
  | 1 => some (wFetch2.member .any)
  | _ => none

theorem sibling_bases_both_compared :
    c3Mros [[], [], [0, 1]] = [some [0], some [1], some [2, 0, 1]] ∧
    c3Mros [[], [], [1, 0]] = [some [0], some [1], some [2, 1, 0]] ∧
    overrideOk liveTyRel wFetchDefs [0] (wFetch1.member .any) = true ∧
    overrideOk liveTyRel wFetchDefs [0, 1] (wFetch1.member .any) = false ∧
    overrideOk liveTyRel wFetchDefs [1, 0] (wFetch1.member .any) = false ∧
    cpyBind wFetch2.hdr.shape ⟨2, []⟩ = true ∧ cpyBind wFetch1.hdr.shape ⟨2, []⟩ = false := by
  decide

/-- C3 on a diamond, both base orders, and an inconsistent hierarchy. -/
example : c3Mros [[], [0], [0], [1, 2]] = [some [0], some [1, 0], some [2, 0], some [3, 1, 2, 0]] := by decide
example : c3Mros [[], [0], [0], [2, 1]] = [some [0], some [1, 0], some [2, 0], some [3, 2, 1, 0]] := by decide
example : c3Mros [[], [0], [0, 1]] = [some [0], some [1, 0], none] := by decide

/-! ## How the actual callable was obtained -/

/-- **Acceptance of an obtained callable is acceptance of the plain `def` of its effective
header**, hence sound outside the two exception classes *of that pair* — for every way of
obtaining it (bound method, function through the class, staticmethod / classmethod through
instance or class, `__call__` instance, constructor, property, nested def, lambda). The `obtain`
stream ties pyanalyze's attribute unwrapping to `effectiveSig`, and `inspect.signature` of the
really obtained object validates `effectiveSig` itself. -/
theorem obtain_sound_partial (R : TyRel τ) (a : τ) (E hdr : TDefSig τ) (o : Obtained)
    (hA : (effectiveSig a o hdr).WF)
    (h1 : ¬ D07_posKwClash E (effectiveSig a o hdr) = true)
    (h2 : ¬ D07_starKwClash E (effectiveSig a o hdr) = true)
    (hacc : obtainOk R a E o hdr = true) : BehSound E (effectiveSig a o hdr) :=
  sig_assign_sound_partial R E _ hA h1 h2 hacc

/-- …and contravariant / covariant. -/
theorem obtain_variance_partial (R : TyRel τ) (sup : τ → τ → Prop) (hR : RelSound R sup) (a : τ)
    (E hdr : TDefSig τ) (o : Obtained) (hE : E.WF) (hA : (effectiveSig a o hdr).WF)
    (h1 : ¬ D07_posKwClash E (effectiveSig a o hdr) = true)
    (hacc : obtainOk R a E o hdr = true) :
    ArgsContra sup E (effectiveSig a o hdr) ∧ sup (effectiveSig a o hdr).ret E.ret :=
  sig_assign_variance_partial R sup hR E _ hE hA h1 hacc

/-- Whether the member is defined on the class itself or inherited (any number of levels) makes
no difference to the effective header, hence none to the verdict. -/
theorem obtain_inherited_same (R : TyRel τ) (a : τ) (E hdr : TDefSig τ) (h : How) (d₁ d₂ : Nat) :
    obtainOk R a E ⟨h, d₁⟩ hdr = obtainOk R a E ⟨h, d₂⟩ hdr := rfl

/-- A staticmethod keeps its whole header through an instance and through the class; a bound
method, a classmethod, a `__call__` instance and a property-returned function have the header as
written after `self` / `cls`; only the function read through the class gains `self`. -/
theorem effectiveSig_cases (a : τ) (hdr : TDefSig τ) (d : Nat) :
    effectiveSig a ⟨.staticInst, d⟩ hdr = hdr ∧ effectiveSig a ⟨.staticCls, d⟩ hdr = hdr ∧
    effectiveSig a ⟨.bound, d⟩ hdr = hdr ∧ effectiveSig a ⟨.classInst, d⟩ hdr = hdr ∧
    effectiveSig a ⟨.classCls, d⟩ hdr = hdr ∧ effectiveSig a ⟨.callInst, d⟩ hdr = hdr ∧
    effectiveSig a ⟨.prop, d⟩ hdr = hdr ∧ effectiveSig a ⟨.funcViaClass, d⟩ hdr = withSelfParam a hdr :=
  ⟨rfl, rfl, rfl, rfl, rfl, rfl, rfl, rfl⟩

/-- Regression for "an inherited staticmethod read through an instance loses its first
parameter" (seeded C07-4): `@staticmethod def handler(tag, b)` inherited one level, expected
`Callable[[int], None]`: rejected, and `f(1)` indeed does not bind to it. -/
def wHandler : TDefSig Tag :=
  { po := [], pk := [⟨"tag", false, .object⟩, ⟨"b", false, .int⟩], vp := none, ko := [], vk := none, ret := .any }
def wCb : TDefSig Tag := { po := [⟨"x", false, .int⟩], pk := [], vp := none, ko := [], vk := none, ret := .any }

theorem inherited_static_keeps_first_param :
    obtainOk liveTyRel .any wCb ⟨.staticInst, 1⟩ wHandler = false ∧
    cpyBind wCb.shape ⟨1, []⟩ = true ∧ cpyBind (effectiveSig Tag.any ⟨.staticInst, 1⟩ wHandler).shape ⟨1, []⟩ = false := by
  decide

/-- The decisions of `attributes._unwrap_value_from_typed` / `_get_attribute_from_mro` that the
`obtain` stream exercises (property / classmethod / bound method / function-or-staticmethod, the
lookup primitives and the exceptions they swallow). -/
def pinnedUnwrapBranches : List (String × String × String) :=
  [("_unwrap_value_from_typed", "if", "not isinstance(result, KnownValue) or ctx.skip_unwrap"),
   ("_unwrap_value_from_typed", "if", "isinstance(cls_val, property)"),
   ("_unwrap_value_from_typed", "if", "qcore.inspection.is_classmethod(cls_val)"),
   ("_unwrap_value_from_typed", "if", "inspect.ismethod(cls_val)"),
   ("_unwrap_value_from_typed", "if", "inspect.isfunction(cls_val)"),
   ("_unwrap_value_from_typed", "lookup", "inspect.getattr_static(typ, ctx.attr)"),
   ("_unwrap_value_from_typed", "except", "AttributeError"),
   ("_unwrap_value_from_typed", "if", "ctx.attr != '__new__'"),
   ("_unwrap_value_from_typed", "if", "isinstance(descriptor, staticmethod) or ctx.attr == '__new__'"),
   ("_unwrap_value_from_typed", "if", "isinstance(cls_val, (MethodDescriptorType, SlotWrapperType))"),
   ("_unwrap_value_from_typed", "if", "_static_hasattr(cls_val, 'decorator') and _static_hasattr(cls_val, 'instance') and (not isinstance(cls_val.instance, type))"),
   ("_unwrap_value_from_typed", "if", "asynq.is_async_fn(cls_val)"),
   ("_unwrap_value_from_typed", "if", "_static_hasattr(cls_val, 'func_code')"),
   ("_unwrap_value_from_typed", "if", "_static_hasattr(cls_val, '__get__')"),
   ("_unwrap_value_from_typed", "if", "typeshed_type is not UNINITIALIZED_VALUE"),
   ("_unwrap_value_from_typed", "if", "TreatClassAttributeAsAny.should_treat_as_any(cls_val, ctx.options)"),
   ("_unwrap_value_from_typed", "if", "transformed is not None"),
   ("_get_attribute_from_mro", "lookup", "getattr(typ, ctx.attr)"),
   ("_get_attribute_from_mro", "except", "Exception"),
   ("_get_attribute_from_mro", "except", "Exception"),
   ("_get_attribute_from_mro", "lookup", "type.mro(typ)"),
   ("_get_attribute_from_mro", "except", "Exception"),
   ("_get_attribute_from_mro", "lookup", "base_cls.__dict__"),
   ("_get_attribute_from_mro", "except", "Exception"),
   ("_get_attribute_from_mro", "lookup", "base_dict['__annotations__']"),
   ("_get_attribute_from_mro", "except", "Exception"),
   ("_get_attribute_from_mro", "lookup", "base_dict[ctx.attr]"),
   ("_get_attribute_from_mro", "except", "Exception"),
   ("_get_attribute_from_mro", "lookup", "getattr(typ, ctx.attr)"),
   ("_get_attribute_from_mro", "except", "Exception"),
   ("_get_attribute_from_mro", "lookup", "getattr(typ, ctx.attr)"),
   ("_get_attribute_from_mro", "except", "AttributeError"),
   ("_get_attribute_from_mro", "except", "Exception")]


/-- Obligation over `Generated/AttrUnwrap.lean` (AST scan of the live tree): a changed test,
lookup primitive (`inspect.getattr_static` vs `__dict__`) or except clause is noticed. -/
theorem attr_unwrap_branches_registered : liveUnwrapBranches = pinnedUnwrapBranches := by rfl

/-! ## Route coverage -/

/-- The call sites through which two signatures reach `Signature.can_assign`, as exercised by the
correspondence streams (unit, entry, proto, override/hier, overload). -/
def pinnedRoutes : List (String × String × String) :=
  [("name_check_visitor.py", "NameCheckVisitor._can_assign_to_base", "_can_assign_to_base_callable"),
   ("name_check_visitor.py", "NameCheckVisitor._can_assign_to_base", "_can_assign_to_base_property"),
   ("name_check_visitor.py", "NameCheckVisitor._can_assign_to_base_callable", "can_assign"),
   ("name_check_visitor.py", "NameCheckVisitor._check_for_incompatible_overrides", "_can_assign_to_base"),
   ("name_check_visitor.py", "NameCheckVisitor._check_for_incompatible_overrides", "_get_base_class_attributes"),
   ("name_check_visitor.py", "NameCheckVisitor._set_name_in_scope", "_check_for_incompatible_overrides"),
   ("name_check_visitor.py", "NameCheckVisitor.visit_FunctionDef", "_get_base_class_attributes"),
   ("signature.py", "OverloadedSignature.can_assign", "can_assign"),
   ("signature.py", "Signature.can_assign", "can_assign"),
   ("signature.py", "Signature.can_assign", "can_assign_through_check_call"),
   ("signature.py", "Signature.can_assign", "can_assign_var_keyword"),
   ("signature.py", "Signature.can_assign", "can_assign_var_keyword"),
   ("signature.py", "Signature.can_assign", "can_assign_var_positional"),
   ("signature.py", "Signature.can_assign", "can_assign_var_positional"),
   ("value.py", "CallableValue.can_assign", "can_assign"),
   ("value.py", "CallableValue.can_assign", "check_call_preprocessed"),
   ("value.py", "CallableValue.can_overlap", "_signatures_overlap"),
   ("value.py", "KnownValue.can_assign", "can_assign"),
   ("value.py", "UnboundMethodValue.can_assign", "can_assign"),
   ("value.py", "_signatures_overlap", "can_assign"),
   ("value.py", "_signatures_overlap", "can_assign")]

/-- Obligation over `Generated/SigRoutes.lean` (AST scan of the live tree): the set of routes is
the pinned one — a new or removed call site is noticed and has to be given a stream (or dismissed)
before the check is quiet again. -/
theorem routes_pinned : liveRoutes = pinnedRoutes := by decide

/-- The tags as value terms of the shared membership model (Spec/Mem.lean). -/
def Tag.cls : Tag → Cls
  | .any => C.object | .object => C.object | .int => C.int | .bool => C.bool
  | .float => C.float | .str => C.str

def Tag.ty : Tag → Ty
  | .any => .any
  | t => .typed t.cls

theorem sub_oob (c e : Cls) (h : liveTable.names.length ≤ c) : sub liveTable c e = false := by
  have h1 : ∀ b, liveTable.issub c b = false := by
    intro b
    unfold ClassTable.issub
    have : liveTable.issubM[c]? = none := List.getElem?_eq_none (by simpa [liveTable] using h)
    simp [List.getD_eq_getElem?_getD, this]
  simp [sub, h1]

/-- Obligation over the live class table: on every class of the table, `tagIncl` between two real
annotations is inclusion of `sub` (CPython's `issubclass` plus the numeric promotions). -/
theorem tagIncl_sub_table :
    ((List.range liveTable.names.length).all fun d => Tag.all.all fun S => Tag.all.all fun T =>
      S == .any || T == .any || !tagIncl S T || !sub liveTable d S.cls || sub liveTable d T.cls) = true := by
  decide +kernel

/-- …and `tagIncl` is inclusion under the structural membership `mem` over the live class table:
for two real annotations, `tagIncl S T` implies that every object of the universe that is a member
of `S` is a member of `T`. -/
theorem tagIncl_mem (S T : Tag) (hS : S ≠ .any) (hT : T ≠ .any) (h : tagIncl S T = true)
    (o : Obj) : mem liveTable o S.ty = true → mem liveTable o T.ty = true := by
  have hm : ∀ U : Tag, U ≠ .any → mem liveTable o U.ty = sub liveTable (clsOf liveTable o) U.cls := by
    intro U hU
    cases U <;> first | exact absurd rfl hU | simp [Tag.ty, mem]
  rw [hm S hS, hm T hT]
  generalize clsOf liveTable o = d
  by_cases hd : d < liveTable.names.length
  · have := List.all_eq_true.mp tagIncl_sub_table d (List.mem_range.mpr hd)
    have := List.all_eq_true.mp this S (by cases S <;> simp [Tag.all])
    have := List.all_eq_true.mp this T (by cases T <;> simp [Tag.all])
    have hS' : (S == Tag.any) = false := by cases S <;> first | exact absurd rfl hS | rfl
    have hT' : (T == Tag.any) = false := by cases T <;> first | exact absurd rfl hT | rfl
    simp only [hS', hT', h, Bool.false_or, Bool.not_true, Bool.or_eq_true, Bool.not_eq_true'] at this
    intro hs
    rcases this with h' | h'
    · rw [hs] at h'; cases h'
    · exact h'
  · rw [sub_oob d S.cls (Nat.le_of_not_lt hd)]
    intro h'; cases h'

end Pya.C07
