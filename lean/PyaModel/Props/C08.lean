import PyaModel.Proofs.C08
import PyaModel.Generated.ClassTable
/-!
# Props/C08 — overload resolution follows first-match and distributes over unions

Property theorems only. Model: `Pya.C08.resolve` (Core/Overload.lean, follows
`OverloadedSignature.check_call`, `_unite_rets`, `Signature.check_call_with_bound_args`,
`_check_param_type_compatibility`, `decompose_union`). Specification: `Pya.C08.firstMatch`
(Spec/Overload.lean: the first overload whose parameters accept the arguments; diagnosed iff none).

The kernel is parametric in the assignability judge `J` (`acc` = "is assignable", `used` = "the match
went through Any"); pyanalyze's own judge is `liveJudge tbl = ⟨ca tbl false, ua tbl⟩` for a class
table `tbl`. Theorems stated for every `J` hold in particular for `liveJudge tbl`. All theorems are
about every overload set and every call of the modelled fragment — no size bound.
-/
namespace Pya.C08

/-! ## 1. No Any, no union: first match -/

/-- The first sentence of the property, for pyanalyze's judge: for arguments containing no Any and
no union the call is typed with the return type of the first accepting overload and diagnosed
exactly when there is none. -/
def FirstMatchFull (tbl : ClassTable) (sigs : List OSig) (a : CallArgs) : Prop :=
  NoAny a = true → NoUnion a = true → RetsNormal sigs = true →
    resolve (liveJudge tbl) sigs a = firstMatch (liveJudge tbl) sigs a

/-- **First match, in the documented sense (every judge, every overload set, every call).**
If no argument is a union and no overload accepts the call *through Any*, overload resolution is
exactly first-match: same type, same diagnosed / not diagnosed verdict. -/
theorem overload_first_match_of_noAnyMatch (J : Judge) (sigs : List OSig) (a : CallArgs)
    (hu : NoUnion a = true) (hr : RetsNormal sigs = true)
    (hany : ∀ s ∈ sigs, usedAnyIn J s a = false) :
    resolve J sigs a = firstMatch J sigs a := by
  rw [resolve_noUnion J sigs a hu, nfLoop_noAnyUsed J a sigs hany, firstMatch_eq]
  cases hf : sigs.find? (accepts J · a) with
  | none => rfl
  | some s =>
    have hs : s ∈ sigs := List.mem_of_find?_eq_some hf
    simp only [RetsNormal, List.all_eq_true] at hr
    simp [unite_normalRet (hr s hs)]

/-- **First match for pyanalyze's judge — full strength on the fragment.** For every class table on
which `tuple` is its own generic base, every overload set with flat parameter annotations (classes,
literals, `Any`, unions of those), distinct parameter names and no `**kwargs`, and every call whose
arguments contain no Any and no union, the result is first-match. (Before the repair of
`emptyVarPos` in /repo this needed the hypothesis that no overload binds the call with an empty
`*args` pack.) -/
theorem overload_first_match (tbl : ClassTable) (hself : TupleSelf tbl = true)
    (sigs : List OSig) (a : CallArgs) (hp : PlainSigs sigs = true) : FirstMatchFull tbl sigs a := by
  intro hna hnu hr
  apply overload_first_match_of_noAnyMatch _ sigs a hnu hr
  intro s hs
  exact usedAnyIn_live_false tbl hself (plainSig_of sigs hp s hs) (noAny_vals hna)

/-- **Diagnosed exactly when no overload accepts** — for every judge and every call without a union
argument, Any arguments included. -/
theorem overload_diagnosed_iff (J : Judge) (sigs : List OSig) (a : CallArgs) (hu : NoUnion a = true) :
    resolve J sigs a = .err ↔ firstMatch J sigs a = .err := by
  rw [resolve_noUnion J sigs a hu, nfLoop_err_iff, firstMatch_eq]
  cases hf : sigs.find? (accepts J · a) with
  | none =>
    simp only [true_and, iff_true]
    intro s hs
    have := List.find?_eq_none.mp hf s hs
    simpa using this
  | some s =>
    have hs : s ∈ sigs := List.mem_of_find?_eq_some hf
    have ha : accepts J s a = true := by simpa using List.find?_some hf
    simp only [true_and, reduceCtorEq, iff_false]
    intro h
    rw [h s hs] at ha; simp at ha

/-! ### repaired class `emptyVarPos` (regression witness) -/

def tInt : Ty := .typed C.int
def tStr : Ty := .typed C.str
/-- `@overload def f(*r: int) -> int` / `@overload def f(*r: str) -> str` -/
def wSigs : List OSig := [⟨[⟨"r", .varPos, false, tInt⟩], tInt⟩, ⟨[⟨"r", .varPos, false, tStr⟩], tStr⟩]
/-- `f()` -/
def wArgs : CallArgs := ⟨[], []⟩

/-- **Regression witness of the repaired defect.** `f()` against `(*r: int) -> int`, `(*r: str) -> str`
is typed `int`; before the repair the empty pack made both overloads Any-matches and the result was
`Any[multiple_overload_matches]`. -/
theorem emptyVarPos_fixed : resolve (liveJudge liveTable) wSigs wArgs = .ok tInt := by
  have b1 : ∀ T r, (OSig.bind ⟨[⟨"r", .varPos, false, T⟩], r⟩ wArgs) = some [("r", .dflt)] := by
    intro T r; rfl
  simp [resolve, wSigs, b1, ovLoop, checkOne, tasks, entryTask, entryVal, OParam.annot, chkStep, liveJudge,
    acc_emptyPack liveTable tupleSelf_live, tInt, tStr, uniteRets, unite, flatten1,
    dedup, dictMem, C.int, C.str]

/-! ## 2. Exactly one union argument -/

/-- The full statement of "accepted when every member is accepted by some overload". **False as it
stands** (`unionInVarPos_witness`). -/
def UnionAcceptFull (tbl : ClassTable) (sigs : List OSig) (a : CallArgs) (slot : Pos) (ms : List Ty) : Prop :=
  OneUnion a slot ms →
  (∀ m ∈ ms, firstMatch (liveJudge tbl) sigs (a.setAt slot m) ≠ .err) →
  ∃ T, resolve (liveJudge tbl) sigs (a.setAt slot (.union ms)) = .ok T

/-- The full statement of "its type contains the result type of each member's own call": the result
is `unite_values` of a list of return types containing each member's first-match type. -/
def UnionContainsFull (tbl : ClassTable) (sigs : List OSig) (a : CallArgs) (slot : Pos) (ms : List Ty) : Prop :=
  OneUnion a slot ms →
  ∀ T, resolve (liveJudge tbl) sigs (a.setAt slot (.union ms)) = .ok T →
  ∃ rets, T = unite rets ∧
    ∀ m ∈ ms, ∀ R, firstMatch (liveJudge tbl) sigs (a.setAt slot m) = .ok R → R ∈ rets

/-- **Union acceptance under `¬ D08_unionInVarPos`.** Exactly one argument
is a union: if every member's own call is accepted by some overload, the call is accepted and typed
(no diagnostic, and — no Any being involved — no `Any[multiple_overload_matches]` either). For every
class table with `TupleSelf`, every plain overload set and every call. -/
theorem overload_union_accept_partial (tbl : ClassTable) (hself : TupleSelf tbl = true)
    (sigs : List OSig) (a : CallArgs) (slot : Pos) (ms : List Ty) (hp : PlainSigs sigs = true)
    (hD2 : D08_unionInVarPos sigs (a.setAt slot (.union ms)) = false) :
    UnionAcceptFull tbl sigs a slot ms := by
  intro h hacc
  exact resolve_union_accept (unionCtx_of tbl a slot ms h) h.two sigs
    (slotOK_of tbl hself sigs a slot ms hp h hD2) hacc

/-- **Union containment under the same hypotheses.** The type of the call is `unite_values(*rets)`
for a list `rets` of overload return types that contains, for every member of the union whose own
call is accepted, the return type first-match gives that call. -/
theorem overload_union_contains_partial (tbl : ClassTable) (hself : TupleSelf tbl = true)
    (sigs : List OSig) (a : CallArgs) (slot : Pos) (ms : List Ty) (hp : PlainSigs sigs = true)
    (hD2 : D08_unionInVarPos sigs (a.setAt slot (.union ms)) = false) :
    UnionContainsFull tbl sigs a slot ms := by
  intro h T hres
  exact resolve_union_contains (unionCtx_of tbl a slot ms h) h.two sigs
    (slotOK_of tbl hself sigs a slot ms hp h hD2) T hres

/-- What "contains" means for the united type: every alternative of every type in `rets` is one of
the members `unite_values` keeps, literally or as an equal dict key (same hash and `==`). -/
theorem overload_union_members (rets : List Ty) (R : Ty) (hR : R ∈ rets) (x : Ty) (hx : x ∈ flatten1 R) :
    x ∈ uniteMembers rets ∨ dictMem x (uniteMembers rets) = true :=
  unite_members_cover rets R hR x hx

/-- The two union theorems for an arbitrary judge that treats unions member-wise, under the
structural side conditions (`UnionCtx`, `SlotOK`) — the form the induction is carried out in. -/
theorem overload_union_generic (J : Judge) (a : CallArgs) (slot : Pos) (ms : List Ty) (sigs : List OSig)
    (C : UnionCtx J a slot ms) (h2 : 2 ≤ ms.length) (hS : ∀ s ∈ sigs, SlotOK J a slot ms s) :
    ((∀ m ∈ ms, firstMatch J sigs (a.setAt slot m) ≠ .err) →
        ∃ T, resolve J sigs (a.setAt slot (.union ms)) = .ok T) ∧
    (∀ T, resolve J sigs (a.setAt slot (.union ms)) = .ok T →
        ∃ rets, T = unite rets ∧ ∀ m ∈ ms, ∀ R, firstMatch J sigs (a.setAt slot m) = .ok R → R ∈ rets) :=
  ⟨resolve_union_accept C h2 sigs hS, resolve_union_contains C h2 sigs hS⟩

/-! ### exception class `unionInVarPos` -/

/-- `f(x)` with `x : int` as the base call; the union `int | str` goes to position 0. -/
def uArgs : CallArgs := ⟨[tInt], []⟩
def uMs : List Ty := [tInt, tStr]

/-- **Witness for `unionInVarPos`.** `f(x)`, `x : int | str`, against `(*r: int) -> int`,
`(*r: str) -> str`: `f(int)` and `f(str)` are both accepted, the union call is diagnosed — the pack
`SequenceValue(tuple, [int | str])` is not a union, so `decompose_union` never runs. -/
theorem unionInVarPos_witness : ¬ UnionAcceptFull liveTable wSigs uArgs (.idx 0) uMs := by
  intro h
  have b1 : ∀ T r v, (OSig.bind ⟨[⟨"r", .varPos, false, T⟩], r⟩ ⟨[v], []⟩) = some [("r", .args)] := by
    intro T r v; rfl
  obtain ⟨hi, hs, hii, hss⟩ := live_int_str
  have hgb := tupleSelf_eq tupleSelf_live
  have hacc : ∀ m ∈ uMs, firstMatch (liveJudge liveTable) wSigs (uArgs.setAt (.idx 0) m) ≠ .err := by
    intro m hm
    simp only [uMs, List.mem_cons, List.not_mem_nil, or_false] at hm
    rcases hm with rfl | rfl
    · simp [firstMatch, wSigs, uArgs, CallArgs.setAt, accepts, b1, tasks, entryTask, entryVal, OParam.annot, liveJudge,
        idxCount, isIdx, tInt, tStr, ca, theirArgs, hgb, instArgs, caArgs, caArg, caMems, typedCA, typOf, hii]
    · simp [firstMatch, wSigs, uArgs, CallArgs.setAt, accepts, b1, tasks, entryTask, entryVal, OParam.annot, liveJudge,
        idxCount, isIdx, tInt, tStr, ca, theirArgs, hgb, instArgs, caArgs, caArg, caMems, typedCA, typOf, hi, hss]
  obtain ⟨T, hT⟩ := h (by decide) hacc
  have hres : resolve (liveJudge liveTable) wSigs (uArgs.setAt (.idx 0) (.union uMs)) = .err := by
    simp [resolve, wSigs, uArgs, uMs, CallArgs.setAt, b1, ovLoop, checkOne, tasks, entryTask, entryVal, OParam.annot,
      chkStep, liveJudge, idxCount, isIdx, tInt, tStr, ca, theirArgs, hgb, instArgs, caArgs, caArg, caMems, caAllR,
      typedCA, typOf, hi, hs, hii, hss, decompose, unannot]
  rw [hres] at hT
  cases hT

example : D08_unionInVarPos wSigs (uArgs.setAt (.idx 0) (.union uMs)) = true := by decide

/-! ## 3. An Any argument never selects one overload's type when several match -/

/-- **Any rule (every judge, every overload set, every call without a union argument).** Let the
accepting overloads be `s1 :: more`, in order. If the first of them accepts *through Any* and some
other accepting overload has a different return type (different as a member of a Python set: hash
or `==` differ), the result is `Any[multiple_overload_matches]` — never one overload's type, never a
diagnostic. -/
theorem overload_any_no_single (J : Judge) (sigs : List OSig) (a : CallArgs) (hu : NoUnion a = true)
    (s1 : OSig) (more : List OSig) (hM : sigs.filter (accepts J · a) = s1 :: more)
    (hany : usedAnyIn J s1 a = true) (hdiff : more.any (fun s2 => !deq s1.ret s2.ret) = true) :
    resolve J sigs a = .anyMulti := by
  rw [resolve_noUnion J sigs a hu]
  obtain ⟨rest, hr, hm⟩ := nfLoop_skip J a sigs s1 more hM
  rw [hr]
  simp only [hany, if_true]
  apply nfLoop_anyMulti J a s1.ret rest []
  right
  simp only [List.any_eq_true, Bool.not_eq_true'] at hdiff
  obtain ⟨s2, hs2, hd⟩ := hdiff
  have : s2 ∈ rest.filter (accepts J · a) := by rw [hm]; exact hs2
  obtain ⟨h1, h2⟩ := List.mem_filter.mp this
  exact ⟨s2, h1, h2, hd⟩

/-- **A clean first match wins** (the documented reading: an Any argument bound to a parameter
annotated `Any` is not a match through Any). If the first accepting overload accepts without Any,
its return type is the result, whatever follows. -/
theorem overload_clean_first_wins (J : Judge) (sigs : List OSig) (a : CallArgs) (hu : NoUnion a = true)
    (s1 : OSig) (more : List OSig) (hM : sigs.filter (accepts J · a) = s1 :: more)
    (hclean : usedAnyIn J s1 a = false) :
    resolve J sigs a = .ok (unite [s1.ret]) := by
  rw [resolve_noUnion J sigs a hu]
  obtain ⟨rest, hr, _⟩ := nfLoop_skip J a sigs s1 more hM
  rw [hr]
  simp [hclean, uniteRets]

/-! ## Non-vacuity -/

/-- `(a: int, /, b: str = ..., *, c: int | None = ...) -> int`, `(a: str, *r: int) -> str`,
`(a: object, b: object) -> bytes` -/
def exSigs : List OSig :=
  [⟨[⟨"a", .posOnly, false, tInt⟩, ⟨"b", .posOrKw, true, tStr⟩,
     ⟨"c", .kwOnly, true, .union [tInt, .known .none]⟩], tInt⟩,
   ⟨[⟨"a", .posOrKw, false, tStr⟩, ⟨"r", .varPos, false, tInt⟩], tStr⟩,
   ⟨[⟨"a", .posOrKw, false, .typed C.object⟩, ⟨"b", .posOrKw, false, .typed C.object⟩], .typed C.bytes⟩]
/-- `f(x, y, c=z)` is not what is called here: `f(x, y)` with `x : int`, `y : str` -/
def exArgs : CallArgs := ⟨[tInt, tStr], []⟩

example : PlainSigs exSigs = true := by decide
example : RetsNormal exSigs = true := by decide
example : NoAny exArgs = true ∧ NoUnion exArgs = true := by decide
example : OneUnion exArgs (.idx 0) [tInt, tStr] := by decide
example : D08_unionInVarPos exSigs (exArgs.setAt (.idx 0) (.union [tInt, tStr])) = false := by decide
example : RetsNormal [⟨[], .union [tInt, .known .none]⟩] = true := by decide
example : TupleSelf liveTable = true := tupleSelf_live

/-- A judge small enough to evaluate by `decide`: classes by equality, `Any` on the right always
accepted and recorded unless `Any` is expected. -/
def toyJudge : Judge where
  acc := fun e v => match e, v with
    | .any, _ => true
    | _, .any => true
    | .typed c, .typed d => c == d
    | _, _ => false
  used := fun e v => match e, v with
    | .any, _ => false
    | _, .any => true
    | _, _ => false

/-- `(a: int) -> int`, `(a: str) -> str`, `(a: Any) -> bytes` called with an `Any` argument: the
hypotheses of `overload_any_no_single` hold (three overloads accept, the first through Any, the
second returns a different type) … -/
def anySigs : List OSig :=
  [⟨[⟨"a", .posOrKw, false, tInt⟩], tInt⟩, ⟨[⟨"a", .posOrKw, false, tStr⟩], tStr⟩,
   ⟨[⟨"a", .posOrKw, false, .any⟩], .typed C.bytes⟩]
example : NoUnion ⟨[.any], []⟩ = true := by decide
example : (anySigs.filter (accepts toyJudge · ⟨[.any], []⟩)).length = 3 := by decide
example : usedAnyIn toyJudge ⟨[⟨"a", .posOrKw, false, tInt⟩], tInt⟩ ⟨[.any], []⟩ = true := by decide
example : deq tInt tStr = false := by decide
/-- … and with the `Any`-annotated overload first, those of `overload_clean_first_wins`. -/
example : usedAnyIn toyJudge ⟨[⟨"a", .posOrKw, false, .any⟩], .typed C.bytes⟩ ⟨[.any], []⟩ = false := by decide
/-- `overload_first_match_of_noAnyMatch`: an Any-free call. -/
example : ∀ s ∈ anySigs, usedAnyIn toyJudge s ⟨[tStr], []⟩ = false := by decide

end Pya.C08
