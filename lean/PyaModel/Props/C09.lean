import PyaModel.Proofs.C09
import PyaModel.Generated.ScopeSet
/-!
# Props/C09 — name binding: reaching definitions and (possibly) undefined names

Property theorems only.

**Model** (`Core/Scope.lean`): `Pya.C09.reported p x u` — the definition nodes pyanalyze's `FunctionScope` hands to
`resolve_name` at use `u` of variable `x` in the function body `p` (`none` = `_UNINITIALIZED`, which `resolve_name`
turns into `undefined_name` / `possibly_undefined_name`; `diagOf`). The model follows `subscope`, `loop_scope`,
`suppressing_subscope`, `get_combined_scope`, the visitor's `visit_If/For/While/Try/With/Return/Raise/Break/
Continue`, the collect-phase second visit of loop bodies and the two-phase function visit.

**Spec** (`Spec/Flow.lean`): `Pya.C09.reaching lib p x u` — reaching definitions over the structured control-flow
graph with opaque conditions, entry state "unbound":
* strict (`lib = false`): exception edges only at calls (call statements, `raise`, evaluation of `if` / `while` /
  `for` conditions and context-manager expressions); an exception in a `try` body reaches any handler and is not
  propagated past a `try` that has handlers; a suppressing `with` may or may not suppress; `while True` has no
  false exit.
* liberal (`lib = true`): additionally an exception edge before and after every statement (observable only inside
  `try` / `with` bodies, nested statements included), exceptions may pass handlers uncaught, every loop may exit
  after any iteration bypassing `else`, `while True` may exit.
The property: `reaching false ⊆ reported ⊆ reaching true` (the second inclusion at uses some liberal path reaches),
and the unbound marker `none` likewise.

The full statements are FALSE of pyanalyze (and of the model): eight exception classes (two of them precision-only), each with a witness below.
What is proved for all skeletons of a fragment (induction, no size bound): the soundness half (definitions and the
unbound marker) on the fragment the classes leave among `try`/`with`-free skeletons (loops with `continue`
included), the precision half on the loop-free fragment, and the two-phase lemma on the full syntax.
-/
namespace Pya.C09

/-- Full-strength soundness half (not a theorem: see the witnesses). -/
def C09_sound_full : Prop :=
  ∀ (p : Block) (x u : Nat) (n : Node), n ∈ reaching false p x u → n ∈ reported p x u

/-- Full-strength precision half (not a theorem: see the witnesses). -/
def C09_precise_full : Prop :=
  ∀ (p : Block) (x u : Nat) (n : Node), reaching true p x u ≠ [] → n ∈ reported p x u → n ∈ reaching true p x u

/-- **C09, soundness half, partial (S1 + S2).** For every skeleton `p` (any size, any nesting depth) built from
assignments, uses, calls, `if`/`else`, `while c:` / `for` loops with `break` and `continue`, `return` and `raise` —
i.e. without `try` / `with` (`noTryWith`), without syntactically dead statements (`jumpsLast`), without always-entered
`for` loops (`plainFor`) and outside the exception classes `loopElse` (R1) and `secondVisitSeed` (R2: `while True`) —
with distinct use ids: every definition that reaches use `u` of `x` on a strict path, and the
unbound state if it does, is among what pyanalyze reports there. -/
theorem c09_reported_sound_partial (p : Block) (x u : Nat) (n : Node)
    (hfrag : p.noTryWith = true) (hdead : p.jumpsLast = true) (hfor : p.plainFor = true)
    (hR1 : D09_loopElse p = false) (hR2 : D09_secondVisitSeed p = false) (hids : p.useIds.Nodup)
    (h : n ∈ reaching false p x u) : n ∈ reported p x u := by
  have hs := simpleB_of p hfrag hdead hfor hR1 hR2
  cases n with
  | none => exact sound_unbound p hs hids x u h
  | some d => exact sound_defs p hs x u d h

/-- The classes R3, R4, R5 (and R7, which needs a `finally`) cannot occur without `try` / `with`; R2b `loopBreak` and R6
`nestedLoopJump` are precision-only classes. So within the `try`/`with`-free skeletons the hypotheses of
`c09_reported_sound_partial` exclude exactly the two classes on which pyanalyze is unsound there, R1 and R2. -/
theorem c09_tryfree_classes (p : Block) (h : p.noTryWith = true) :
    D09_jumpThroughFinally p = false ∧ D09_loopJumpInSuppressing p = false ∧ D09_suppressingInFinally p = false :=
  noTryWith_classes p h

/-- **Unbound use is reported (partial).** Same hypotheses: if the unbound state reaches the use on a strict path,
pyanalyze emits `undefined_name` or `possibly_undefined_name` there. -/
theorem c09_unbound_reported_partial (p : Block) (x u : Nat)
    (hfrag : p.noTryWith = true) (hdead : p.jumpsLast = true) (hfor : p.plainFor = true)
    (hR1 : D09_loopElse p = false) (hR2 : D09_secondVisitSeed p = false) (hids : p.useIds.Nodup)
    (h : none ∈ reaching false p x u) : diagOf (reported p x u) ≠ .ok :=
  diag_of_mem_none (c09_reported_sound_partial p x u none hfrag hdead hfor hR1 hR2 hids h)

/-- **`undefined_name` (partial).** Same hypotheses: if *only* the unbound state reaches the use, and pyanalyze's
report is sound and contains nothing but what reaches the use, the diagnostic is `undefined_name`; stated as:
whenever the reported set is exactly unbound, `undefined_name` is what `resolve_name` emits. -/
theorem c09_undefined_of_only_unbound (ds : List Node) (h : ∀ n ∈ ds, n = none) : diagOf ds = .undefined :=
  diag_undefined ds h

/-! ### Scope kinds

The CFG semantics does not depend on how the name is bound; only the entry state does (`entryOf`): unbound for a local,
the declared literal for a parameter, the outside binding for a `global` / `nonlocal` name (liberal reading: or any value
the function itself assigns, the function may have been called before). `reportedK` is the model of what pyanalyze
reports for each kind. The exception classes are the same for every kind. -/

/-- **Soundness, every scope kind, partial.** Same hypotheses as `c09_reported_sound_partial`; `x` bound as a local, as
a parameter, or declared `global` / `nonlocal` (`k`): every definition that reaches use `u` on a strict path from the
entry state of that kind is reported. -/
theorem c09_reported_sound_kinds_partial (k : ScopeKind) (p : Block) (x u d : Nat)
    (hfrag : p.noTryWith = true) (hdead : p.jumpsLast = true) (hfor : p.plainFor = true)
    (hR1 : D09_loopElse p = false) (hR2 : D09_secondVisitSeed p = false) (hids : p.useIds.Nodup)
    (h : some d ∈ reachingK false k p x u) : some d ∈ reportedK k p x u := by
  have hs := simpleB_of p hfrag hdead hfor hR1 hR2
  cases k with
  | loc => exact sound_defs p hs x u d h
  | param d0 =>
    have h' := (reaching_param p x u d0 (some d)).1 h
    have hs' : (Block.cons (.assign x d0) p).simple = true := by
      simp [Block.simple, Stmt.simple, Stmt.isJump, hs]
    exact sound_defs _ hs' x u d h'
  | glob d0 => exact sound_ref p hs hids x u d0 d h
  | nonloc d0 => exact sound_ref p hs hids x u d0 d h

/-- **Unbound use reported, locals and parameters, partial.** (A `global` / `nonlocal` name is never unbound on entry
here: the outside scope binds it.) A parameter is never reported unbound unless the unbound state reaches — it
cannot, so this is the local theorem plus "nothing unbound reaches a use of a parameter" folded into one statement:
if unbound reaches on a strict path it is reported. -/
theorem c09_unbound_sound_kinds_partial (k : ScopeKind) (p : Block) (x u : Nat)
    (hk : k = .loc ∨ ∃ d0, k = .param d0)
    (hfrag : p.noTryWith = true) (hdead : p.jumpsLast = true) (hfor : p.plainFor = true)
    (hR1 : D09_loopElse p = false) (hR2 : D09_secondVisitSeed p = false) (hids : p.useIds.Nodup)
    (h : none ∈ reachingK false k p x u) : none ∈ reportedK k p x u := by
  have hs := simpleB_of p hfrag hdead hfor hR1 hR2
  rcases hk with hk | ⟨d0, hk⟩
  · subst hk; exact sound_unbound p hs hids x u h
  · subst hk
    have h' := (reaching_param p x u d0 none).1 h
    have hs' : (Block.cons (.assign x d0) p).simple = true := by
      simp [Block.simple, Stmt.simple, Stmt.isJump, hs]
    have hids' : (Block.cons (.assign x d0) p).useIds.Nodup := by
      simpa [Block.useIds, Stmt.useIds] using hids
    exact sound_unbound _ hs' hids' x u h'

/-- **The bookkeeping of `FunctionScope.set` is the one the model assumes — checked against the live source.**
`Generated/ScopeSet.lean` lists the statements of `FunctionScope.set` by the condition they run under. The model
(and `reportedK`) relies on: the flow-sensitive bookkeeping — `definition_node_to_value`,
`name_to_current_definition_nodes`, `name_to_all_definition_nodes` (which `suppressing_subscope` reads) — is done for
every assignment whatever backs the name; forwarding to the owning scope is what is specific to `global` /
`nonlocal` names; nothing is specific to names that are not. -/
theorem scope_set_bookkeeping_registered :
    "self.definition_node_to_value[node] = value" ∈ setAlways ∧
    "self.name_to_current_definition_nodes[varname] = [node]" ∈ setAlways ∧
    "self.name_to_all_definition_nodes[varname].add(node)" ∈ setAlways ∧
    "ref_var.scope.set(ref_var.name, value, node, state)" ∈ setIfRef ∧
    "self.referencing_value_vars[varname] = value" ∈ setDecl ∧
    setIfNotRef = [] ∧ setOther = [] := by decide

/-- **C09, precision half, partial (S1: loop-free fragment).** For every skeleton built from assignments, uses,
calls, `if`/`else`, `return`, `raise` (`loopFree`; any size and depth) without dead code (`noDead`: nothing follows a
statement that cannot complete normally): at every use some path reaches, everything pyanalyze reports — definitions
and the unbound marker alike — reaches the use on a path (liberal = strict on this fragment). Together with
`c09_reported_sound_partial` the reported set is *exactly* the reaching set there. -/
theorem c09_reported_precise_partial (p : Block) (x u : Nat) (n : Node)
    (hfrag : p.loopFree = true) (hdead : p.noDead = true)
    (h : n ∈ reported p x u) (hreach : reaching true p x u ≠ []) : n ∈ reaching true p x u :=
  precise_loopFree p hfrag hdead x u n h hreach

/-- **A name bound on every path is not reported as possibly undefined (partial, S1).** If pyanalyze emits
`possibly_undefined_name` at a reachable use of the loop-free fragment, the unbound state does reach it. -/
theorem c09_possibly_undefined_precise_partial (p : Block) (x u : Nat)
    (hfrag : p.loopFree = true) (hdead : p.noDead = true)
    (h : diagOf (reported p x u) = .possibly) (hreach : reaching true p x u ≠ []) :
    none ∈ reaching true p x u :=
  precise_loopFree p hfrag hdead x u none (mem_none_of_diag_possibly h) hreach

/-- **Two-phase lemma (all skeletons, full syntax incl. `try` / `with` / `break` / `else`).** Whatever the checking
phase hands to `resolve_name` at any visit of a use is exactly the entry the collecting phase stored in
`usage_to_definition_nodes`; the checking phase does not change that dictionary. So `reported` (defined from the
collecting phase) is what is reported. -/
theorem c09_check_reads_collect (p : Block) (x : Nat) :
    (analyse p x).u2d = (collect p x).u2d ∧
      ∀ e ∈ (analyse p x).out, e.2 = lookup e.1 (collect p x).u2d :=
  ⟨analyse_u2d p x, analyse_out p x⟩

/-! ## Witnesses: the full statements are false — one concrete skeleton per exception class -/

/-- R1 `loopElse`:  `x = 1` / `for …: x = 2` / `else: use(x)` — reports `{1}`, but `2` reaches the use. -/
def witR1 : Block := .ofList [.assign 0 1, .loop false false (.ofList [.assign 0 2]) (.ofList [.use 0 1])]
/-- R2 `secondVisitSeed`:  `while True: use(x); x = 1` — reports `{1}` and no undefined name, but the first
iteration uses `x` unbound. -/
def witR2 : Block := .ofList [.loop true true (.ofList [.use 0 1, .assign 0 1]) .nil]
/-- R2b `loopBreak` (precision):  `x = 1` / `for …: use(x); if c: x = 2; break` — reports `{1, 2}`, `2` cannot reach. -/
def witR2' : Block :=
  .ofList [.assign 0 1, .loop false false (.ofList [.use 0 1, .ite (.ofList [.assign 0 2, .brk 1]) .nil]) .nil]
/-- R3 `jumpThroughFinally`:  `for …: try: break` / `finally: x = 1` ; `use(x)` — reports only unbound. -/
def witR3 : Block :=
  .ofList [.loop false false (.ofList [.try_ (.ofList [.brk 1]) .nil .nil true (.ofList [.assign 0 1])]) .nil,
           .use 0 1]
/-- R4 `loopJumpInSuppressing`:  `with Sup(): (while c: continue); x = 1` ; `use(x)` — reports only unbound. -/
def witR4 : Block :=
  .ofList [.with_ true (.ofList [.loop true false (.ofList [.cont 1]) .nil, .assign 0 1]), .use 0 1]
/-- R5 `suppressingInFinally`:  `x = 1` / `try: pass` / `finally: with Sup(): x = 2` ; `use(x)` — reports `{1}`. -/
def witR5 : Block :=
  .ofList [.assign 0 1, .try_ .nil .nil .nil true (.ofList [.with_ true (.ofList [.assign 0 2])]), .use 0 1]

/-- R6 `nestedLoopJump` (precision):  `while c: (for …: if c: x = 1; continue); x = 2` ; `use(x)` — reports `1`. -/
def witR6 : Block :=
  .ofList [.loop true false (.ofList [
      .loop false false (.ofList [.ite (.ofList [.assign 0 1, .cont 1]) .nil]) .nil, .assign 0 2]) .nil,
    .use 0 1]
/-- R7 `jumpOutOfFinally`:  `for …: try: raise` / `finally: x = 1; continue` ; `use(x)` — reports only unbound. -/
def witR7 : Block :=
  .ofList [.loop false false (.ofList [.try_ (.ofList [.raise]) .nil .nil true (.ofList [.assign 0 1, .cont 1])]) .nil,
    .use 0 1]

theorem c09_witness_loopElse :
    D09_loopElse witR1 = true ∧ some 2 ∈ reaching false witR1 0 1 ∧ some 2 ∉ reported witR1 0 1 := by decide
theorem c09_witness_secondVisitSeed :
    D09_secondVisitSeed witR2 = true ∧ none ∈ reaching false witR2 0 1 ∧ none ∉ reported witR2 0 1 := by decide
theorem c09_witness_loopBreak :
    D09_loopBreak witR2' = true ∧ some 2 ∈ reported witR2' 0 1 ∧ some 2 ∉ reaching true witR2' 0 1 ∧
      reaching true witR2' 0 1 ≠ [] := by decide
theorem c09_witness_jumpThroughFinally :
    D09_jumpThroughFinally witR3 = true ∧ some 1 ∈ reaching false witR3 0 1 ∧ some 1 ∉ reported witR3 0 1 := by
  decide
theorem c09_witness_loopJumpInSuppressing :
    D09_loopJumpInSuppressing witR4 = true ∧ some 1 ∈ reaching false witR4 0 1 ∧ some 1 ∉ reported witR4 0 1 := by
  decide
theorem c09_witness_suppressingInFinally :
    D09_suppressingInFinally witR5 = true ∧ some 2 ∈ reaching false witR5 0 1 ∧ some 2 ∉ reported witR5 0 1 := by
  decide

theorem c09_witness_nestedLoopJump :
    D09_nestedLoopJump witR6 = true ∧ some 1 ∈ reported witR6 0 1 ∧ some 1 ∉ reaching true witR6 0 1 ∧
      reaching true witR6 0 1 ≠ [] := by decide
theorem c09_witness_jumpOutOfFinally :
    D09_jumpOutOfFinally witR7 = true ∧ some 1 ∈ reaching false witR7 0 1 ∧ some 1 ∉ reported witR7 0 1 := by
  decide

/-- The full soundness statement is false. -/
theorem c09_sound_full_false : ¬ C09_sound_full := fun h =>
  c09_witness_loopElse.2.2 (h witR1 0 1 (some 2) c09_witness_loopElse.2.1)

/-- The full precision statement is false. -/
theorem c09_precise_full_false : ¬ C09_precise_full := fun h =>
  c09_witness_loopBreak.2.2.1
    (h witR2' 0 1 (some 2) c09_witness_loopBreak.2.2.2 c09_witness_loopBreak.2.1)

/-! ## Non-vacuity: the hypotheses of the partial theorem are met by a skeleton with nested loops, `continue`,
`return`, two uses; and both verdicts occur.

    x = 1
    for …:
        use(x)            # 1
        while c:
            if c: x = 2; continue
            x = 3
        if c: return
    use(x)                # 2
-/
def exFrag : Block :=
  .ofList [.assign 0 1,
    .loop false false (.ofList [.use 0 1,
      .loop true false (.ofList [.ite (.ofList [.assign 0 2, .cont 1]) .nil, .assign 0 3]) .nil,
      .ite (.ofList [.ret]) .nil]) .nil,
    .use 0 2]
example : exFrag.noTryWith = true ∧ exFrag.jumpsLast = true ∧ exFrag.plainFor = true ∧
    D09_loopElse exFrag = false ∧ D09_secondVisitSeed exFrag = false ∧ exFrag.useIds.Nodup := by decide
/-- the soundness theorem also covers `break`:  `for …: if c: x = 1; break` / `use(x)` -/
def exBrk : Block :=
  .ofList [.loop false false (.ofList [.ite (.ofList [.assign 0 1, .brk 1]) .nil]) .nil, .use 0 1]
example : exBrk.noTryWith = true ∧ exBrk.jumpsLast = true ∧ exBrk.plainFor = true ∧
    D09_loopElse exBrk = false ∧ D09_secondVisitSeed exBrk = false ∧ exBrk.useIds.Nodup ∧
    some 1 ∈ reaching false exBrk 0 1 ∧ none ∈ reaching false exBrk 0 1 := by decide
example : some 2 ∈ reaching false exFrag 0 1 ∧ some 2 ∈ reported exFrag 0 1 := by decide
example : diagOf (reported exFrag 0 2) = .ok := by decide
/-- scope kinds, on `use(x); if c: x = 1` / `use(x)`: a parameter and a `global` name bound to 0 outside -/
def exKinds : Block := .ofList [.use 0 1, .ite (.ofList [.assign 0 1]) .nil, .use 0 2]
example : some 0 ∈ reachingK false (.param 0) exKinds 0 2 ∧ some 1 ∈ reachingK false (.param 0) exKinds 0 2 ∧
    some 0 ∈ reportedK (.param 0) exKinds 0 2 ∧ none ∉ reportedK (.param 0) exKinds 0 2 := by decide
example : some 0 ∈ reachingK false (.glob 0) exKinds 0 1 ∧ some 0 ∈ reportedK (.glob 0) exKinds 0 1 ∧
    some 1 ∈ reportedK (.glob 0) exKinds 0 1 ∧ some 1 ∈ reachingK true (.glob 0) exKinds 0 1 ∧
    none ∉ reportedK (.nonloc 0) exKinds 0 1 := by decide
/-- precision hypotheses: `if c: x = 1; return` / `else: if c: x = 2` ; `use(x)` -/
def exS1 : Block :=
  .ofList [.ite (.ofList [.assign 0 1, .ret]) (.ofList [.ite (.ofList [.assign 0 2]) .nil]), .use 0 1]
example : exS1.loopFree = true ∧ exS1.noDead = true ∧ reaching true exS1 0 1 ≠ [] := by decide
example : some 2 ∈ reported exS1 0 1 ∧ none ∈ reported exS1 0 1 ∧ some 1 ∉ reported exS1 0 1 := by decide
/-- `if c: x = 1` / `use(x)`: possibly undefined; `use(x)` alone: undefined. -/
example : diagOf (reported (.ofList [.ite (.ofList [.assign 0 1]) .nil, .use 0 1]) 0 1) = .possibly := by decide
example : diagOf (reported (.ofList [.use 0 1]) 0 1) = .undefined := by decide

end Pya.C09
