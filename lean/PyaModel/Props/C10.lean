import PyaModel.Proofs.C10
/-!
# Props/C10 — diagnostics are deterministic and independent of prior checks

Property theorems only. Models: `Core/Cache.lean` (A: set-iteration sites as functions of the
iteration order; B: memo tables and the protocol check with recursion guard and positive cache).
Spec: `Spec/CacheSpec.lean` (`OrderFree`, `answerFresh`, `sem`, exception classes `D10_*`).

A site is *order free* when its output is the same for any two iteration orders of the same set
(`o₁.Perm o₂`). For the sites where the code lets the order through, the full statement is kept as a
`def … : Prop`, refuted on a concrete input, and proved under the negation of the site's exception
class. The history part does the same for the statement "the answer after any history equals the
answer of a fresh checker".
-/
namespace Pya.C10

/-! ## A. Order -/

/-- **Scan obligation.** Every place of the anchored files where the AST scan of the live tree finds
a set being iterated, joined, popped or handed to a function has a row in `modelledSites` (and so
one of the site functions below). A new set-iteration site breaks this theorem. -/
theorem sites_registered : sitesRegistered Gen.scannedSites = true := sites_registered_proof

/-- `any(p(x) for x in S)`, `all(…)`, `for x in S: if p(x): return True` — full. -/
theorem anyAll_order_free {α : Type} (p : α → Bool) :
    OrderFree (siteAny p) ∧ OrderFree (siteAll p) :=
  ⟨fun _ _ h => any_perm p h, fun _ _ h => all_perm p h⟩

/-- A set built from the iteration (`{f(x) for x in S if p(x)}`, `result |= …`) is the same set — full
(in the set reading). -/
theorem setBuild_order_free {α β : Type} (p : α → Bool) (f : α → β) :
    OrderFreeAsSet (siteSetBuild p f) := by
  intro o₁ o₂ h y
  exact ((h.filter p).map f).mem_iff

/-- A dict built by a comprehension over a set answers every lookup alike — full. -/
theorem lookupMap_order_free {κ ν : Type} [BEq κ] [LawfulBEq κ] (f : κ → ν) (k : κ) :
    OrderFree (fun order => siteLookupMap f order k) := by
  intro o₁ o₂ h
  simp only [siteLookupMap, lookup_map_self, h.mem_iff]

/-- `if len(S) == 1: next(iter(S))` — full. -/
theorem singleton_order_free {α : Type} (d : α) : OrderFree (siteSingleton d) := by
  intro o₁ o₂ h
  match o₁, o₂, h.length_eq with
  | [], [], _ => rfl
  | [a], [b], _ =>
    have := h.mem_iff (a := a)
    simp at this
    simp [siteSingleton, this]
  | _ :: _ :: _, _ :: _ :: _, _ => rfl
  | [], _ :: _, hl => simp at hl
  | [_], [], hl => simp at hl
  | [_], _ :: _ :: _, hl => simp at hl
  | _ :: _ :: _, [], hl => simp at hl
  | _ :: _ :: _, [_], hl => simp at hl

/-- `sorted(S)` — full. -/
theorem sortedJoin_order_free : OrderFree siteSortedJoin := fun _ _ h => isort_perm h

/-- `for x in S: show_error(…)`: the same set of failures is emitted (they are rendered sorted by
position) — full in the set reading. -/
theorem emit_order_free {α φ : Type} (emit : α → Option φ) : OrderFreeAsSet (siteEmit emit) := by
  intro o₁ o₂ h y
  exact (h.filterMap emit).mem_iff

/-- **Worklist closure** (`_get_recursive_typeshed_bases`, `_resolve_origin`): once the worklist is
empty, the result is the union of `succ x` over everything reachable from the start, whichever
element `pop()` took at each step — full (set reading; for any two pop schedules that finish). -/
theorem closure_order_free (succ : Nat → List Nat) (start : Nat) (c₁ c₂ : List Nat)
    (h₁ : (closureRun succ start c₁).2.1 = []) (h₂ : (closureRun succ start c₂).2.1 = []) (y : Nat) :
    y ∈ (closureRun succ start c₁).2.2 ↔ y ∈ (closureRun succ start c₂).2.2 := by
  rw [closure_result succ start c₁ h₁ y, closure_result succ start c₂ h₂ y]

/-! ### Sites that let the order through -/

/-- Full statement for the text-producing sites (false, see the witnesses). -/
def join_sites_order_free : Prop :=
  OrderFree siteExtraKwargs ∧ (∀ nl, OrderFree (fun o => siteKeysLeft o nl)) ∧
  (∀ base, OrderFree (siteProtocolStr base true)) ∧ OrderFree siteDisallowedKinds

/-- `Got unexpected keyword arguments 'a', 'b'` vs `'b', 'a'` (class joinExtraKwargs). -/
theorem extraKwargs_depends : siteExtraKwargs ["a", "b"] ≠ siteExtraKwargs ["b", "a"] := by decide

/-- `No value specified for keys a, b` vs `b, a` (class joinKeysLeft). -/
theorem keysLeft_depends : siteKeysLeft ["a", "b"] false ≠ siteKeysLeft ["b", "a"] false := by decide

/-- `P (Protocol with members 'a', 'b')` vs `'b', 'a'` (class protocolMembersOrder). -/
theorem protocolStr_depends : siteProtocolStr "P" true ["a", "b"] ≠ siteProtocolStr "P" true ["b", "a"] := by
  decide

theorem join_sites_order_free_false : ¬ join_sites_order_free := by
  intro h
  exact extraKwargs_depends (h.1 ["a", "b"] ["b", "a"] (List.Perm.swap _ _ _))

/-- **Partial**: outside the class "the set has two or more elements" all four text sites are
order free. -/
theorem join_sites_partial (elems o₁ o₂ : List String) (hd : D10_twoOrMore elems = false)
    (h₁ : o₁.Perm elems) (h₂ : o₂.Perm elems) (nl : Bool) (base : String) :
    siteExtraKwargs o₁ = siteExtraKwargs o₂ ∧ siteKeysLeft o₁ nl = siteKeysLeft o₂ nl ∧
    siteProtocolStr base true o₁ = siteProtocolStr base true o₂ ∧
    siteDisallowedKinds o₁ = siteDisallowedKinds o₂ := by
  rw [orders_eq_of_small elems o₁ o₂ hd h₁ h₂]
  exact ⟨rfl, rfl, rfl, rfl⟩

/-- `_is_compatible_with_protocol`: *whether* an error is returned does not depend on the order —
full for the verdict. -/
theorem protocolFirstFail_verdict_order_free (other : String) (outcome : String → MemberOutcome) :
    OrderFree (fun o => (siteProtocolFirstFail other outcome o).isSome) := by
  intro o₁ o₂ h
  simp only [siteProtocolFirstFail, findSome?_isSome_eq_any]
  exact any_perm _ h

/-- Full statement for the error text (false). -/
def protocolFirstFail_order_free : Prop :=
  ∀ other outcome, OrderFree (siteProtocolFirstFail other outcome)

/-- Which member the error names depends on the order (class protocolMembersOrder). -/
theorem protocolFirstFail_depends :
    siteProtocolFirstFail "A" (fun _ => .missing) ["a", "b"] ≠
    siteProtocolFirstFail "A" (fun _ => .missing) ["b", "a"] := by decide

theorem protocolFirstFail_order_free_false : ¬ protocolFirstFail_order_free :=
  fun h => protocolFirstFail_depends (h "A" (fun _ => .missing) _ _ (List.Perm.swap _ _ _))

/-- **Partial**: when at most one member fails, the error text is order free. -/
theorem protocolFirstFail_partial (other : String) (outcome : String → MemberOutcome)
    (elems o₁ o₂ : List String) (hd : D10_twoFailing outcome elems = false)
    (h₁ : o₁.Perm elems) (h₂ : o₂.Perm elems) :
    siteProtocolFirstFail other outcome o₁ = siteProtocolFirstFail other outcome o₂ := by
  unfold siteProtocolFirstFail
  apply findSome?_perm_of_le_one _ elems o₁ o₂ _ h₁ h₂
  have hl : (elems.filter fun m => outcome m != .ok).length ≤ 1 := by
    simp [D10_twoFailing] at hd; omega
  have heq : (elems.filter fun x => (failText other x (outcome x)).isSome) =
      elems.filter fun m => outcome m != .ok := by
    apply List.filter_congr
    intro x _
    cases outcome x <;> rfl
  rw [heq]; exact hl

/-- `for base in other.artificial_bases`: whether some base succeeds is order free — full for the
verdict; the chosen result is order free when at most one base succeeds — **partial**. -/
theorem firstSuccess_verdict_order_free {α β : Type} (attempt : α → Option β) :
    OrderFree (fun o => (siteFirstSuccess attempt o).isSome) := by
  intro o₁ o₂ h
  simp only [siteFirstSuccess, findSome?_isSome_eq_any]
  exact any_perm _ h

theorem firstSuccess_partial {α β : Type} (attempt : α → Option β) (elems o₁ o₂ : List α)
    (hd : D10_twoSucceed attempt elems = false) (h₁ : o₁.Perm elems) (h₂ : o₂.Perm elems) :
    siteFirstSuccess attempt o₁ = siteFirstSuccess attempt o₂ := by
  unfold siteFirstSuccess
  apply findSome?_perm_of_le_one _ elems o₁ o₂ _ h₁ h₂
  simp [D10_twoSucceed] at hd; omega

/-- Two bases that both succeed with different results (class artificialBaseChoice). -/
theorem firstSuccess_depends :
    siteFirstSuccess (fun b : Nat => some b) [1, 2] ≠ siteFirstSuccess (fun b : Nat => some b) [2, 1] := by
  decide

/-- `isinstance(x, A) or isinstance(x, B)`: the narrowed union has the same *members* whatever
order `list(set(constraints))` produced — full in the set reading (this is also
`MultiValuedValue.__eq__`). -/
theorem orNarrow_order_free_as_set (sub : Nat → Nat → Bool) (vals : List Member) :
    OrderFreeAsSet (siteOrNarrow sub vals) := by
  intro o₁ o₂ h y
  simp only [siteOrNarrow, mem_dedup, List.mem_flatMap]
  constructor
  · rintro ⟨v, hv, c, hc, hy⟩; exact ⟨v, hv, c, h.mem_iff.mp hc, hy⟩
  · rintro ⟨v, hv, c, hc, hy⟩; exact ⟨v, hv, c, h.mem_iff.mpr hc, hy⟩

/-- Full statement for the member *order* (false). -/
def orNarrow_order_free : Prop := ∀ sub vals, OrderFree (siteOrNarrow sub vals)

/-- `x: Any`, tests `[1, 2]` vs `[2, 1]`: the union is printed `1 | 2` vs `2 | 1`
(class orConstraintOrder). -/
theorem orNarrow_depends :
    siteOrNarrow (fun a b => a == b) [.any] [1, 2] ≠ siteOrNarrow (fun a b => a == b) [.any] [2, 1] := by
  decide

theorem orNarrow_order_free_false : ¬ orNarrow_order_free :=
  fun h => orNarrow_depends (h _ _ _ _ (List.Perm.swap _ _ _))

/-- **Partial**: with fewer than two constraints the member order is fixed. -/
theorem orNarrow_partial (sub : Nat → Nat → Bool) (vals : List Member) (elems o₁ o₂ : List Nat)
    (hd : D10_twoConstraints elems = false) (h₁ : o₁.Perm elems) (h₂ : o₂.Perm elems) :
    siteOrNarrow sub vals o₁ = siteOrNarrow sub vals o₂ := by
  have : D10_twoOrMore elems = false := hd
  rw [orders_eq_of_small elems o₁ o₂ this h₁ h₂]

/-- Definition nodes iterated in set order (`suppressing_subscope`, `_get_value_from_nodes`): same
members — full in the set reading. -/
theorem defNodes_order_free_as_set (pre : List Nat) (keep : Nat → Bool) :
    OrderFreeAsSet (siteTryDefNodes pre) ∧ OrderFreeAsSet (siteDefNodes keep) := by
  constructor
  · intro o₁ o₂ h y
    simp only [siteTryDefNodes, mem_dedup, List.mem_append, h.mem_iff]
  · intro o₁ o₂ h y
    simp only [siteDefNodes, mem_dedup, List.mem_filter, List.mem_flatMap, id]
    constructor
    · rintro ⟨⟨l, hl, hy⟩, hk⟩; exact ⟨⟨l, h.mem_iff.mp hl, hy⟩, hk⟩
    · rintro ⟨⟨l, hl, hy⟩, hk⟩; exact ⟨⟨l, h.mem_iff.mpr hl, hy⟩, hk⟩

/-- Full statement for the member order (false). -/
def defNodes_order_free : Prop :=
  (∀ pre, OrderFree (siteTryDefNodes pre)) ∧ (∀ keep, OrderFree (siteDefNodes keep))

/-- After `try: x = 1; x = 2` the union is `0 | 1 | 2` or `0 | 2 | 1` (class tryDefNodeOrder). -/
theorem tryDefNodes_depends : siteTryDefNodes [0] [1, 2] ≠ siteTryDefNodes [0] [2, 1] := by decide

/-- A narrowed variable with two definitions: `1 | 2` or `2 | 1` (class defNodeSetOrder). -/
theorem defNodes_depends :
    siteDefNodes (fun _ => true) [[1], [2]] ≠ siteDefNodes (fun _ => true) [[2], [1]] := by decide

theorem defNodes_order_free_false : ¬ defNodes_order_free :=
  fun h => tryDefNodes_depends (h.1 _ _ _ (List.Perm.swap _ _ _))

/-- **Partial**: fewer than two nodes in the set. -/
theorem defNodes_partial (pre : List Nat) (keep : Nat → Bool) :
    (∀ elems o₁ o₂ : List Nat, D10_twoOrMore elems = false → o₁.Perm elems → o₂.Perm elems →
      siteTryDefNodes pre o₁ = siteTryDefNodes pre o₂) ∧
    (∀ elems o₁ o₂ : List (List Nat), D10_twoOrMore elems = false → o₁.Perm elems → o₂.Perm elems →
      siteDefNodes keep o₁ = siteDefNodes keep o₂) :=
  ⟨fun elems o₁ o₂ hd h₁ h₂ => by rw [orders_eq_of_small elems o₁ o₂ hd h₁ h₂],
   fun elems o₁ o₂ hd h₁ h₂ => by rw [orders_eq_of_small elems o₁ o₂ hd h₁ h₂]⟩

/-- `intersect_bounds_maps`: the alternatives of the `OrBound` come in set order
(class orBoundOrder); **partial**: fewer than two alternatives. -/
theorem orBound_depends : siteOrBound [[1], [2]] ≠ siteOrBound [[2], [1]] := by decide

theorem orBound_partial (elems o₁ o₂ : List (List Nat)) (hd : D10_twoOrMore elems = false)
    (h₁ : o₁.Perm elems) (h₂ : o₂.Perm elems) : siteOrBound o₁ = siteOrBound o₂ := by
  rw [orders_eq_of_small elems o₁ o₂ hd h₁ h₂]

/-! Non-vacuity of the partial theorems' hypotheses. -/
example : D10_twoOrMore ["zeta"] = false ∧ ["zeta"].Perm ["zeta"] := ⟨by decide, List.Perm.refl _⟩
example : D10_twoFailing (fun m => if m == "b" then .conflict else .ok) ["a", "b", "c"] = false := by decide
example : siteProtocolFirstFail "A" (fun m => if m == "b" then .conflict else .ok) ["c", "b", "a"]
    = some "Value of protocol member 'b' conflicts" := by decide
example : D10_twoSucceed (fun b : Nat => if b == 2 then some b else none) [1, 2, 3] = false := by decide
example : D10_twoConstraints [7] = false := by decide

/-! ## B. History -/

/-- **Memo tables are transparent.** For a table whose entries are results of the computation
(`MemoInv`) and a computation determined by the cache key (`KeyDetermines`): a memoised lookup
returns what the uncached function returns, and the table stays valid. Covers
`Checker.make_type_object`, `ArgSpecCache._cached_get_argspec`, `_get_generic_bases_cached`,
`get_type_alias` — full, any table, any query. -/
theorem memo_transparent {Q κ ν : Type} [BEq κ] [LawfulBEq κ] (key : Q → κ) (hashable : κ → Bool)
    (f fallback : Q → Option ν) (hk : KeyDetermines key f) (tbl : List (κ × ν))
    (hi : MemoInv key f tbl) (q : Q) :
    (memoStep key hashable f fallback tbl q).1 = memoSpec key hashable f fallback q ∧
    MemoInv key f (memoStep key hashable f fallback tbl q).2.1 :=
  memoStep_spec key hashable f fallback hk tbl hi q

/-- **…after any history**: the answer to `q` after any sequence of earlier lookups, starting from
the empty table, equals the answer from the empty table — by induction over the history. -/
theorem memo_history_independent {Q κ ν : Type} [BEq κ] [LawfulBEq κ] (key : Q → κ)
    (hashable : κ → Bool) (f fallback : Q → Option ν) (hk : KeyDetermines key f) (h : List Q) (q : Q) :
    (memoStep key hashable f fallback (memoRun key hashable f fallback [] h) q).1 =
    (memoStep key hashable f fallback [] q).1 := by
  have h0 : MemoInv key f ([] : List (κ × ν)) := by intro q v hl; simp at hl
  rw [(memoStep_spec key hashable f fallback hk _ (memoRun_inv key hashable f fallback hk h [] h0) q).1,
      (memoStep_spec key hashable f fallback hk [] h0 q).1]

/-- The hypothesis `KeyDetermines` is needed: a table keyed by less than the computation reads
(`known_argspecs` is keyed by the object, the computation also reads `is_asynq`) replays the
answer of the first variant. -/
theorem memo_key_must_determine :
    (memoStep (Q := Nat × Bool) (fun q => q.1) (fun _ => true) (fun q => some q.2) (fun _ => none)
      (memoRun (fun q => q.1) (fun _ => true) (fun q => some q.2) (fun _ => none) [] [(0, true)]) (0, false)).1
    ≠ (memoStep (Q := Nat × Bool) (fun q => q.1) (fun _ => true) (fun q => some q.2) (fun _ => none)
      [] (0, false)).1 := by decide

/-- Full statement for the protocol check: every answer equals the answer of a fresh checker
(false: three independent exception classes). -/
def cached_answer_valid : Prop :=
  ∀ (W : World) (fuel : Nat) (h : List Query) (q : Query), answerAfter W fuel h q = answerFresh W fuel q

/-- World of the first witness: `Hashable`-like protocol 0 whose only member is Any-typed on value 0. -/
def wMode : World := ⟨[((0, 0, 0), [[.anyOk]])], []⟩

/-- **cacheIgnoresMode**: accepted in normal mode, cached, replayed under `set_exclude_any` where a
fresh checker rejects. History `[normal 0←0]`, query `exclude-any 0←0`. -/
theorem cache_ignores_mode_witness :
    answerAfter wMode 3 [⟨false, 0, 0, 0⟩] ⟨true, 0, 0, 0⟩ = true ∧
    answerFresh wMode 3 ⟨true, 0, 0, 0⟩ = false := by decide

/-- World of the second witness: P1 ← A needs (P2 ← B) and then something false; P2 ← B needs
P1 ← A. -/
def wGuard : World := ⟨[((1, 0, 1), [[.sub 2 0 2, .const false]]), ((2, 0, 2), [[.sub 1 0 1]])], []⟩

/-- **cacheUnderFailedAssumption**: while checking P1 ← A, the nested P2 ← B succeeds under the
assumption "P1 ← A" and is cached; P1 ← A then fails. A fresh checker rejects P2 ← B, the warmed
one accepts it. (The cached pair is not in the greatest fixed point: `gfpCompat` is empty.) -/
theorem cache_under_failed_assumption_witness :
    answerAfter wGuard 5 [⟨false, 1, 0, 1⟩] ⟨false, 2, 0, 2⟩ = true ∧
    answerFresh wGuard 5 ⟨false, 2, 0, 2⟩ = false ∧ gfpCompat wGuard false = [] := by decide

/-- World of the third witness: `SupportsAbs[int] ← int` holds, `SupportsAbs[str] ← int` does not. -/
def wArgs : World := ⟨[((0, 0, 0), [[.const true]]), ((0, 1, 0), [[.const false]])], []⟩

/-- **protoCacheKey**: the cache lives on the protocol *class*: the positive answer for variant 0 of
its generic arguments is replayed for variant 1. -/
theorem proto_cache_key_witness :
    answerAfter wArgs 3 [⟨false, 0, 0, 0⟩] ⟨false, 0, 1, 0⟩ = true ∧
    answerFresh wArgs 3 ⟨false, 0, 1, 0⟩ = false := by decide

theorem cached_answer_valid_false : ¬ cached_answer_valid := by
  intro h
  have := h wMode 3 [⟨false, 0, 0, 0⟩] ⟨true, 0, 0, 0⟩
  rw [cache_ignores_mode_witness.1, cache_ignores_mode_witness.2] at this
  cases this

/-- **History independence of the protocol check, partial.** Outside the three classes — the
world's nested checks are well-founded w.r.t. `rk` (`¬ D10_cyclic`), only variant 0 of every
protocol's generic arguments occurs (`¬ D10_selfArgs`), history and query use one mode
(`¬ D10_modeMix`) — and with fuel above the rank of every query, for *every* history the answer is
the structural one, hence the answer of a fresh checker. Proved by induction on the fuel with
nested inductions over members and slots (`check_spec`) and induction over the history. -/
theorem proto_history_independent_partial (W : World) (rk : Rank) (fuel : Nat) (h : List Query)
    (q : Query) (h1 : D10_cyclic W rk = false) (h2 : D10_selfArgs W h q = false)
    (h3 : D10_modeMix h q = false) (h4 : fuelOK W rk fuel (q :: h) = true) :
    answerAfter W fuel h q = answerFresh W fuel q ∧
    answerFresh W fuel q = sem W q.ex fuel q.p q.a q.v := by
  have ha := answerAfter_eq_sem W rk fuel h q h1 h2 h3 h4
  have hf := answerAfter_eq_sem W rk fuel [] q h1
    (by simp only [D10_selfArgs, List.any_cons, Bool.or_eq_false_iff] at h2 ⊢
        exact ⟨⟨h2.1.1, by simp⟩, h2.2⟩)
    (by simp [D10_modeMix])
    (by simp only [fuelOK, List.all_cons, Bool.and_eq_true] at h4 ⊢; exact ⟨h4.1, by simp⟩)
  exact ⟨by rw [ha]; exact hf.symm, hf⟩

/-! Non-vacuity: a world with a nested protocol and an Any-typed member satisfies the hypotheses;
both answers occur. -/
def wOk : World :=
  ⟨[((0, 0, 0), [[.sub 1 0 1], [.const true]]), ((1, 0, 1), [[.const true]]), ((1, 0, 0), [[.const false]]),
    ((0, 0, 1), [[.sub 1 0 0]])], []⟩
def rkOk : Rank := rankOf [((0, 0), 1), ((0, 1), 1), ((1, 0), 0), ((1, 1), 0)]
example : D10_cyclic wOk rkOk = false := by decide
example : D10_selfArgs wOk [⟨false, 0, 0, 1⟩, ⟨false, 1, 0, 1⟩] ⟨false, 0, 0, 0⟩ = false := by decide
example : D10_modeMix [⟨false, 0, 0, 1⟩, ⟨false, 1, 0, 1⟩] ⟨false, 0, 0, 0⟩ = false := by decide
example : fuelOK wOk rkOk 3 [⟨false, 0, 0, 0⟩, ⟨false, 0, 0, 1⟩, ⟨false, 1, 0, 1⟩] = true := by decide
example : answerAfter wOk 3 [⟨false, 0, 0, 1⟩, ⟨false, 1, 0, 1⟩] ⟨false, 0, 0, 0⟩ = true := by decide
example : answerFresh wOk 3 ⟨false, 0, 0, 1⟩ = false := by decide

end Pya.C10
