import PyaModel.Proofs.C10
/-!
# Props/C10 — diagnostics are deterministic and independent of prior checks

Property theorems only. Models: `Core/Cache.lean` (A: set-iteration sites as functions of the
iteration order; B: memo tables and the protocol check with recursion guard and positive cache),
following /repo after the C10 repairs a944eb3, 24b231d, da6a3f3, 5fee81d, e01ac16, 99947e4, c06bd97,
5ad1557.
Spec: `Spec/CacheSpec.lean` (`OrderFree`, `answerFresh`, `sem`, exception classes `D10_*`).

A site is *order free* when its output is the same for any two iteration orders of the same set
(`o₁.Perm o₂`). The repaired sites are order free at full strength. For the sites whose repair was
not applied (definition-node sets) the full statement is kept as a `def … : Prop`, refuted on a
concrete input, and proved under the negation of the site's exception class. The history part
is at full strength for verdicts in every world (answers are cached at top level only, 5ad1557) and
keeps the exclusion of recursive worlds for the bounds map alone. Theorems named `old_…` are regression
documentation about the code before the repairs, not about the code under check.
-/
namespace Pya.C10

/-! ## A. Order -/

/-- **Scan obligation.** Every place of the anchored files where the AST scan of the live tree finds
a set being iterated, joined, popped or handed to a function has a row in `modelledSites` (and so
one of the site functions below). A new set-iteration site breaks this theorem. -/
theorem sites_registered : sitesRegistered Gen.scannedSites = true := sites_registered_proof

/-- **Scan obligation for cached values.** Every dict / list / set attribute of the classes whose
instances live as long as a `Checker` (found by the AST scan of the live tree) has a row in
`modelledCaches` saying whether its entries must be immutable after insertion (memo tables, the
protocol cache: snapshotted by the harness after every program of a history), must be empty
between checks, or are configuration / accumulators. A new per-Checker container breaks this
theorem. -/
theorem caches_registered : cachesRegistered Gen.scannedCaches = true := caches_registered_proof

/-- **Scan obligation for process-level state.** Every module-level mutable container, every
module-level instance of a class with container fields (`_empty_constrained`), every class-level
mutable attribute and every memoising decorator of pyanalyze has a registered kind. -/
theorem proc_state_registered : procStateRegistered Gen.scannedProcState = true := proc_state_registered_proof

/-- **Memo keys cover the parameters of the memoised computation** (the source-level form of
`memo_key_must_determine`). For every store `<memo table>[key] = value` the scan finds in the live
tree — `make_type_object`, `_cached_get_argspec`, `_get_generic_bases_cached`, `get_type_alias`,
`TypeObject.can_assign`, `TypeshedFinder.get_attribute_for_fq_name`, `_value_from_info_inner`,
`FunctionScope._resolve_value` — every parameter of the function that the stored value is computed
from occurs in the key or in the container expression, or is one of the registered waivers. Dropping
a parameter from a key (e.g. `on_class` from `_attribute_cache`) breaks this theorem. -/
theorem memo_keys_cover_parameters : memoKeysCover Gen.scannedMemoKeys = true := memo_keys_cover_parameters_proof

/-- **Interpreter-global state.** The places where pyanalyze reads `sys.modules` / `sys.path` /
`os.environ` / other `sys` attributes or imports a module are exactly the registered ones (an
equality, by `decide`): a new read, or an import call that disappears in front of a lookup in
`sys.modules` (so that the answer depends on what earlier programs of the process imported), breaks
this theorem. -/
theorem interpreter_state_reads_registered :
    interpreterReadsRegistered Gen.scannedInterpreterReads = true := interpreter_state_reads_registered_proof

/-- **Scan obligation for identity keys.** Every expression that uses `id(…)` as (part of) a key, a
hash or a membership test is registered with the reason why the address still belongs to a live
object when it is compared. A new address key — e.g. a cache keyed by `id(node)` that does not hold
the node — breaks this theorem; it is what `KeyedByValue` in `process_history_independent_partial`
stands for. -/
theorem id_keys_registered : idKeysRegistered Gen.scannedIdKeys = true := id_keys_registered_proof

/-- `any(p(x) for x in S)`, `all(…)`, `for x in S: if p(x): return True` — full. -/
theorem anyAll_order_free {α : Type} (p : α → Bool) :
    OrderFree (siteAny p) ∧ OrderFree (siteAll p) :=
  ⟨fun _ _ h => any_perm p h, fun _ _ h => all_perm p h⟩

/-- A set built from the iteration (`{f(x) for x in S if p(x)}`, `result |= …`) is the same set — full
(in the set reading). -/
theorem setBuild_order_free {α β : Type} (p : α → Bool) (f : α → β) :
    OrderFreeAsSet (siteSetBuild p f) := by
  intro o₁ o₂ h y
  exact ((h.filter p).map f).mem_iff

/-- A dict built by a comprehension over a set answers every lookup alike — full. -/
theorem lookupMap_order_free {κ ν : Type} [BEq κ] [LawfulBEq κ] (f : κ → ν) (k : κ) :
    OrderFree (fun order => siteLookupMap f order k) := by
  intro o₁ o₂ h
  simp only [siteLookupMap, lookup_map_self, h.mem_iff]

/-- `if len(S) == 1: next(iter(S))` — full. -/
theorem singleton_order_free {α : Type} (d : α) : OrderFree (siteSingleton d) := by
  intro o₁ o₂ h
  match o₁, o₂, h.length_eq with
  | [], [], _ => rfl
  | [a], [b], _ =>
    have := h.mem_iff (a := a)
    simp at this
    simp [siteSingleton, this]
  | _ :: _ :: _, _ :: _ :: _, _ => rfl
  | [], _ :: _, hl => simp at hl
  | [_], [], hl => simp at hl
  | [_], _ :: _ :: _, hl => simp at hl
  | _ :: _ :: _, [], hl => simp at hl
  | _ :: _ :: _, [_], hl => simp at hl

/-- `sorted(S)` — full. -/
theorem sortedJoin_order_free : OrderFree siteSortedJoin := fun _ _ h => isort_perm h

/-- `for x in S: show_error(…)`: the same set of failures is emitted (they are rendered sorted by
position) — full in the set reading. -/
theorem emit_order_free {α φ : Type} (emit : α → Option φ) : OrderFreeAsSet (siteEmit emit) := by
  intro o₁ o₂ h y
  exact (h.filterMap emit).mem_iff

/-- **Worklist closure** (`_get_recursive_typeshed_bases`, `_resolve_origin`): once the worklist is
empty, the result is the union of `succ x` over everything reachable from the start, whichever
element `pop()` took at each step — full (set reading; for any two pop schedules that finish). -/
theorem closure_order_free (succ : Nat → List Nat) (start : Nat) (c₁ c₂ : List Nat)
    (h₁ : (closureRun succ start c₁).2.1 = []) (h₂ : (closureRun succ start c₂).2.1 = []) (y : Nat) :
    y ∈ (closureRun succ start c₁).2.2 ↔ y ∈ (closureRun succ start c₂).2.2 := by
  rw [closure_result succ start c₁ h₁ y, closure_result succ start c₂ h₂ y]

/-! ### The repaired sites: order free at full strength -/

/-- `Got unexpected keyword arguments …` (a944eb3): the names come in call order; the set
`keywords_consumed` is only asked for membership — full. -/
theorem extraKwargs_order_free (keywords : List String) : OrderFree (siteExtraKwargs keywords) := by
  intro o₁ o₂ h
  simp only [siteExtraKwargs, contains_perm h]

/-- `No value specified for keys …` (24b231d): template order; `seen_keys` is only asked for
membership — full. -/
theorem keysLeft_order_free (template : List String) (nl : Bool) :
    OrderFree (fun seen => siteKeysLeft template seen nl) := by
  intro o₁ o₂ h
  simp only [siteKeysLeft, contains_perm h]

/-- `P (Protocol with members …)` (da6a3f3): `sorted` — full. -/
theorem protocolStr_order_free (base : String) (isProtocol : Bool) :
    OrderFree (siteProtocolStr base isProtocol) := by
  intro o₁ o₂ h
  simp only [siteProtocolStr, isortBy_perm strLe strLe_linear h]

/-- `_is_compatible_with_protocol` (da6a3f3): the loop runs over `sorted(self.protocol_members)`, so
the member the error names — and the whole first line — is order free — full. -/
theorem protocolFirstFail_order_free (other : String) (outcome : String → MemberOutcome) :
    OrderFree (siteProtocolFirstFail other outcome) := by
  intro o₁ o₂ h
  simp only [siteProtocolFirstFail, isortBy_perm strLe strLe_linear h]

/-- `isinstance(x, A) or isinstance(x, B)` (5fee81d): `list(dict.fromkeys(constraints))` — the site
function has no set argument left; whatever a set iteration would have produced, the narrowed union
has the members the old code produced (set reading). -/
theorem orNarrow_members_unchanged (sub : Nat → Nat → Bool) (vals : List Member) (tests order : List Nat)
    (h : order.Perm tests) (y : Member) :
    y ∈ siteOrNarrow sub vals tests ↔ y ∈ oldOrNarrow sub vals order := by
  simp only [oldOrNarrow, siteOrNarrow, mem_dedup, List.mem_flatMap]
  constructor
  · rintro ⟨v, hv, c, hc, hy⟩; exact ⟨v, hv, c, h.mem_iff.mpr hc, hy⟩
  · rintro ⟨v, hv, c, hc, hy⟩; exact ⟨v, hv, c, h.mem_iff.mp hc, hy⟩

/-! ### Sites that still let the order through -/

/-- `Signature.validate`'s `", ".join(kind.name for kind in disallowed_previous)` (text of an
InvalidSignature exception; no source program reaches it): **partial**, fewer than two kinds. -/
theorem disallowedKinds_partial (elems o₁ o₂ : List String) (hd : D10_twoOrMore elems = false)
    (h₁ : o₁.Perm elems) (h₂ : o₂.Perm elems) : siteDisallowedKinds o₁ = siteDisallowedKinds o₂ := by
  rw [orders_eq_of_small elems o₁ o₂ hd h₁ h₂]

theorem disallowedKinds_depends : siteDisallowedKinds ["a", "b"] ≠ siteDisallowedKinds ["b", "a"] := by
  decide

/-- `for base in other.artificial_bases`: whether some base succeeds is order free — full for the
verdict; the chosen result is order free when at most one base succeeds — **partial**. -/
theorem firstSuccess_verdict_order_free {α β : Type} (attempt : α → Option β) :
    OrderFree (fun o => (siteFirstSuccess attempt o).isSome) := by
  intro o₁ o₂ h
  simp only [siteFirstSuccess, findSome?_isSome_eq_any]
  exact any_perm _ h

theorem firstSuccess_partial {α β : Type} (attempt : α → Option β) (elems o₁ o₂ : List α)
    (hd : D10_twoSucceed attempt elems = false) (h₁ : o₁.Perm elems) (h₂ : o₂.Perm elems) :
    siteFirstSuccess attempt o₁ = siteFirstSuccess attempt o₂ := by
  unfold siteFirstSuccess
  apply findSome?_perm_of_le_one _ elems o₁ o₂ _ h₁ h₂
  simp [D10_twoSucceed] at hd; omega

/-- Two bases that both succeed with different results (class artificialBaseChoice). -/
theorem firstSuccess_depends :
    siteFirstSuccess (fun b : Nat => some b) [1, 2] ≠ siteFirstSuccess (fun b : Nat => some b) [2, 1] := by
  decide

/-- Definition nodes iterated in set order (`suppressing_subscope`, `_get_value_from_nodes`): same
members — full in the set reading. -/
theorem defNodes_order_free_as_set (pre : List Nat) (keep : Nat → Bool) :
    OrderFreeAsSet (siteTryDefNodes pre) ∧ OrderFreeAsSet (siteDefNodes keep) := by
  constructor
  · intro o₁ o₂ h y
    simp only [siteTryDefNodes, mem_dedup, List.mem_append, h.mem_iff]
  · intro o₁ o₂ h y
    simp only [siteDefNodes, mem_dedup, List.mem_filter, List.mem_flatMap, id]
    constructor
    · rintro ⟨⟨l, hl, hy⟩, hk⟩; exact ⟨⟨l, h.mem_iff.mp hl, hy⟩, hk⟩
    · rintro ⟨⟨l, hl, hy⟩, hk⟩; exact ⟨⟨l, h.mem_iff.mpr hl, hy⟩, hk⟩

/-- Full statement for the member order (false). -/
def defNodes_order_free : Prop :=
  (∀ pre, OrderFree (siteTryDefNodes pre)) ∧ (∀ keep, OrderFree (siteDefNodes keep))

/-- After `try: x = 1; x = 2` the union is `0 | 1 | 2` or `0 | 2 | 1` (class tryDefNodeOrder). -/
theorem tryDefNodes_depends : siteTryDefNodes [0] [1, 2] ≠ siteTryDefNodes [0] [2, 1] := by decide

/-- A narrowed variable with two definitions: `1 | 2` or `2 | 1` (class defNodeSetOrder). -/
theorem defNodes_depends :
    siteDefNodes (fun _ => true) [[1], [2]] ≠ siteDefNodes (fun _ => true) [[2], [1]] := by decide

theorem defNodes_order_free_false : ¬ defNodes_order_free :=
  fun h => tryDefNodes_depends (h.1 _ _ _ (List.Perm.swap _ _ _))

/-- **Partial**: fewer than two nodes in the set. -/
theorem defNodes_partial (pre : List Nat) (keep : Nat → Bool) :
    (∀ elems o₁ o₂ : List Nat, D10_twoOrMore elems = false → o₁.Perm elems → o₂.Perm elems →
      siteTryDefNodes pre o₁ = siteTryDefNodes pre o₂) ∧
    (∀ elems o₁ o₂ : List (List Nat), D10_twoOrMore elems = false → o₁.Perm elems → o₂.Perm elems →
      siteDefNodes keep o₁ = siteDefNodes keep o₂) :=
  ⟨fun elems o₁ o₂ hd h₁ h₂ => by rw [orders_eq_of_small elems o₁ o₂ hd h₁ h₂],
   fun elems o₁ o₂ hd h₁ h₂ => by rw [orders_eq_of_small elems o₁ o₂ hd h₁ h₂]⟩

/-- `intersect_bounds_maps`: the alternatives of the `OrBound` come in set order
(class orBoundOrder); **partial**: fewer than two alternatives. -/
theorem orBound_depends : siteOrBound [[1], [2]] ≠ siteOrBound [[2], [1]] := by decide

theorem orBound_partial (elems o₁ o₂ : List (List Nat)) (hd : D10_twoOrMore elems = false)
    (h₁ : o₁.Perm elems) (h₂ : o₂.Perm elems) : siteOrBound o₁ = siteOrBound o₂ := by
  rw [orders_eq_of_small elems o₁ o₂ hd h₁ h₂]

/-- `x in {"a", "b"}` (c06bd97): the set payload is sorted before the narrowed `Literal[…]` is built —
full. -/
theorem inSet_order_free : OrderFree siteInSet := by
  intro o₁ o₂ h
  simp only [siteInSet, isortBy_perm strLe strLe_linear h]

/-- `TypedValue.__str__` (99947e4) no longer reads the per-instance cached type object: the text is
the same whatever earlier checks did to the instance — full. -/
theorem typedValueStr_history_free (c₁ c₂ : Bool) (base : String) (members : List String) :
    siteTypedValueStr c₁ base members = siteTypedValueStr c₂ base members := rfl

/-! Non-vacuity of the partial theorems' hypotheses, and the repaired sites on concrete inputs. -/
example : D10_twoOrMore ["zeta"] = false ∧ ["zeta"].Perm ["zeta"] := ⟨by decide, List.Perm.refl _⟩
example : D10_twoSucceed (fun b : Nat => if b == 2 then some b else none) [1, 2, 3] = false := by decide
example : siteExtraKwargs ["zeta", "a", "eta"] ["a"] = some "Got unexpected keyword arguments 'zeta', 'eta'" := by
  decide
example : siteProtocolStr "P" true ["b", "a"] = "P (Protocol with members 'a', 'b')" := by decide
example : siteInSet ["gamma", "alpha", "beta"] = "Literal['alpha', 'beta', 'gamma']" := by decide
example : siteProtocolFirstFail "A" (fun _ => .missing) ["b", "a"] = some "A has no attribute 'a'" := by decide

/-! ### Regression documentation: why the seven sites were repaired (old site functions) -/

/-- Before a944eb3: `'a', 'b'` vs `'b', 'a'` (former class joinExtraKwargs). -/
theorem old_extraKwargs_depends : oldExtraKwargs ["a", "b"] ≠ oldExtraKwargs ["b", "a"] := by decide

/-- Before 24b231d (former class joinKeysLeft). -/
theorem old_keysLeft_depends : oldKeysLeft ["a", "b"] false ≠ oldKeysLeft ["b", "a"] false := by decide

/-- Before da6a3f3 (former class protocolMembersOrder). -/
theorem old_protocolStr_depends : oldProtocolStr "P" ["a", "b"] ≠ oldProtocolStr "P" ["b", "a"] := by decide

theorem old_protocolFirstFail_depends :
    oldProtocolFirstFail "A" (fun _ => .missing) ["a", "b"] ≠
    oldProtocolFirstFail "A" (fun _ => .missing) ["b", "a"] := by decide

/-- Before c06bd97: `Literal['a', 'b']` vs `Literal['b', 'a']` (former class inSetLiteralOrder). -/
theorem old_inSet_depends : oldInSet ["a", "b"] ≠ oldInSet ["b", "a"] := by decide

/-- Before 99947e4: the same protocol type rendered with or without `(Protocol with members …)`
depending on whether an earlier check had filled in the instance's type object (former class
typeObjectStr). -/
theorem old_typedValueStr_depends_on_cache :
    oldTypedValueStr false "typing.SupportsIndex" ["__index__"] ≠
    oldTypedValueStr true "typing.SupportsIndex" ["__index__"] := by decide

/-- Before 5fee81d: `x: Any`, tests in set order `[1, 2]` vs `[2, 1]` (former class orConstraintOrder). -/
theorem old_orNarrow_depends :
    oldOrNarrow (fun a b => a == b) [.any] [1, 2] ≠ oldOrNarrow (fun a b => a == b) [.any] [2, 1] := by
  decide

/-! ## B. History -/

/-- **Memo tables are transparent.** For a table whose entries are results of the computation
(`MemoInv`) and a computation determined by the cache key (`KeyDetermines`): a memoised lookup
returns what the uncached function returns, and the table stays valid. Covers
`Checker.make_type_object`, `ArgSpecCache._cached_get_argspec`, `_get_generic_bases_cached`,
`get_type_alias` — full, any table, any query. -/
theorem memo_transparent {Q κ ν : Type} [BEq κ] [LawfulBEq κ] (key : Q → κ) (hashable : κ → Bool)
    (f fallback : Q → Option ν) (hk : KeyDetermines key f) (tbl : List (κ × ν))
    (hi : MemoInv key f tbl) (q : Q) :
    (memoStep key hashable f fallback tbl q).1 = memoSpec key hashable f fallback q ∧
    MemoInv key f (memoStep key hashable f fallback tbl q).2.1 :=
  memoStep_spec key hashable f fallback hk tbl hi q

/-- **…after any history**: the answer to `q` after any sequence of earlier lookups, starting from
the empty table, equals the answer from the empty table — by induction over the history. -/
theorem memo_history_independent {Q κ ν : Type} [BEq κ] [LawfulBEq κ] (key : Q → κ)
    (hashable : κ → Bool) (f fallback : Q → Option ν) (hk : KeyDetermines key f) (h : List Q) (q : Q) :
    (memoStep key hashable f fallback (memoRun key hashable f fallback [] h) q).1 =
    (memoStep key hashable f fallback [] q).1 := by
  have h0 : MemoInv key f ([] : List (κ × ν)) := by intro q v hl; simp at hl
  rw [(memoStep_spec key hashable f fallback hk _ (memoRun_inv key hashable f fallback hk h [] h0) q).1,
      (memoStep_spec key hashable f fallback hk [] h0 q).1]

/-- The hypothesis `KeyDetermines` is needed: a table keyed by less than the computation reads
(`known_argspecs` is keyed by the object, the computation also reads `is_asynq`) replays the
answer of the first variant. -/
theorem memo_key_must_determine :
    (memoStep (Q := Nat × Bool) (fun q => q.1) (fun _ => true) (fun q => some q.2) (fun _ => none)
      (memoRun (fun q => q.1) (fun _ => true) (fun q => some q.2) (fun _ => none) [] [(0, true)]) (0, false)).1
    ≠ (memoStep (Q := Nat × Bool) (fun q => q.1) (fun _ => true) (fun q => some q.2) (fun _ => none)
      [] (0, false)).1 := by decide

/-- **The model follows the code under check.** The three flags `translate` reads off the live
source of `TypeObject.can_assign` say: the cache key contains the mode and the generic arguments
(e01ac16), and a positive answer is stored only while no recursion-guard assumption is in force
(5ad1557). Reverting one of the repairs flips a flag and breaks this theorem. -/
theorem cache_variant_is_repaired :
    Gen.cacheModeKey = true ∧ Gen.cacheArgKey = true ∧ Gen.cacheTopOnly = true := by decide

/-- **Every cached verdict is valid — full, any world (recursive or not), any mix of modes and
generic arguments.** After any history of top-level queries from a fresh checker, every key in the
cache is accepted by the recursion-guard algorithm *without any cache and without assumptions*
(`guardVerdict … []`, what a fresh checker computes) — given `h.length * fuel` fuel. This is what
caching only at top level buys: no entry rests on an assumption. (Proved by induction on the fuel
with the cache constant during nested checks, `check_guard`, and induction over the history.) -/
theorem cached_verdicts_valid (W : World) (fuel : Nat) (h : List Query) (e : Bool) (a : Nat) (p : Pid)
    (v : Vid) (bm : BMap) (hmem : ((e, a, p, v), bm) ∈ (runHist W fuel {} h).cache) :
    guardVerdict W e (h.length * fuel) [] p a v = true := by
  have := (runHist_guard W fuel (by decide) h {} 0 (by intro e a p v bm hm; cases hm) rfl).1 e a p v bm hmem
  simpa using this

/-- **The verdict after any history — full, any world.** It is never stricter than a fresh checker's
verdict, and if it accepts, so does a fresh checker given more fuel. Python has no fuel (it recurses
until the guard fires), so the two bounds coincide there: see the corollary. -/
theorem proto_verdict_history_bounds (W : World) (fuel : Nat) (h : List Query) (q : Query) :
    (guardVerdict W q.ex fuel [] q.p q.a q.v = true → (answerAfter W fuel h q).isSome = true) ∧
    ((answerAfter W fuel h q).isSome = true →
      guardVerdict W q.ex (fuel + h.length * fuel) [] q.p q.a q.v = true) := by
  obtain ⟨hc, hs⟩ := runHist_guard W fuel (by decide) h {} 0 (by intro e a p v bm hm; cases hm) rfl
  obtain ⟨l, u, _⟩ := check_guard W q.ex (0 + h.length * fuel) (by decide) fuel (runHist W fuel {} h) q.p q.a q.v hc
  rw [hs] at l u
  unfold answerAfter
  exact ⟨l, fun hh => by simpa using u hh⟩

/-- The fuel suffices for `q`: more fuel does not make the cache-free algorithm accept it (Python's
situation; in a world with `k` (protocol, class) pairs `k + 1` is enough, the guard fires before). -/
def FuelSuffices (W : World) (fuel : Nat) (q : Query) : Prop :=
  ∀ N, guardVerdict W q.ex N [] q.p q.a q.v = true → guardVerdict W q.ex fuel [] q.p q.a q.v = true

/-- **History independence of the verdict — any world, recursive protocols included.** No
`D10_cyclic` hypothesis: the exclusion existed because answers were cached under assumptions. -/
theorem proto_verdict_history_independent (W : World) (fuel : Nat) (h : List Query) (q : Query)
    (hf : FuelSuffices W fuel q) :
    (answerAfter W fuel h q).isSome = (answerFresh W fuel q).isSome := by
  have hb := proto_verdict_history_bounds W fuel h q
  have hb0 := proto_verdict_history_bounds W fuel [] q
  cases h1 : (answerAfter W fuel h q).isSome <;> cases h2 : (answerFresh W fuel q).isSome <;> try rfl
  · have := hb0.2 h2
    have := hb.1 (hf _ this)
    rw [h1] at this; cases this
  · have := hb.2 h1
    have := hb0.1 (hf _ this)
    unfold answerFresh at h2
    rw [h2] at this; cases this

/-- Full statement for the protocol check at the level of answers — verdict *and bounds map* (false:
see the witness). -/
def cached_answer_valid : Prop :=
  ∀ (W : World) (fuel : Nat) (h : List Query) (q : Query), answerAfter W fuel h q = answerFresh W fuel q

/-- Two mutually recursive generic protocols whose members also bound a type variable. -/
def wCyc : World :=
  ⟨[((0, 0, 0), [[.sub 1 0 1, .bound 7 1]]), ((1, 0, 1), [[.sub 0 0 0, .bound 7 2]])], []⟩

/-- **Why the bounds-map theorem keeps `¬ D10_cyclic`.** In a recursive world the recursion guard
answers `{}` for the pair under way while a cache hit answers with the stored map: both verdicts are
"compatible", but the bounds map of the outer pair lists the bounds differently (here `[2, 1, 2]`
after the history, `[1, 2]` fresh). Not a matter of caching under assumptions: any positive cache
next to a guard does this. -/
theorem cyclic_bounds_map_depends_on_history_witness :
    answerAfter wCyc 5 [⟨false, 0, 0, 0⟩] ⟨false, 1, 0, 1⟩ = some [(7, [2, 1, 2])] ∧
    answerFresh wCyc 5 ⟨false, 1, 0, 1⟩ = some [(7, [1, 2])] := by decide

theorem cached_answer_valid_false : ¬ cached_answer_valid := by
  intro h
  have := h wCyc 5 [⟨false, 0, 0, 0⟩] ⟨false, 1, 0, 1⟩
  rw [cyclic_bounds_map_depends_on_history_witness.1, cyclic_bounds_map_depends_on_history_witness.2] at this
  cases this

/-- **Cache entries are immutable after insertion.** Whatever the world (recursive or not), the
modes and the fuel: no operation of a later query — hit, guard, miss, nested checks, insertion —
removes or changes a (key, bounds map) pair stored in the cache; the old cache is a suffix of the
new one. For one query and, by induction, for any history. -/
theorem cache_entries_immutable (W : World) (fuel : Nat) (st : St) :
    (∀ (q : Query) (e : CKey × BMap), e ∈ st.cache → e ∈ (check W q.ex fuel st q.p q.a q.v).2.cache) ∧
    (∀ (h : List Query) (e : CKey × BMap), e ∈ st.cache → e ∈ (runHist W fuel st h).cache) :=
  ⟨fun q e he => (check_extends W q.ex fuel st q.p q.a q.v).mem e he,
   fun h e he => (runHist_extends W fuel h st).mem e he⟩

/-- **History independence of the protocol check, partial — verdict and bounds map.** For the *bounds
map* the exclusion of recursive worlds stays (`cyclic_bounds_map_depends_on_history_witness`): if the
world's nested checks are well-founded w.r.t. `rk` (`¬ D10_cyclic`: the recursion guard never
fires) and the fuel is above the rank of every query, for *every* history, in
any mix of the two modes and of the protocols' generic-argument variants, the answer is the
structural one `semB`: the same verdict and the same bounds map, list for list, as a fresh checker
returns. Proved by induction on the fuel with nested inductions over members and slots
(`check_spec`, whose invariant says every cached map is the structural map of its key) and
induction over the history. -/
theorem proto_history_independent_partial (W : World) (rk : Rank) (fuel : Nat) (h : List Query)
    (q : Query) (h1 : D10_cyclic W rk = false) (h4 : fuelOK W rk fuel (q :: h) = true) :
    answerAfter W fuel h q = answerFresh W fuel q ∧
    answerFresh W fuel q = semB W q.ex fuel q.p q.a q.v := by
  have ha := answerAfter_eq_semB W rk fuel h q h1 h4
  have hf := answerAfter_eq_semB W rk fuel [] q h1
    (by simp only [fuelOK, List.all_cons, Bool.and_eq_true] at h4 ⊢; exact ⟨h4.1, by simp⟩)
  exact ⟨by rw [ha]; exact hf.symm, hf⟩

/-- …and so is what the call machinery makes of it: the protocol's map unified with the bounds the
other arguments of the call contribute (`pow(x, 2)`: `Literal[2] <= _E`). `callBounds` has no access
to the checker state — `unifyBM` returns a new map — so the only way a call could depend on the
history is through the answer, which it does not. -/
theorem call_bounds_history_independent_partial (W : World) (rk : Rank) (fuel : Nat) (h : List Query)
    (q : Query) (extra : BMap) (h1 : D10_cyclic W rk = false) (h4 : fuelOK W rk fuel (q :: h) = true) :
    callBounds (answerAfter W fuel h q) extra = callBounds (answerFresh W fuel q) extra := by
  rw [(proto_history_independent_partial W rk fuel h q h1 h4).1]

/-! Non-vacuity: a world with a nested protocol, an Any-typed member, bounds on two type variables
and two variants of the generic arguments satisfies the hypotheses; the history mixes modes and
variants; both verdicts and a non-trivial bounds map occur. -/
def wOk : World :=
  ⟨[((0, 0, 0), [[.sub 1 0 1, .bound 7 1], [.anyOk]]), ((1, 0, 1), [[.bound 7 2], [.bound 8 3]]),
    ((1, 0, 0), [[.const false]]), ((0, 0, 1), [[.sub 1 0 0]]), ((0, 1, 0), [[.const false]])], []⟩
def rkOk : Rank := rankOf [((0, 0), 1), ((0, 1), 1), ((1, 0), 0), ((1, 1), 0)]
example : D10_cyclic wOk rkOk = false := by decide
example : fuelOK wOk rkOk 3 [⟨true, 0, 0, 0⟩, ⟨false, 0, 0, 0⟩, ⟨false, 0, 1, 0⟩, ⟨false, 1, 0, 1⟩] = true := by
  decide
example : answerAfter wOk 3 [⟨false, 0, 1, 0⟩, ⟨false, 1, 0, 1⟩] ⟨false, 0, 0, 0⟩ = some [(7, [2, 1]), (8, [3])] := by
  decide
example : callBounds (answerAfter wOk 3 [⟨false, 1, 0, 1⟩] ⟨false, 0, 0, 0⟩) [(7, [9])] = some [(7, [2, 1, 9]), (8, [3])] := by
  decide
example : answerAfter wOk 3 [⟨false, 0, 0, 0⟩] ⟨true, 0, 0, 0⟩ = none := by decide
example : answerAfter wOk 3 [⟨false, 0, 0, 0⟩] ⟨false, 0, 1, 0⟩ = none := by decide

/-- **History independence across Checkers and process-level state, partial.** One process: any
sequence of protocol queries, new Checkers (per-Checker state starts empty, process-level state
stays) and lookups in a process-level memo table. If the world is well-founded (`¬ D10_cyclic`), the
fuel covers the queries, and the process-level table is *keyed by values* (`KeyedByValue`: equal keys
mean equal content — never a bare address, which a later object can reuse), then whatever an event
returns after the history is what it returns in a fresh process. -/
theorem process_history_independent_partial (W : World) (rk : Rank) (fuel : Nat) (key : Obj → Nat)
    (g : Nat → Nat) (h : List Event) (e : Event) (h1 : D10_cyclic W rk = false)
    (hk : KeyedByValue key) (h4 : fuelOKE W rk fuel (e :: h) = true) :
    outAfter W fuel key g h e = outAfter W fuel key g [] e := by
  have hr : rankOK W rk = true := by simpa [D10_cyclic] using h1
  simp only [fuelOKE, List.all_cons, Bool.and_eq_true] at h4
  have h0 : ProcOK W rk key g {} :=
    ⟨(by intro e a p v bm hm; cases hm), rfl, (by intro q v hl; simp at hl)⟩
  have hinv := runE_inv W rk hr fuel key g hk h {} h0 (by simpa [fuelOKE] using h4.2)
  exact (stepE_spec W rk hr fuel key g hk _ hinv e (by simp [fuelOKE, h4.1])).1

/-- The hypothesis is needed: a process-level table keyed by the address alone (`id(node)`) returns,
for a new object that reuses the address of a freed one, what was resolved for the old object —
with a new Checker in between (the seeded C10-2 defect; `_empty_constrained.resolution_cache`). -/
theorem address_key_stale_witness :
    outAfter ⟨[], []⟩ 1 (fun o => o.addr) (fun c => c + 100) [.resolve ⟨4096, 1⟩, .newChecker] (.resolve ⟨4096, 2⟩)
      = .val (some 101) ∧
    outAfter ⟨[], []⟩ 1 (fun o => o.addr) (fun c => c + 100) [] (.resolve ⟨4096, 2⟩) = .val (some 102) := by
  decide

/-- Non-vacuity: keyed by (address, content) — an entry that holds the object — is `KeyedByValue`. -/
example : KeyedByValue (fun o => o.content) := fun _ _ h => h
example : outAfter wOk 3 (fun o => o.content) (fun c => c + 100)
    [.resolve ⟨4096, 1⟩, .query ⟨false, 1, 0, 1⟩, .newChecker] (.resolve ⟨4096, 2⟩) = .val (some 102) := by decide

/-! ### Why `unify_bounds_maps` must return a new map (documentation of the aliasing defect)

An implementation that aliases the first map's list into the result and extends it in place turns
every call into a write to the cache. `callAliased` models that as what it is — a state change — and
the witness shows the leak: the bound contributed by the other argument of an earlier call comes
back in a later call. The code under check must behave like `callBounds`; the harness compares
`unify_bounds_maps` with `unifyBM`, checks that it leaves its arguments alone, and snapshots the
cache entries after every program of a history. -/

/-- The defective call: the cached map of `key` is replaced by its unification with `extra`. -/
def callAliased (st : St) (key : CKey) (extra : BMap) : Ans × St :=
  match st.cache.lookup key with
  | none => (none, st)
  | some bm =>
    let r := unifyBM [bm, extra]
    (some r, { st with cache := st.cache.map fun e => if e.1 == key then (e.1, r) else e })

/-- `_SupportsPow2[_E, _T_co] ← Fraction`: `_T_co` gets a bound from `__pow__`, `_E` an upper bound. -/
def wPow : World := ⟨[((0, 0, 0), [[.bound 1 10, .bound 0 20]])], []⟩

theorem aliased_unify_leaks_witness :
    let st := (check wPow false 3 {} 0 0 0).2
    -- pure: the second call sees only its own extra bound
    callBounds (answerAfter wPow 3 [⟨false, 0, 0, 0⟩] ⟨false, 0, 0, 0⟩) [(0, [2])] = some [(1, [10]), (0, [20, 2])] ∧
    -- aliased: after a call with extra bound 5 the cached map — and the next call — carry it
    (callAliased (callAliased st (false, 0, 0, 0) [(0, [5])]).2 (false, 0, 0, 0) [(0, [2])]).1 =
      some [(1, [10]), (0, [20, 5, 2])] := by decide

/-! ### Regression: the two cache-key defects repaired by e01ac16 -/

/-- `Hashable`-like protocol 0 whose only member is Any-typed on value 0. -/
def wMode : World := ⟨[((0, 0, 0), [[.anyOk]])], []⟩

/-- `SupportsAbs[int] ← int` holds, `SupportsAbs[str] ← int` does not. -/
def wArgs : World := ⟨[((0, 0, 0), [[.const true]]), ((0, 1, 0), [[.const false]])], []⟩

/-- The mode is part of the key: a normal-mode acceptance is not replayed under `set_exclude_any`
(former class cacheIgnoresMode; also an instance of the partial theorem). -/
theorem cache_respects_mode :
    answerAfter wMode 3 [⟨false, 0, 0, 0⟩] ⟨true, 0, 0, 0⟩ = answerFresh wMode 3 ⟨true, 0, 0, 0⟩ := by decide

/-- The generic arguments are part of the key (former class protoCacheKey). -/
theorem cache_respects_generic_arguments :
    answerAfter wArgs 3 [⟨false, 0, 0, 0⟩] ⟨false, 0, 1, 0⟩ = answerFresh wArgs 3 ⟨false, 0, 1, 0⟩ := by decide

/-- Before e01ac16 (`check2 false false false`: key = the other value only): accepted in normal
mode, cached, replayed under `set_exclude_any` where a fresh checker rejects. -/
theorem old_cache_ignores_mode_witness :
    answerAfter2 wMode false false false 3 [⟨false, 0, 0, 0⟩] ⟨true, 0, 0, 0⟩ = some [] ∧
    answerAfter2 wMode false false false 3 [] ⟨true, 0, 0, 0⟩ = none := by decide

/-- Before e01ac16: the positive answer for variant 0 of the generic arguments is replayed for
variant 1. -/
theorem old_proto_cache_key_witness :
    answerAfter2 wArgs false false false 3 [⟨false, 0, 0, 0⟩] ⟨false, 0, 1, 0⟩ = some [] ∧
    answerAfter2 wArgs false false false 3 [] ⟨false, 0, 1, 0⟩ = none := by decide

/-! ### Regression: answers cached under a recursion-guard assumption (repaired by 5ad1557) -/

/-- P1 ← A needs (P2 ← B) and then something false; P2 ← B needs P1 ← A. -/
def wGuard : World := ⟨[((1, 0, 1), [[.sub 2 0 2, .const false]]), ((2, 0, 2), [[.sub 1 0 1]])], []⟩

/-- The nested P2 ← B, accepted under the assumption "P1 ← A", is not stored: after P1 ← A has been
checked (and rejected), P2 ← B is answered as by a fresh checker (former class
cacheUnderFailedAssumption; also an instance of `proto_verdict_history_independent`). -/
theorem assumption_results_not_cached :
    answerAfter wGuard 5 [⟨false, 1, 0, 1⟩] ⟨false, 2, 0, 2⟩ = answerFresh wGuard 5 ⟨false, 2, 0, 2⟩ ∧
    (runHist wGuard 5 {} [⟨false, 1, 0, 1⟩]).cache = [] := by decide

/-- Before 5ad1557 (`check2 true true false`): P2 ← B was cached while P1 ← A was assumed; P1 ← A then
failed; a fresh checker rejects P2 ← B, the warmed one accepted it. (The cached pair is not in the
greatest fixed point: `gfpCompat` is empty.) -/
theorem old_cache_under_failed_assumption_witness :
    answerAfter2 wGuard true true false 5 [⟨false, 1, 0, 1⟩] ⟨false, 2, 0, 2⟩ = some [] ∧
    answerAfter2 wGuard true true false 5 [] ⟨false, 2, 0, 2⟩ = none ∧ gfpCompat wGuard false = [] := by decide

end Pya.C10
