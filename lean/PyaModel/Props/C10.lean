import PyaModel.Proofs.C10
namespace Pya.C10
theorem placeholder_c10 : True := trivial
end Pya.C10
