import PyaModel.Proofs.C11
/-!
# Props/C11 — suppression and enabling are a pure projection of the diagnostics

Property theorems only.  Model: `C11.showError` / `C11.run` / `C11.check` (Core/Emit.lean, follows
`BaseNodeVisitor.show_error`, `has_file_level_ignore`, the unused/bare-ignore passes and the tail of
`NameCheckVisitor.check` branch by branch).  Spec: `C11.specFails` / `C11.specCheck`
(Spec/Suppress.lean, filters over the raw stream).

Everything is stated for **all** files (`lines : List Line`, any text), **all** raw streams
(`raw : List Raw`, the `show_error` calls the visitor makes: any length, duplicates, captured calls,
calls without code / position / obey_ignore / save) and **all** settings (`en : String → Bool`).
The raw stream is an input: that it does not depend on settings or comments is the explicit
assumption of DESIGN §6/C11, checked by the differential harness, not proved here.

Scope predicates used as hypotheses (all decidable `Bool`s, Spec/Suppress.lean):
`RawWF` (positioned obeying calls point into the file), `RawAst` (the visitor's calls use no
`_FakeNode`), `NoIgnore` (the base file has no ignore comment), `plainCode` (the line a trailing comment is
appended to has no `#` and is not blank), `Sel.ok` (the code name has no `#` / `]`).
Exception classes: none left. The two the code had — `lineOneWrap` (`lines[lineno - 2]` without the
`lineno >= 2` guard) and `splitlinesMismatch` (`_lines()` = `contents.splitlines()`) — were repaired in
/repo by 0cba813 and ba62f49; the model follows the repaired code and the statements that used to carry
`¬ D11_…` hypotheses are proved at full strength. Theorems named `old_…` are regression documentation:
they are about `oldShowError` / `oldRun` / `oldCheck` / `oldPyLines` (Core/Emit.lean, the two functions
as they were) and record why the repairs were needed.
-/
namespace Pya.C11

/-! ## Disabling codes -/

/-- **disable_is_projection (visitor phase, full strength).** Switching off any set `S` of codes —
`disable S en` is what an option, a per-module override or `-d` each amount to for
`is_enabled` — removes exactly the failures carrying a code of `S` from the failure list, keeps
the others in order, and cannot make a crash-free run crash. No hypothesis on file or stream. -/
theorem disable_is_projection (S : List String) (en : String → Bool) (lines : List Line) (raw : List Raw)
    (st : St) (h : run en lines {} raw = some st) :
    ∃ st2, run (disable S en) lines {} raw = some st2 ∧
      st2.fails = st.fails.filter fun r => !codeIn S r := by
  obtain ⟨st2, h2, rel⟩ := (Rel.init S).run raw h
  exact ⟨st2, h2, rel.fails⟩

/-- Full statement for the complete output (visitor + `unused_ignore` + `bare_ignore` passes).
It is *false* in general: see `disable_unmasks_unused_witness`. -/
def disable_is_projection_check_full : Prop :=
  ∀ (S : List String) (en : String → Bool) (lines : List Line) (raw : List Raw) (st : St),
    check en lines raw = some st →
    ∃ st2, check (disable S en) lines raw = some st2 ∧ st2.fails = st.fails.filter fun r => !codeIn S r

/-- **disable_is_projection for the complete output, partial.** Holds whenever the unused-ignore
report cannot show the difference: `unused_ignore` is off, or is itself in `S`, or the file has no
ignore comment (the case the property quantifies over). -/
theorem disable_is_projection_check_partial (S : List String) (en : String → Bool) (lines : List Line)
    (raw : List Raw) (st : St) (h : check en lines raw = some st)
    (hyp : (!en "unused_ignore" || S.contains "unused_ignore" || NoIgnore lines) = true) :
    ∃ st2, check (disable S en) lines raw = some st2 ∧
      st2.fails = st.fails.filter fun r => !codeIn S r :=
  check_disable S en lines raw st h hyp

def allOn : String → Bool := fun _ => true

/-- Why the hypothesis is needed: with `unused_ignore` on, disabling the code an ignore comment was
suppressing turns that comment into an unused one — a *new* diagnostic appears.
`x = y  # static analysis: ignore[undefined_name]` with `undefined_name` disabled. -/
theorem disable_unmasks_unused_witness : ¬ disable_is_projection_check_full := by
  intro h
  have := h ["undefined_name"] allOn ["x = y  # static analysis: ignore[undefined_name]".toList]
    [{ node := .ast 0, code := some "undefined_name", pos := some (1, 4) }]
    { seen := [⟨.ast 0, .inl "undefined_name"⟩], used := [0], fails := [] } (by decide)
  revert this
  decide

/-- A disabled code is never emitted and a file-level-ignored code is never emitted, by any part of
the check (full strength). -/
theorem emitted_passed_gate (en : String → Bool) (lines : List Line) (raw : List Raw) (st : St)
    (h : check en lines raw = some st) (r : Raw) (hr : r ∈ st.fails) :
    codeOn en r = true ∧ fileSuppressed lines r.code = false := by
  have := check_emits_gate h hr
  rw [gateOpen_eq] at this
  unfold counted at this
  simp only [Bool.and_eq_true, Bool.not_eq_true'] at this
  exact ⟨this.1.2, this.2⟩

/-- **file_level_ignore_all (any file, full strength).** If the leading comment block contains an
ignore comment that is bare or names code `c`, no failure with code `c` is produced — also not by the
end-of-file passes (a bare leading comment silences `unused_ignore` / `bare_ignore` too). -/
theorem file_level_ignore_all (en : String → Bool) (lines : List Line) (raw : List Raw) (st : St)
    (h : check en lines raw = some st) (c : Option String) (hc : fileSuppressed lines c = true) :
    ∀ r ∈ st.fails, r.code ≠ c := by
  intro r hr e
  have := (emitted_passed_gate en lines raw st h r hr).2
  rw [e, hc] at this
  cases this

/-! ## Model = spec -/

/-- Full statement: the check produces exactly the failures the declarative spec lists. -/
def check_eq_spec_full : Prop :=
  ∀ (en : String → Bool) (lines : List Line) (raw : List Raw),
    RawWF lines raw = true → RawAst raw = true →
    ∃ st, check en lines raw = some st ∧ st.fails = specCheck en lines raw

/-- **check_eq_spec (full strength since 0cba813).** For every file, stream and settings: the run
does not crash and its failure list is, in order, the counted first occurrences that no ignore
comment targets (file level / trailing / own-line-above), followed by one `unused_ignore` per
comment line credited with no suppression and one `bare_ignore` per code-less comment line. -/
theorem check_eq_spec : check_eq_spec_full :=
  fun en lines raw hwf hast => check_eq_spec_aux en lines raw hwf hast

/-- The witness file of the former exception class: `w: int = "s"` / `# static analysis: ignore`. -/
def wrapLines : List Line := ["w: int = \"s\"".toList, "# static analysis: ignore".toList]
def wrapRaw : List Raw := [{ node := .ast 0, code := some "incompatible_assignment", pos := some (1, 0) }]

/-- **Regression (`lineOneWrap`, repaired by 0cba813).** Before the repair the comment on the *last*
line suppressed the diagnostic on line 1 (and was reported as unused all the same): the statement
of `check_eq_spec` was false of the old `show_error`. -/
theorem old_lineOneWrap_witness :
    ¬ ∀ (en : String → Bool) (lines : List Line) (raw : List Raw),
      RawWF lines raw = true → RawAst raw = true →
      ∃ st, oldCheck en lines raw = some st ∧ st.fails = specCheck en lines raw := by
  intro h
  obtain ⟨st, h1, h2⟩ := h allOn wrapLines wrapRaw (by decide) (by decide)
  have e : oldCheck allOn wrapLines wrapRaw = some
      { seen := [⟨.fake 2 0, .inl "bare_ignore"⟩, ⟨.fake 2 0, .inl "unused_ignore"⟩,
                 ⟨.ast 0, .inl "incompatible_assignment"⟩],
        used := [-1],
        fails := [commentDiag "unused_ignore" 1 wrapLines[1], commentDiag "bare_ignore" 1 wrapLines[1]] } := by
    decide
  rw [e] at h1
  simp only [Option.some.injEq] at h1
  subst h1
  revert h2
  decide

/-- The same input on the repaired code: the line-1 diagnostic is reported. -/
example : (check allOn wrapLines wrapRaw).map (·.fails) = some (specCheck allOn wrapLines wrapRaw) ∧
    (specCheck allOn wrapLines wrapRaw).length = 3 := by decide

example : D11_lineOneWrap allOn wrapLines wrapRaw = true := by decide

/-! ## The lines `show_error` looks at are the lines the diagnostics are numbered by -/

/-- Full statement: `_lines()` yields the physical lines of the tokenizer. -/
def lines_agree_full : Prop := ∀ src : List Char, pyLines src = tokLines src

/-- **lines_agree (full strength since ba62f49).** -/
theorem lines_agree : lines_agree_full := pyLines_eq_tokLines

/-- **Regression (`splitlinesMismatch`, repaired by ba62f49).** `contents.splitlines()` agreed with
the tokenizer only on sources without a character that `splitlines()` alone treats as a line
boundary … -/
theorem old_lines_agree_partial (src : List Char) (h : D11_splitlinesMismatch src = false) :
    oldPyLines src = tokLines src :=
  oldPyLines_eq_tokLines src h

/-- … and a form feed split a line for `splitlines()` only. -/
theorem old_splitlinesMismatch_witness : ¬ ∀ src : List Char, oldPyLines src = tokLines src := by
  intro h
  have := h "a\x0cb".toList
  revert this
  decide

/-- **From source text to failures (full strength).** The check run on the lines pyanalyze
extracts from the source produces what the spec prescribes for the tokenizer's lines. -/
theorem check_source_eq_spec (en : String → Bool) (src : List Char) (raw : List Raw)
    (hwf : RawWF (tokLines src) raw = true) (hast : RawAst raw = true) :
    ∃ st, check en (pyLines src) raw = some st ∧ st.fails = specCheck en (tokLines src) raw := by
  rw [pyLines_eq_tokLines src]
  exact check_eq_spec_aux en (tokLines src) raw hwf hast

/-! ## One comment added to a file without ignore comments -/

/-- **trailing_ignore_exact (full strength on its fragment).** Appending `  # static analysis: ignore`
or `…ignore[c]` to line `i + 1` (a line without `#`) of a file without ignore comments removes from
the failure list exactly the diagnostics that obey ignore comments, lie on line `i + 1` and are
named by the comment (all codes when bare), and changes nothing else — for every raw stream,
every line of the file (first and last included) and every setting. -/
theorem trailing_ignore_exact (en : String → Bool) (lines : List Line) (raw : List Raw) (i : Nat)
    (hi : i < lines.length) (s : Sel) (hno : NoIgnore lines = true)
    (hplain : plainCode lines[i] = true) (hs : s.ok = true) (hwf : RawWF lines raw = true) :
    ∃ st st', run en lines {} raw = some st ∧
      run en (lines.set i (withTrailing lines[i] s)) {} raw = some st' ∧
      st'.fails = st.fails.filter fun r => !s.hits (i + 1) r :=
  trailing_exact en lines raw i hi s hno hplain hs hwf

/-- Full statement for the own-line form: an ignore comment on a line of its own (indented by `k`)
inserted before line `i + 1` — not inside the leading comment block — suppresses exactly the matching
diagnostics of the *next* line; the raw stream is renumbered (`Raw.shift`). `i = lines.length` is the
comment after the last line, which targets nothing. -/
def ownline_ignore_exact_full : Prop :=
  ∀ (en : String → Bool) (lines : List Line) (raw : List Raw) (i k : Nat) (s : Sel),
    i ≤ lines.length → NoIgnore lines = true → RawWF lines raw = true →
    (decide (1 ≤ k) || (lines.take i).any (fun l => l.head? != some '#')) = true →
    ∃ st st', run en lines {} raw = some st ∧
      run en (insertAt lines i (ownLine k s)) {} (raw.map (Raw.shift i)) = some st' ∧
      st'.fails = (st.fails.filter fun r => !s.hits (i + 1) r).map (Raw.shift i)

/-- **ownline_ignore_exact (full strength since 0cba813)**: every position, the one after the last
line included. -/
theorem ownline_ignore_exact : ownline_ignore_exact_full :=
  fun en lines raw i k s hi hno hwf hpos =>
    insert_exact en lines raw i k s hi hno hwf _ (ownline_suppressed lines i k s hi hno hpos)

/-- **Regression (`lineOneWrap`, insertion form).** Before 0cba813 the own-line comment after the
last line (`i = lines.length`), which should target nothing, removed the diagnostic on line 1. -/
theorem old_ownline_last_line_witness :
    ¬ ∀ (en : String → Bool) (lines : List Line) (raw : List Raw) (i k : Nat) (s : Sel),
      i ≤ lines.length → NoIgnore lines = true → RawWF lines raw = true →
      (decide (1 ≤ k) || (lines.take i).any (fun l => l.head? != some '#')) = true →
      ∃ st st', oldRun en lines {} raw = some st ∧
        oldRun en (insertAt lines i (ownLine k s)) {} (raw.map (Raw.shift i)) = some st' ∧
        st'.fails = (st.fails.filter fun r => !s.hits (i + 1) r).map (Raw.shift i) := by
  intro h
  obtain ⟨st, st', h1, h2, h3⟩ := h allOn ["w: int = \"s\"".toList, "x = 1".toList] wrapRaw 2 0 .bare
    (by decide) (by decide) (by decide) (by decide)
  have e1 : oldRun allOn ["w: int = \"s\"".toList, "x = 1".toList] {} wrapRaw = some
      { seen := [⟨.ast 0, .inl "incompatible_assignment"⟩], used := [], fails := wrapRaw } := by decide
  have e2 : oldRun allOn (insertAt ["w: int = \"s\"".toList, "x = 1".toList] 2 (ownLine 0 .bare)) {}
      (wrapRaw.map (Raw.shift 2)) = some
      { seen := [⟨.ast 0, .inl "incompatible_assignment"⟩], used := [-1], fails := [] } := by decide
  rw [e1] at h1; rw [e2] at h2
  simp only [Option.some.injEq] at h1 h2
  subst h1; subst h2
  revert h3
  decide

/-- **file_level_ignore_all, insertion form.** An ignore comment at column 0 inserted inside (or
right after) the leading comment block suppresses every diagnostic the comment names — the whole
file when bare — wherever it lies and whether or not it obeys per-line comments. -/
theorem file_level_ignore_exact (en : String → Bool) (lines : List Line) (raw : List Raw) (i : Nat)
    (s : Sel) (hi : i ≤ lines.length) (hno : NoIgnore lines = true) (hwf : RawWF lines raw = true)
    (hlead : (lines.take i).all (fun l => l.head? == some '#') = true) :
    ∃ st st', run en lines {} raw = some st ∧
      run en (insertAt lines i (ownLine 0 s)) {} (raw.map (Raw.shift i)) = some st' ∧
      st'.fails = (st.fails.filter fun r => !s.matches r.code).map (Raw.shift i) :=
  insert_exact en lines raw i 0 s hi hno hwf _ (filelevel_suppressed lines i s hi hno hlead)

/-! ## Unused ignore comments -/

/-- **unused_iff_suppressed_nothing (full strength since 0cba813).** A line carrying an ignore
comment is handed to the `unused_ignore` report exactly when no counted diagnostic is credited to
it (credit: first matching line of the leading block, else the diagnostic's own line, else the
line above — so of two comments covering one diagnostic only one is "used"). -/
theorem unused_iff_suppressed_nothing (en : String → Bool) (lines : List Line) (raw : List Raw)
    (st : St) (hrun : run en lines {} raw = some st) (hwf : RawWF lines raw = true)
    (p : Nat × Line) (hp : p ∈ commentLines lines) :
    commentDiag "unused_ignore" p.1 p.2 ∈ unusedRaws lines st.used ↔
      ∀ r ∈ nub (raw.filter (counted en)), credited lines r ≠ some p.1 :=
  unused_pointwise en lines raw st hrun hwf p hp

/-- **unused_iff_suppressed_nothing for non-overlapping comments.** When no diagnostic is covered
by two comment lines (`UniqueCover`, a scope predicate; e.g. one comment added to a clean file),
"credited with" is simply "would suppress": the comment on line `p.1 + 1` is reported as unused
exactly when it covers none of the counted diagnostics. -/
theorem unused_iff_covers_nothing (en : String → Bool) (lines : List Line) (raw : List Raw)
    (st : St) (hrun : run en lines {} raw = some st) (hwf : RawWF lines raw = true)
    (hu : UniqueCover en lines raw = true) (p : Nat × Line) (hp : p ∈ commentLines lines) :
    commentDiag "unused_ignore" p.1 p.2 ∈ unusedRaws lines st.used ↔
      ∀ r ∈ nub (raw.filter (counted en)), covers lines p.1 r = false := by
  rw [unused_pointwise en lines raw st hrun hwf p hp]
  have := credited_iff_covers hu p.1
  constructor
  · intro h r hr
    cases hc : covers lines p.1 r with
    | false => rfl
    | true =>
      obtain ⟨r', hr', h'⟩ := this.mpr ⟨r, hr, hc⟩
      exact absurd h' (h r' hr')
  · intro h r hr e
    obtain ⟨r', hr', h'⟩ := this.mp ⟨r, hr, e⟩
    rw [h r' hr'] at h'
    cases h'

/-- **Regression (`lineOneWrap`).** Before 0cba813 the last-line comment of `wrapLines` suppressed
the line-1 diagnostic *and* was reported unused (index -1 was recorded as used). -/
theorem old_unused_wrap_witness :
    ∃ st, oldRun allOn wrapLines {} wrapRaw = some st ∧ st.fails = [] ∧
      commentDiag "unused_ignore" 1 wrapLines[1] ∈ unusedRaws wrapLines st.used := by
  refine ⟨{ seen := [⟨.ast 0, .inl "incompatible_assignment"⟩], used := [-1], fails := [] }, by decide, rfl, by decide⟩

/-! ## Routes to `disable` -/

/-- Command line (`-d code`, i.e. `settings[code] = False` → a `from_command_line` instance in
`prepare_constructor_kwargs`): the code is off whatever the configuration files say, … -/
theorem disable_by_command_line (code : String) (insts : List Inst) (path : List String)
    (dflt : String → Bool) (h : ∀ y ∈ insts, y.name = code → y.fromCmd = false) :
    isErrorCodeEnabled ({ name := code, value := false, fromCmd := true } :: insts) path dflt code = false :=
  isErrorCodeEnabled_cmdline_off code insts path dflt h

/-- … and no other code is affected by an instance for `code` (any route). -/
theorem disable_leaves_other_codes (x : Inst) (insts : List Inst) (path : List String)
    (dflt : String → Bool) (code : String) (h : x.name ≠ code) :
    isErrorCodeEnabled (x :: insts) path dflt code = isErrorCodeEnabled insts path dflt code :=
  isErrorCodeEnabled_other x insts path dflt code h

/-! ## Every combination of routes: the stack of layers -/

/-- **enabled_stack_is_documented_precedence (full strength).** For every settings dict (however
built), every stack of configuration files (main file, extended file, …; top-level entries and
per-module overrides, any number, any order), every module path and every default: the value the
sort-based lookup of `Options.is_error_code_enabled` finds is the documented precedence — command
line, else per file in `extend_config` order the most specific applicable override (first of equals)
else the top-level entry, else the built-in default. `CfgFile.wf` (override module paths are
non-empty) is a scope predicate: `str.split` never returns an empty list. -/
theorem enabled_stack_is_documented_precedence (s : List (String × Bool)) (files : List CfgFile)
    (hwf : ∀ f ∈ files, f.wf = true) (path : List String) (dflt : String → Bool) (code : String) :
    enabledStack s files path dflt code = specEnabled (lookupFirst s code) files path dflt code :=
  enabledStack_spec s files hwf path dflt code

/-- **cmdline_settings_value (full strength).** The settings dict `main()` builds says about a code
what the flags say: `-d` beats `-e` beats `--enable-all` / `--disable-all`. -/
theorem cmdline_settings_value (c : Cli) (allCodes : List String) (code : String) :
    lookupFirst (c.settings allCodes) code = c.value allCodes code :=
  settings_value c allCodes code

/-- **cmdline_wins (full strength).** Whatever the command line says about a code is its
enabled-ness — whatever the configuration files contain (well-formed or not) and *whatever the
built-in default is*; in particular an entry equal to the default is not redundant. -/
theorem cmdline_wins (c : Cli) (allCodes : List String) (files : List CfgFile) (path : List String)
    (dflt : String → Bool) (code : String) (v : Bool) (h : c.value allCodes code = some v) :
    enabledStack (c.settings allCodes) files path dflt code = v :=
  cmd_front _ files path dflt code v (by rw [settings_value]; exact h)

/-- **stack_projection (full strength).** Under any stack of layers the check produces exactly the
spec's diagnostics for the documented enabled-ness: the counted first occurrences whose code the
precedence switches on and that no ignore comment targets, then the end-of-file reports. -/
theorem stack_projection (c : Cli) (allCodes : List String) (files : List CfgFile)
    (hf : ∀ f ∈ files, f.wf = true) (path : List String) (dflt : String → Bool)
    (lines : List Line) (raw : List Raw) (hwf : RawWF lines raw = true) (hast : RawAst raw = true) :
    ∃ st, check (enabledStack (c.settings allCodes) files path dflt) lines raw = some st ∧
      st.fails = specCheck (fun code => specEnabled (c.value allCodes code) files path dflt code) lines raw := by
  have e : enabledStack (c.settings allCodes) files path dflt =
      fun code => specEnabled (c.value allCodes code) files path dflt code := by
    funext code
    rw [enabledStack_spec _ files hf, settings_value]
  rw [e]
  exact check_eq_spec_aux _ lines raw hwf hast

/-- **disable_on_any_stack_is_projection (full strength).** Adding `-d` for the codes of `S` to any
command line, on top of any configuration stack and any defaults, removes exactly the failures
carrying a code of `S` (visitor phase, as `disable_is_projection`). -/
theorem disable_on_any_stack_is_projection (S : List String) (c : Cli) (allCodes : List String)
    (files : List CfgFile) (path : List String) (dflt : String → Bool) (lines : List Line) (raw : List Raw)
    (st : St) (h : run (enabledStack (c.settings allCodes) files path dflt) lines {} raw = some st) :
    ∃ st2, run (enabledStack ({ c with disable := c.disable ++ S }.settings allCodes) files path dflt)
        lines {} raw = some st2 ∧
      st2.fails = st.fails.filter fun r => !codeIn S r := by
  have e : enabledStack ({ c with disable := c.disable ++ S }.settings allCodes) files path dflt =
      disable S (enabledStack (c.settings allCodes) files path dflt) := by
    funext code
    unfold disable
    by_cases hS : S.contains code = true
    · have hv : ({ c with disable := c.disable ++ S } : Cli).value allCodes code = some false := by
        unfold Cli.value
        have : (c.disable ++ S).contains code = true := by
          rw [List.contains_iff_mem] at hS ⊢; exact List.mem_append_right _ hS
        simp only [this, if_true]
      rw [cmdline_wins _ allCodes files path dflt code false hv, hS]; simp
    · simp only [Bool.not_eq_true] at hS
      rw [hS, Bool.not_false, Bool.and_true]
      have hv : ({ c with disable := c.disable ++ S } : Cli).value allCodes code = c.value allCodes code := by
        unfold Cli.value
        have : (c.disable ++ S).contains code = c.disable.contains code := by
          rw [Bool.eq_iff_iff, List.contains_iff_mem, List.contains_iff_mem, List.mem_append]
          rw [← List.contains_iff_mem (a := code) (as := S), hS]
          simp
        simp only [this]
      unfold enabledStack stackInsts
      rw [isErrorCodeEnabled_eq, isErrorCodeEnabled_eq, rel_append, rel_append]
      have hs := settings_front code path (({ c with disable := c.disable ++ S } : Cli).settings allCodes)
      have hs0 := settings_front code path (c.settings allCodes)
      rw [settings_value, hv, ← settings_value] at hs
      -- both command lines say the same about `code`, and only that enters the lookup
      by_cases hE : rel code path (settingsInsts (c.settings allCodes)) = []
      · have hE' : rel code path (settingsInsts (({ c with disable := c.disable ++ S } : Cli).settings allCodes)) = [] := by
          rw [hE] at hs0
          rw [← hs0] at hs
          cases hr : rel code path (settingsInsts (({ c with disable := c.disable ++ S } : Cli).settings allCodes)) with
          | nil => rfl
          | cons a as =>
            rw [hr] at hs
            cases hm : minFirst (a :: as) with
            | none => exact absurd (minFirst_eq_none hm) (by simp)
            | some m => rw [hm] at hs; cases hs
        rw [hE, hE']
      · have hE' : rel code path (settingsInsts (({ c with disable := c.disable ++ S } : Cli).settings allCodes)) ≠ [] := by
          intro e0
          rw [e0] at hs
          cases hm : minFirst (rel code path (settingsInsts (c.settings allCodes))) with
          | none => exact hE (minFirst_eq_none hm)
          | some m => rw [hm] at hs0; rw [← hs0] at hs; cases hs
        have cmdle : ∀ (s : List (String × Bool)), ∀ x ∈ rel code path (settingsInsts s),
            ∀ y ∈ rel code path (filesInsts 0 files), x.le y = true := by
          intro s x hx y hy
          have hx' := mem_rel hx
          have hy' := filesInsts_props (mem_rel hy)
          unfold settingsInsts at hx'
          obtain ⟨a, _, rfl⟩ := List.mem_map.mp hx'
          unfold Inst.le
          simp [hy'.1]
        rw [minFirst_append_left hE (cmdle _), minFirst_append_left hE' (cmdle _), hs, hs0]
  rw [e]
  exact disable_is_projection S _ lines raw st h

/-! ## Several modules in one run -/

/-- **modules_independent (full strength).** In a run over several modules each module's result is
the result of checking that module alone with the enabled-ness of *its* module path — whatever was
checked before it and after it, in every order. (Immediate in the model, which carries no state
from one module to the next; the `layers` stream ties the implementation to it by checking several
modules in one run in every order, and the obligation `options_state_registered` pins the mutable
state and caches `options.py` has.) -/
theorem modules_independent (en : List String → String → Bool) (pre post : List Module) (m : Module) :
    runModules en (pre ++ m :: post) =
      runModules en pre ++ check (en m.path) m.lines m.raw :: runModules en post := by
  simp [runModules]

/-- Order form: permuting the modules permutes the results. -/
theorem modules_order_irrelevant (en : List String → String → Bool) (ms ms' : List Module)
    (h : ms.Perm ms') : (runModules en ms).Perm (runModules en ms') :=
  h.map _

/-- With per-module overrides: under one stack, a module to which an override applies and a module
to which it does not are each checked with their own documented precedence. -/
theorem modules_stack_projection (c : Cli) (allCodes : List String) (files : List CfgFile)
    (hf : ∀ f ∈ files, f.wf = true) (dflt : String → Bool) (ms : List Module) :
    runModules (fun path => enabledStack (c.settings allCodes) files path dflt) ms =
      ms.map fun m => check (fun code => specEnabled (c.value allCodes code) files m.path dflt code) m.lines m.raw := by
  unfold runModules
  apply List.map_congr_left
  intro m _
  congr 1
  funext code
  show enabledStack (c.settings allCodes) files m.path dflt code = _
  rw [enabledStack_spec _ files hf, settings_value]

/-! ## Non-vacuity: the hypotheses are met by non-trivial inputs -/

def exLines : List Line :=
  ["import os".toList, "def f():".toList, "    return undefined_a + os.nope".toList, "f(1)".toList]
def exRaw : List Raw :=
  [{ node := .ast 0, code := some "undefined_name", pos := some (3, 11) },
   { node := .ast 1, code := some "undefined_attribute", pos := some (3, 25) },
   { node := .ast 0, code := some "undefined_name", pos := some (3, 11) },      -- duplicate (second phase)
   { node := .ast 2, code := some "incompatible_call", pos := some (4, 0) },
   { captured := true, node := .ast 2, code := some "incompatible_call", pos := some (4, 0) }]

example : NoIgnore exLines = true ∧ RawWF exLines exRaw = true ∧ RawAst exRaw = true := by decide
example : plainCode exLines[2] = true ∧ (Sel.code "undefined_name").ok = true := by decide
-- the trailing comment removes one of three failures
example : (run allOn exLines {} exRaw).map (·.fails.length) = some 3 := by decide
example : (run allOn (exLines.set 2 (withTrailing exLines[2] (.code "undefined_name"))) {} exRaw).map
    (·.fails.length) = some 2 := by decide
-- own-line position that is not in the leading block; file-level position (`i = 0`)
example : (decide (1 ≤ 4) || (exLines.take 2).any (fun l => l.head? != some '#')) = true := by decide
example : (exLines.take 0).all (fun l => l.head? == some '#') = true := by decide
-- a file with comments on which both end-of-file reports fire
example : (check allOn ["# static analysis: ignore[x]".toList, "y = 1  # static analysis: ignore".toList] []).map
      (·.fails.length) = some 3 := by decide
-- own-line comment after the last line: a legal position of `ownline_ignore_exact`
example : (2 : Nat) ≤ ["w: int = \"s\"".toList, "x = 1".toList].length ∧
    (run allOn (insertAt ["w: int = \"s\"".toList, "x = 1".toList] 2 (ownLine 0 .bare)) {}
      (wrapRaw.map (Raw.shift 2))).map (·.fails) = some wrapRaw := by decide
-- a source with \r\n and \r line ends, a comment and a diagnostic
example : D11_splitlinesMismatch "x = y  # static analysis: ignore\r\nz = 1\rw = 2\n".toList = false ∧
    (tokLines "x = y  # static analysis: ignore\r\nz = 1\rw = 2\n".toList).length = 3 := by decide
-- a used and an unused comment in one file, no overlap
example : UniqueCover allOn
    ["y = 1  # static analysis: ignore[a]".toList, "# static analysis: ignore[b]".toList, "z = 2".toList]
    [{ node := .ast 0, code := some "a", pos := some (1, 0) }, { node := .ast 1, code := some "a", pos := some (3, 0) }] = true := by
  decide
-- a stack with every layer: `-d a` against config `a = true` and default off; an override of the extended
-- file loses against the main file's top level; the most specific override wins inside a file
def exFiles : List CfgFile :=
  [{ top := [("a", true), ("b", false)],
     overrides := [(["pkg"], [("c", false)]), (["pkg", "sub"], [("c", true)]), (["other"], [("b", true)])] },
   { top := [("d", true)], overrides := [(["pkg", "sub", "m"], [("b", true)])] }]
example : (∀ f ∈ exFiles, f.wf = true) := by decide
example : ({ disable := ["a"] } : Cli).value ["a", "b", "c", "d"] "a" = some false ∧
    enabledStack (({ disable := ["a"] } : Cli).settings ["a", "b", "c", "d"]) exFiles ["pkg", "sub", "m"] (fun _ => false) "a" = false ∧
    enabledStack [] exFiles ["pkg", "sub", "m"] (fun _ => false) "a" = true ∧
    enabledStack [] exFiles ["pkg", "sub", "m"] (fun _ => true) "b" = false ∧
    enabledStack [] exFiles ["pkg", "sub", "m"] (fun _ => false) "c" = true ∧
    enabledStack [] exFiles ["pkg", "sub", "m"] (fun _ => false) "d" = true ∧
    enabledStack (({ disableAll := true, enable := ["e"] } : Cli).settings ["d", "e"]) exFiles ["pkg"] (fun _ => true) "d" = false := by
  decide
-- the hypothesis of `disable_is_projection_check_partial` in its three forms
example : (!allOn "unused_ignore" || ["unused_ignore"].contains "unused_ignore" || NoIgnore wrapLines) = true := by decide
example : (!allOn "unused_ignore" || ["undefined_name"].contains "unused_ignore" || NoIgnore exLines) = true := by decide
example : ∀ y ∈ ([{ name := "undefined_name", value := true, applicableTo := ["pkg"] }] : List Inst),
    y.name = "undefined_name" → y.fromCmd = false := by decide

end Pya.C11
