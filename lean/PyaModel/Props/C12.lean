import PyaModel.Proofs.C12
/-!
# Props/C12 — totality: no crash, no internal error, well-formed output

Property theorems only. What is (and is not) carried by a theorem here — see DESIGN §6/C12:

* **Whole-program crash-freedom is not a theorem.** It is searched by the grammar fuzzer of
  harness/props/c12.py. The one crash mechanism that had a model — the dispatch of
  `annotations._Visitor` — has been repaired (9c1e869); section 1 states the new behaviour at full
  strength and keeps the old one as regression witnesses.
* **Diagnostic well-formedness** is proved on the emit model (Core/Render.lean, `check` = C11's filter
  plus the construction of the `Failure` record): section 2.
* **Value API**: the models `ca`, `unite`, `subst` (Core/Assign.lean, Core/Union.lean) are total
  functions by construction; section 3 states the structural facts behind that (every sub-value is
  smaller; `unite` / `subst` do not blow up; a recursion budget equal to the nesting depth suffices).

Exception classes (Spec/Total.lean): `D12_unsupportedAnnotNode` (only for the pre-9c1e869 visitor `oldAnnVisit`);
`D12_noPosition`, `D12_noCode`, `D12_emptyMessage` on `show_error` calls.
-/
namespace Pya.C12
open Pya Pya.C11

/-! ## 1. the annotation visitor (`annotations._Visitor`)

Since fix 9c1e869 `generic_visit` reports `"Unsupported syntax in annotation: <Kind>"` and returns
`Any` instead of raising; `annVisit` (Core/AnnVisit.lean) returns the kinds reported, in order, and the
callee class of the value. `oldAnnVisit` is the visitor before the fix: its theorems are kept as
regression witnesses (`old_…`). -/

/-- **Full statement** — now true: visiting an annotation expression always returns (a list of
reported kinds and a value). The model has no raising outcome any more because the code has none; that
the *real* visitor never raises is what the `annot` correspondence stream checks (any exception there
is a new violation). -/
def AnnTotal (sup : String → Bool) : Prop := ∀ e : AExpr, ∃ errs c, annVisit sup e = (errs, c)

/-- **C12 for the annotation visitor, full strength**: no exception class is left. -/
theorem annVisit_total (sup : String → Bool) : AnnTotal sup := fun _ => ⟨_, _, rfl⟩

/-- Every kind reported as unsupported has no `visit_` method and occurs in the expression: a node
outside the supported set produces exactly the errors the model lists, nothing else is reported by
this mechanism. Full strength. -/
theorem annVisit_errors_unsupported (sup : String → Bool) (e : AExpr) (k : String)
    (h : k ∈ (annVisit sup e).1) : sup k = false ∧ k ∈ e.kinds :=
  annVisit_errors sup e k h

/-- An annotation without unsupported node kinds is visited without any such report. -/
theorem annVisit_clean_of_supported (sup : String → Bool) (e : AExpr)
    (h : D12_unsupportedAnnotNode sup e = false) : ∃ c, annVisit sup e = ([], c) :=
  annVisit_clean sup e h

/-- **The repair changed nothing else**: where the old visitor raised on a node of kind `k`, the new one
reports `k` first (and goes on); where the old one returned a value, the new one returns the same
callee class and reports nothing. Full strength (every table, every expression). -/
theorem old_new_agree (sup : String → Bool) (e : AExpr) :
    (∀ k, oldAnnVisit sup e = .raise k → ∃ rest, (annVisit sup e).1 = k :: rest) ∧
    (∀ c, oldAnnVisit sup e = .ok c → annVisit sup e = ([], c)) := by
  have h := old_new sup e
  constructor
  · intro k hk; rw [hk] at h; exact h
  · intro c hc; rw [hc] at h; exact h

/-- Regression obligation over the regenerated table: every `visit_` method of the pinned tree still
exists (a node kind that drops out of the table is now *reported* for every annotation using it). -/
theorem liveSup_covers_pinned :
    ∀ k ∈ ["Attribute", "BinOp", "Call", "Constant", "Dict", "Expr", "List", "Name", "Set", "Subscript", "Tuple", "UnaryOp"],
      liveSup k = true := by decide

/-! ### regression witnesses: the visitor before fix 9c1e869 (`oldAnnVisit`) -/

/-- the old full statement -/
def OldAnnTotal (sup : String → Bool) : Prop := ∀ e : AExpr, ∃ c, oldAnnVisit sup e = .ok c

/-- old visitor: no crash outside `unsupportedAnnotNode` -/
theorem old_annVisit_total_partial (sup : String → Bool) (e : AExpr)
    (hD : D12_unsupportedAnnotNode sup e = false) : ∃ c, oldAnnVisit sup e = .ok c :=
  oldAnnVisit_ok sup e hD

/-- old visitor: a raise names an unsupported kind occurring in the expression -/
theorem old_annVisit_raise_unsupported (sup : String → Bool) (e : AExpr) (k : String)
    (h : oldAnnVisit sup e = .raise k) : sup k = false ∧ k ∈ e.kinds :=
  oldAnnVisit_raise sup e k h

/-- `"tuple[int, *tuple[str, ...]]"`: the old visitor raised on the `Starred` node; the new one reports
exactly that kind once and returns. -/
theorem old_starred_witness :
    D12_unsupportedAnnotNode pinnedSup (.sub (.name none) (.tuple [.name none, .other "Starred"])) = true ∧
    oldAnnVisit pinnedSup (.sub (.name none) (.tuple [.name none, .other "Starred"])) = .raise "Starred" ∧
    annVisit pinnedSup (.sub (.name none) (.tuple [.name none, .other "Starred"])) = (["Starred"], none) := by
  refine ⟨?_, ?_, ?_⟩ <;> decide

/-- hence the old full statement was false -/
theorem old_annTotal_false : ¬ OldAnnTotal pinnedSup := fun h => by
  obtain ⟨c, hc⟩ := h (.sub (.name none) (.tuple [.name none, .other "Starred"]))
  rw [old_starred_witness.2.1] at hc
  cases hc

/-! Non-vacuity: several unsupported nodes are all reported, in visiting order; an unsupported node
below a callee that is not one of the special constructors is never reached. -/
example : annVisit pinnedSup (.tuple [.other "Lambda", .name none, .sub (.name none) (.other "Slice")]) = (["Lambda", "Slice"], none) := by decide
example : annVisit pinnedSup (.call (.name none) [.other "Lambda"] []) = ([], none) := by decide
example : annVisit pinnedSup (.call (.name (some .typeVar)) [.const, .other "Lambda"] [.other "IfExp"]) = (["Lambda", "IfExp"], none) := by decide
example : D12_unsupportedAnnotNode pinnedSup
    (.binop true (.sub (.name none) (.attr (.name none) none)) (.call (.name (some .newType)) [.const, .name none] [])) = false := by decide

/-! ## 1b. runtime annotations: the recursion guard of `_type_from_runtime` (Core/Tfr.lean) -/

/-- **Evaluation of a runtime annotation terminates, cycles included**: if every route of the ForwardRef
branch that re-enters the evaluator does so inside `ctx.add_evaluation(val)` (`unguarded = false`), then
for every graph of typing objects — any number of ForwardRefs, evaluated or not, pointing anywhere,
recursive and mutually recursive aliases included — and every start node and guard set,
`tfrBound g gs n = (#ForwardRefs not yet being evaluated) · (|g| + 1) + n + 1` frames suffice: the
result contains no `exhausted` (no `RecursionError`). In particular at most `|g|` ForwardRef
unfoldings are ever nested. Full strength. -/
theorem tfr_terminates (g : RGraph) (fuel : Nat) (gs : List Nat) (n : Nat) (h : tfrBound g gs n ≤ fuel) :
    (tfr false g fuel gs n).hasExh = false :=
  tfr_no_exh g fuel gs n h

/-- **Regenerated obligation**: in the live source every `return` of the ForwardRef branch that
re-enters the evaluator sits inside `with ctx.add_evaluation(val)` — so the live tree is the
`unguarded = false` instance `tfr_terminates` speaks about. A new route around the guard breaks this. -/
theorem forwardref_routes_guarded : liveUnguarded = false := by decide

/-- **Why the guard must be on every route**: with a route that skips it for references typing has
already resolved, the two-node graph `Json = List["Json"]` (reference evaluated) exhausts every
budget, from either node. -/
theorem tfr_unguarded_diverges (fuel : Nat) :
    (tfr true cyclicEvaluated fuel [] 1).hasExh = true ∧ (tfr true cyclicEvaluated fuel [] 0).hasExh = true :=
  unguarded_diverges fuel

/-- The driver decides "does the evaluation exhaust the budget" with the short-circuiting `tfrDiverges`
instead of building the (possibly exponentially large) result: the two agree for every graph, budget,
guard set and node, guarded or not. -/
theorem tfrDiverges_spec (ug : Bool) (g : RGraph) (fuel : Nat) (gs : List Nat) (n : Nat) :
    tfrDiverges ug g fuel gs n = (tfr ug g fuel gs n).hasExh :=
  tfrDiverges_eq ug g fuel gs n

/-! Non-vacuity: the same graph under the guard gives `list[list[Any]]` within the bound (5 frames). -/
example : tfrBound cyclicEvaluated [] 1 = 5 := by decide
example : (tfr false cyclicEvaluated 5 [] 1).show = "(A (A any))" := by decide
example : (tfr false [.leaf 0, .fref 3 false, .app [0, 1], .app [2, 1]] 9 [] 3).show = "(A (A L0 (A (A L0 any) any)) (A (A L0 any) any))" := by decide

/-! ## 1c. constant folding: every site that executes an operation on known values catches everything -/

/-- **Regenerated obligation**: every `try:` in name_check_visitor / implementation / format_strings / boolability / predicates /
value whose body executes an operation on statically known values has a handler for `Exception` (or is on the
explicit waiver list `foldWaivers`, each with its reason). Narrowing a clause (`except (TypeError, ValueError)` around
`format(...)`: a valid spec raises `OverflowError` on `f"{-1:c}"`) breaks this. -/
theorem fold_sites_catch_all : foldSitesOk Gen.foldSites = true := by decide

/-- … and none of the pinned guarded sites has lost its `try:`. -/
theorem fold_sites_present : foldSitesPresent Gen.foldSites = true := by decide

/-- … and no fold expression outside every `try:` has appeared that the pinned tree did not have. -/
theorem unguarded_folds_known : unguardedFoldsKnown Gen.unguardedFolds = true := by decide

/-! Non-vacuity: the predicate does reject the seeded narrowing. -/
example : foldSitesOk [("name_check_visitor.py", "NameCheckVisitor._visit_single_formatted_value", ["TypeError", "ValueError"])] = false := by decide
example : foldSitesPresent [] = false := by decide

/-- **Regenerated obligation**: the %-template pattern is the pinned one. The parsers of the two template
mini-languages are modelled in C17 (`Core/Format.lean`: the scanner / parse functions are total by
construction, and C17's correspondence compares them with `format_strings.py`); what C12 adds is the search —
templates generated from the *grammars* of %-format and str.format (every optional part, every conversion, str
and bytes, matching and non-matching arguments) must check without an exception — and this pin: an edit of the
pattern (e.g. allowing an empty precision, which makes `int(precision[1:])` raise) breaks it and triggers the
widened search. -/
theorem format_regex_pinned : Gen.formatStringRegex = pinnedFormatRegex := by rfl

/-! ## 2. diagnostics are well-formed (`BaseNodeVisitor.show_error`) -/

/-- The live registry has a non-empty description for every code and contains the two codes the
end-of-file passes report (obligation over the regenerated table). -/
theorem liveReg_ok : liveReg.descrOk = true ∧ liveReg.has "unused_ignore" = true ∧ liveReg.has "bare_ignore" = true ∧
    liveReg.has "internal_error" = true := by
  refine ⟨?_, ?_, ?_, ?_⟩ <;> decide

/-- **No `IndexError` / `AssertionError` escapes `show_error`**: if every call of the visitor names a
registered code and has a position inside the file, the whole emission phase (visitor stream,
unused-ignore pass, bare-ignore pass) returns. For every file, registry, enablement and call list. -/
theorem emit_total (env : Env) (lines : List Line) (calls : List Call)
    (hu : env.reg.has "unused_ignore" = true) (hb : env.reg.has "bare_ignore" = true)
    (hin : ∀ c ∈ calls, c.inFile env.reg lines = true) : ∃ st, check env lines calls = some st := by
  obtain ⟨st1, h1⟩ := run_isSome env lines calls {} hin
  obtain ⟨st2, h2⟩ := run_isSome env lines (unusedCalls "unused_ignore" lines st1.used) st1
    (unusedCalls_inFile env.reg lines st1.used _ hu)
  obtain ⟨st3, h3⟩ := run_isSome env lines (bareCalls "bare_ignore" lines) st2 (bareCalls_inFile env.reg lines _ hb)
  unfold check
  simp only [h1, h2]
  split
  · exact ⟨_, rfl⟩
  · exact ⟨st3, h3⟩

/-- **Full statement** (false: `emitWellFormed_false`): whatever the visitor hands to `show_error`,
every record in `all_failures` is well-formed. -/
def EmitWellFormed : Prop :=
  ∀ (env : Env) (lines : List Line) (calls : List Call) (st : St), env.reg.descrOk = true →
    check env lines calls = some st → ∀ f ∈ st.fails, wellFormed env.reg lines f = true

/-- **`emit_wellformed`**: if every `show_error` call of the visitor names a registered code, has a
node position inside the file (`1 ≤ lineno ≤ #lines`, `col_offset ≤` length of that line) and does not
pass an empty message, then **every** emitted failure — including the ones the two end-of-file passes
make up themselves from `_FakeNode`s — carries a registered code, a line number inside the file, a
column inside that line, a non-empty description and a non-empty message. Any file, any registry
with non-empty descriptions, any enablement, any number of calls. -/
theorem emit_wellformed (env : Env) (lines : List Line) (calls : List Call) (st : St)
    (hok : env.reg.descrOk = true)
    (hu : env.reg.has "unused_ignore" = true) (hb : env.reg.has "bare_ignore" = true)
    (hin : ∀ c ∈ calls, c.inFile env.reg lines = true)
    (h : check env lines calls = some st) : ∀ f ∈ st.fails, wellFormed env.reg lines f = true := by
  have step : ∀ (cs : List Call) (s s' : St), (∀ c ∈ cs, c.inFile env.reg lines = true) →
      run env lines s cs = some s' → (∀ f ∈ s.fails, wellFormed env.reg lines f = true) →
      ∀ f ∈ s'.fails, wellFormed env.reg lines f = true := by
    intro cs s s' hcs hr h0
    exact run_inv env lines (fun f => wellFormed env.reg lines f = true) cs s s' hr h0
      (fun c hc e he => render_wf env lines c e hok (hcs c hc) he)
  unfold check at h
  cases h1 : run env lines {} calls with
  | none => simp [h1] at h
  | some st1 =>
    simp only [h1] at h
    have w1 := step calls {} st1 hin h1 (by intro f hf; cases hf)
    cases h2 : run env lines st1 (unusedCalls "unused_ignore" lines st1.used) with
    | none => simp [h2] at h
    | some st2 =>
      simp only [h2] at h
      have w2 := step _ st1 st2 (unusedCalls_inFile env.reg lines st1.used _ hu) h2 w1
      split at h
      · simp at h; subst h; exact w2
      · exact step _ st2 st (bareCalls_inFile env.reg lines _ hb) h w2

/-- The same for the live registry: the only hypothesis left is the one on the visitor's calls. -/
theorem emit_wellformed_live (en : String → Bool) (fname : String) (lines : List Line) (calls : List Call) (st : St)
    (hin : ∀ c ∈ calls, c.inFile liveReg lines = true)
    (h : check { reg := liveReg, en := en, fname := fname, ctxLines := Gen.contextLines } lines calls = some st) :
    ∀ f ∈ st.fails, wellFormed liveReg lines f = true :=
  emit_wellformed _ lines calls st liveReg_ok.1 liveReg_ok.2.1 liveReg_ok.2.2.1 hin h

/-- The positions the model itself makes up (`_FakeNode(i + 1, line.index(IGNORE_COMMENT))`) lie
inside the file — this is what `emit_wellformed` needs from the two end-of-file passes. -/
theorem fake_positions_inside (reg : Reg) (lines : List Line) (used : List Int)
    (hu : reg.has "unused_ignore" = true) (hb : reg.has "bare_ignore" = true) :
    (∀ c ∈ unusedCalls "unused_ignore" lines used, c.inFile reg lines = true) ∧
    (∀ c ∈ bareCalls "bare_ignore" lines, c.inFile reg lines = true) :=
  ⟨unusedCalls_inFile reg lines used _ hu, bareCalls_inFile reg lines _ hb⟩

/-- class `noPosition`: a call whose node is `None` (or has no `lineno` / `col_offset`) is rendered
to a record without line number — never well-formed. -/
theorem noPosition_illformed (reg : Reg) (n : Nat) (fname : String) (lines : List Line) (c : Call) (e : String)
    (h : D12_noPosition c = true) : wellFormed reg lines (render n fname lines c e) = false := by
  have : c.pos = none := by simpa [D12_noPosition] using h
  simp [wellFormed, render, this]

/-- class `noCode`: a call without an error code is rendered to a record without code. -/
theorem noCode_illformed (reg : Reg) (n : Nat) (fname : String) (lines : List Line) (c : Call) (e : String)
    (h : D12_noCode c = true) : wellFormed reg lines (render n fname lines c e) = false := by
  have : c.code = none := by simpa [D12_noCode] using h
  simp [wellFormed, render, this]

/-- class `emptyMessage`: an empty message text gives an empty description. -/
theorem emptyMessage_illformed (reg : Reg) (n : Nat) (fname : String) (lines : List Line) (c : Call) :
    wellFormed reg lines (render n fname lines c "") = false := by
  simp [wellFormed, render]

/-- `show_error(None, "boom", ErrorCode.internal_error)` on an empty file — the call
`NameCheckVisitor.check` itself makes in its catch-all (name_check_visitor.py:1345). -/
def catchAllCall : Call := { node := .none, code := some "internal_error", e := some "boom", pos := none }

/-- the state after that single call -/
def catchAllState : St :=
  { seen := [catchAllCall.key], used := [], fails := [render 3 "m.py" [] catchAllCall "boom"] }

/-- **Witness**: that call is emitted and its record is ill-formed, so the full statement is false —
the hypothesis "positions lie inside the file" of `emit_wellformed` cannot be dropped. -/
theorem emitWellFormed_false : ¬ EmitWellFormed := fun h => by
  let env : Env := { reg := liveReg, en := fun _ => true, fname := "m.py" }
  have hc : check env [] [catchAllCall] = some catchAllState := by
    simp [check, run, showError, catchAllCall, catchAllState, fileLevelIdx, Call.text, unusedCalls, bareCalls, zipIdxFrom, env]
  have := h env [] [catchAllCall] _ liveReg_ok.1 hc (render 3 "m.py" [] catchAllCall "boom") (by simp [catchAllState])
  rw [noPosition_illformed liveReg 3 "m.py" [] catchAllCall "boom" (by decide)] at this
  cases this

/-! Non-vacuity of `emit_wellformed`: a two-line file, a diagnostic on line 1 and an unused ignore
comment on line 2 — the hypothesis holds and two records come out. -/
example : (Call.inFile liveReg ["x = y".toList, "# static analysis: ignore".toList]
    { node := .ast 0, code := some "undefined_name", e := some "Undefined name: y", pos := some (1, 4) }) = true := by decide

/-! ## 3. the value API: structural facts behind totality -/

/-- **Every sub-value is strictly smaller** (node count): the recursive methods of `value.py`
(`can_assign`, `substitute_typevars`, `walk_values`, `__eq__`, `__hash__`, …) descend only into
`tchildren`, so each nested call is on a smaller term. -/
theorem child_smaller (c t : Ty) (h : c ∈ tchildren t) : tsize c < tsize t ∧ tdepth c < tdepth t :=
  ⟨child_size_lt h, child_depth_lt h⟩

/-- The list helpers of the assignability model are plain quantifiers over `ca`, and the three
clauses that do not look at the expected type recurse on a strict sub-term of the actual one:
`Annotated[t]` → `t`, a union → each member. Full strength (every table, both modes, every term). -/
theorem ca_recursion_shape (tbl : ClassTable) (x : Bool) (e t : Ty) (bs es : List Ty) :
    caAllR tbl x e bs = bs.all (fun b => ca tbl x e b) ∧
    caAnyL tbl x es t = es.any (fun e' => ca tbl x e' t) ∧
    ca tbl x e (.annotated t) = ca tbl x e t ∧
    ca tbl x e (.union bs) = bs.all (fun b => ca tbl x e b) ∧
    ca tbl x .any t = true :=
  ⟨caAllR_eq_all tbl x e bs, caAnyL_eq_any tbl x t es, ca_annotated_right tbl x e t, ca_union_right tbl x e bs,
   ca_any_left tbl x t⟩

/-- **`unite_values` adds nothing**: the result is `Never`, a single member, or the union of
`uniteList vs`; every kept member is one of the flattened operands, there are at most as many of them,
and the weight of the result is bounded by the operands'. Full strength. -/
theorem unite_bounded (vs : List Ty) :
    unite vs = pack (uniteList vs) ∧
    (∀ x ∈ uniteList vs, x ∈ vs.flatMap flatten1) ∧
    (uniteList vs).length ≤ (vs.flatMap flatten1).length ∧
    tw (unite vs) ≤ 1 + twL vs :=
  ⟨unite_eq_pack vs, uniteList_sub vs, uniteList_length vs, tw_unite_le vs⟩

/-- **Substitution is bounded**: weight at most `weight × (largest image weight)`, depth at most
`depth + (largest image depth)`, for every map and every term (no closedness assumption). -/
theorem subst_bounded (m : TvMap) (t : Ty) :
    tw (subst m t) ≤ tw t * mapBound m ∧ tdepth (subst m t) ≤ tdepth t + mapDepth m :=
  ⟨tw_subst_le m t, tdepth_subst_le m t⟩

/-- **A recursion budget equal to the nesting depth suffices** for `substitute_typevars`, and an
exhausted budget is never silently a wrong answer: the budgeted evaluator returns exactly `subst m t`
or reports exhaustion. -/
theorem substF_adequate (m : TvMap) (n : Nat) (t : Ty) :
    (tdepth t ≤ n → substF n m t = some (subst m t)) ∧ (∀ r, substF n m t = some r → r = subst m t) :=
  ⟨substF_eq m n t, fun r h => substF_sound m n t r h⟩

/-! Non-vacuity: the bounds are attained / strict on small inputs. -/
example : tw (subst [(0, .union [.typed C.int, .typed C.str])] (.union [.tvar 0, .annotated (.generic C.list [.tvar 0])])) = 12 := by decide
example : substF 2 [(0, .typed C.int)] (.generic C.list [.generic C.list [.tvar 0]]) = none := by decide
example : substF 3 [(0, .typed C.int)] (.generic C.list [.generic C.list [.tvar 0]]) =
    some (.generic C.list [.generic C.list [.typed C.int]]) := by
  simp [substF, substFL, TvMap.get, List.find?]

end Pya.C12
