import PyaModel.Proofs.C13
import PyaModel.Generated.ArgSpecCaches
/-!
# Props/C13 — static and runtime views of declarations agree

Property theorems only. Model (Core/Annot.lean, Core/AnnotRoutes.lean): `astEval` = the AST / string
route (`type_from_ast`, `_Visitor`, `_type_from_subscripted_value`), `rtEval` = the runtime-object
route (`_type_from_runtime`, `_value_of_origin_args`), `visEval` = an annotation in checked source
(`NameCheckVisitor.value_of_annotation`), `fromDef` = `compute_parameters` on the def node,
`fromRuntime` = `ArgSpecCache.from_signature` on the function object. Spec parameters
(Spec/AnnotSpec.lean): `tnorm` = what `typing` does to the expression, `inspectOf` = what
`inspect.signature` reports; both validated against the real modules on every run.
All evaluators return the value, the number of errors shown and the `UnpackedValue` flag; `none` =
the route raises.
-/
namespace Pya.C13

/-! ## 0. name resolution

Evaluators take a `Lookup` (what `ctx.get_name` answers); the three pieces of code that look a name
of an annotation up are `visLookup` (`NameCheckVisitor.resolve_name`: module scope, then builtins
scope), `globalsLookup` (`Context.get_name_from_globals`, used for the string annotations of a
function object) and `defaultLookup` (`_DefaultContext.get_name` with `globals=`). -/

/-- **Every route resolves every name identically; module globals shadow builtins (full).** For
every environment and every name: the visitor's scope walk, `get_name_from_globals` and
`_DefaultContext.get_name` give the same answer — the module's binding when there is one, else the
builtin, else undefined. -/
theorem names_resolve_alike (env : NameEnv) (n : Nat) (hn : n < attrBase) :
    visLookup env n = globalsLookup env n ∧ defaultLookup env n = globalsLookup env n ∧
    (env.late.has n = true → globalsLookup env n = env.late.get n) ∧
    (env.late.has n = false → globalsLookup env n = env.builtins.get n) := by
  refine ⟨congrFun (lookups_eq env).1 n, rfl, fun h => by simp [globalsLookup, withAttrs, hn, h], fun h => ?_⟩
  by_cases hb : env.builtins.has n = true
  · simp [globalsLookup, withAttrs, hn, h, hb]
  · have : env.builtins.get n = none := by
      simp only [Bindings.has, List.any_eq_true, not_exists, not_and, Bool.not_eq_true] at hb
      simp only [Bindings.get, Option.map_eq_none_iff, List.find?_eq_none]
      intro x hx; simpa using hb x hx
    simp [globalsLookup, withAttrs, hn, h, hb, this]

/-- **Every route resolves every attribute of a dotted name identically (full).** For every
environment, container object `k` and attribute `a`: the visitor-backed context, the context of a
function object's string annotations, `type_from_ast` with `globals=` and CPython evaluating the
expression all answer `getattr(k, a)` — the environment's one attribute table, whatever mechanism
provides the attribute (a `__dict__` entry, a submodule, a module-level `__getattr__`, a metaclass
`__getattr__`, a property, the MRO, an instance attribute). Trivial in the model, which is the point:
the streams tie `Context.get_attribute`, the visitor's attribute machinery and CPython to it. -/
theorem attr_routes_agree (env : NameEnv) (k a : Nat) :
    visLookup env (attrKey k a) = env.attrs.get (attrKey k a) ∧
    globalsLookup env (attrKey k a) = env.attrs.get (attrKey k a) ∧
    defaultLookup env (attrKey k a) = env.attrs.get (attrKey k a) ∧
    pyLookup env (attrKey k a) = env.attrs.get (attrKey k a) := by
  have h : ¬ attrKey k a < attrBase := by have := attrKey_ge k a; omega
  simp [visLookup, globalsLookup, defaultLookup, pyLookup, withAttrs, h]

/-- **The attribute primitives the model relies on (regenerated obligation).** -/
theorem annotation_attr_primitives_registered : attrPrimitives = registeredAttrPrimitives := by decide

/-- Consequently a dotted name `N.a₁.….aₖ` resolves alike in every route once its root does. -/
theorem dotted_routes_agree (env : NameEnv) (n : Nat) (p : List Nat)
    (hroot : pyLookup env n = visLookup env n) :
    resolveDotted (pyLookup env) n p = resolveDotted (visLookup env) n p ∧
    resolveDotted (globalsLookup env) n p = resolveDotted (visLookup env) n p ∧
    resolveDotted (defaultLookup env) n p = resolveDotted (visLookup env) n p := by
  have hg := (lookups_eq env).1
  have hd := (lookups_eq env).2
  refine ⟨?_, by rw [hg], by rw [hd, hg]⟩
  simp only [resolveDotted, hroot]
  cases visLookup env n with
  | none => rfl
  | some t =>
    exact chain_congr _ _ (fun m hm => by unfold pyLookup visLookup; exact withAttrs_attr env.attrs _ _ m hm) p t

/-- **A string annotation means the same wherever its names are looked up (full).** For every
expression (names shadowing builtins, builtin-only, module-only, undefined, defined after the def):
the quoted annotation in checked source (visitor scopes), the string annotation of the function
object (`f.__globals__`, e.g. every annotation under `from __future__ import annotations`) and
`type_from_ast` / `type_from_runtime` with `globals=` yield the same value, errors and flag. -/
theorem string_names_agree (env : NameEnv) (e : AnnExpr) (au : Bool) :
    visEval env au (.str e) = astEval (globalsLookup env) au e ∧
    rtEval (globalsLookup env) au (tnorm (.str e)) = astEval (globalsLookup env) au e ∧
    astEval (defaultLookup env) au e = astEval (globalsLookup env) au e := by
  refine ⟨?_, by simp [tnorm, rtEval], by rw [(lookups_eq env).2]⟩
  simp only [visEval]; rw [(lookups_eq env).1]

/-- The full statement about the names an *unquoted* annotation evaluates (not asserted: false when a
name is rebound after the `def`): the object CPython stored in `__annotations__` when the `def` ran
is the object the visitor evaluates the expression to. -/
def DefTimeNamesAgree (env : NameEnv) (e : AnnExpr) : Prop :=
  resolveV (pyLookup env) e = resolveV (visLookup env) e

/-- **Names of an unquoted annotation (partial).** If no name the expression looks up is (re)bound
after the `def` statement (`stableNames`), evaluating it at def time (module globals so far, then
builtins) and evaluating it in the visitor (final module scope, then builtins) give the same
object. -/
theorem def_time_names_partial (env : NameEnv) (e : AnnExpr) (h : stableNames env e = true) :
    DefTimeNamesAgree env e := by
  apply resolveV_congr (pyLookup env) (visLookup env)
    (fun n hn => by unfold pyLookup visLookup; exact withAttrs_attr env.attrs _ _ n hn)
  intro n hn
  simp only [stableNames, List.all_eq_true, decide_eq_true_eq] at h
  exact h n hn

/-- name 0 = `complex`, bound by the module to class `B` (24) before the def and a builtin (class 4);
name 1 = `int`, builtin only; name 2 = `MyInt`, module only; name 3 undefined; name 4 = `Later`, bound
by the module after the def; name 5 bound to `A` before the def and rebound to `B` after it -/
def exEnv : NameEnv :=
  { early := [(0, .cls 24), (2, .cls C.int), (5, .cls 23), (6, .objv 0)],
    late := [(0, .cls 24), (2, .cls C.int), (4, .cls 26), (5, .cls 24), (6, .objv 0)],
    builtins := [(0, .cls C.complex), (1, .cls C.int)],
    -- name 6 = `L`, a library module (object 0); `L.Static` (attribute 0) = `A`, `L.sub` (1) = its submodule (object 1),
    -- `L.Lazy` (2) = `B` through the module's `__getattr__`, `L.sub.Inner` (0) = `Cc`; `L.Missing` (9) does not exist
    attrs := [(attrKey 0 0, .cls 23), (attrKey 0 1, .objv 1), (attrKey 0 2, .cls 24), (attrKey 1 0, .cls 25)] }

/-- what the property excludes: builtins consulted before the module globals -/
def builtinsFirstLookup (env : NameEnv) : Lookup := fun n =>
  if env.builtins.has n then env.builtins.get n else env.late.get n

/-- non-vacuity: in `exEnv` the five kinds of names resolve as they should in all three lookups, and
the shadowing name discriminates a builtins-first lookup -/
example : (List.range 5).map (visLookup exEnv) =
    [some (.cls 24), some (.cls C.int), some (.cls C.int), none, some (.cls 26)] ∧
    (List.range 5).map (globalsLookup exEnv) = (List.range 5).map (visLookup exEnv) ∧
    builtinsFirstLookup exEnv 0 = some (.cls C.complex) := by decide

/-- non-vacuity for dotted names in `exEnv`: `"L.Static"`, `"L.Lazy"` (module `__getattr__`), `"L.sub.Inner"`
resolve to their classes by the string route of a function object; `"L.Missing"` is `Any` with one error -/
example :
    [[0], [2], [1, 0], [9]].map (fun p => (astEval (globalsLookup exEnv) false (.dotted 6 p)).map fun r =>
      (match r.ty with | .typed c => c | _ => 0, r.errs)) =
    [some (23, 0), some (24, 0), some (25, 0), some (0, 1)] := by decide

/-- **Witness (`stableNames` is needed).** `K = A; def f(x: K): ...; K = B`: the function object
carries `A`, the visitor evaluates the annotation to `B`. -/
theorem witness_reboundName : ¬ DefTimeNamesAgree exEnv (.name 5) := by
  intro h
  have := congrArg (fun e => match e with | AnnExpr.cls c => c | _ => 0) h
  revert this
  decide
example : stableNames exEnv (.gen true C.list [.name 0, .name 1, .name 2]) = true ∧
    stableNames exEnv (.name 5) = false := by decide

/-! ## 1. the string route -/

/-- **Quoting an annotation switches to the AST route, wherever the string is met (full).** For every
lookup, expression `e` and either `allow_unpack`: the AST route on the string `'e'` is the AST route
on `e`; the runtime route handed the string `'e'` (`type_from_runtime("e")`, a `str`/`ForwardRef`
argument inside a generic) is the AST route on `e`; a quoted annotation in checked source is the AST
route on `e` with the visitor's lookup. -/
theorem string_route (look : Lookup) (env : NameEnv) (e : AnnExpr) (au : Bool) :
    astEval look au (.str e) = astEval look au e ∧ rtEval look au (tnorm (.str e)) = astEval look au e ∧
    visEval env au (.str e) = astEval (visLookup env) au e := by
  simp [astEval, rtEval, tnorm, visEval]

/-- **The `allow_unpack` flag is the same in every route.** For a parameter of kind `k` the def-node
route (`compute_parameters`, with whatever evaluator `eval` the visitor supplies) and the function-object
route (`from_signature`) both evaluate the annotation with `allowUnpackK k` and translate it with
`translateVararg k`; and quoting keeps the flag in all three evaluators — so `*args: "Unpack[…]"` reads as
`*args: Unpack[…]` does. -/
theorem unpack_flag_routes_agree (look : Lookup) (env : NameEnv) (eval : Bool → AnnExpr → Option Res)
    (m : Option Cls) (i : Nat) (k : Kind) (n : String) (e : AnnExpr) (d : Option DVal) (df : Option Dflt) :
    (defParam eval m i k ⟨n, some e⟩ d).map (·.ann) = (eval (allowUnpackK k) e).map (translateVararg k) ∧
    (inspParam look m i ⟨n, k, df, some e⟩).map (·.ann) =
      (rtEval look (allowUnpackK k) e).map (translateVararg k) ∧
    (∀ au, astEval look au (.str e) = astEval look au e ∧ rtEval look au (.str e) = astEval look au e ∧
      visEval env au (.str e) = astEval (visLookup env) au e) := by
  refine ⟨?_, ?_, ?_⟩
  · simp [defParam, Option.map_map, Function.comp_def]
  · simp [inspParam, Option.map_map, Function.comp_def]
  · intro au; simp [astEval, rtEval, visEval]

/-- **Where the implementation threads the flag (regenerated obligation).** -/
theorem unpack_flag_threaded : flagCalls = registeredFlagCalls := by decide

/-! ## 2. annotations in checked source -/

/-- The full statement for the in-source route (not asserted: false on `starUnpack`): the visitor's
reading is the runtime route on the object the expression evaluates to (names replaced by the
objects the visitor binds them to, then whatever `typing` does). -/
def VisitorAgrees (env : NameEnv) (e : AnnExpr) : Prop :=
  ∀ au, visEval env au e = rtEval (visLookup env) au (tnorm (resolveV (visLookup env) e))

/-- **An unquoted annotation in checked source means what the runtime object means (partial:
outside `starUnpack`).** For every expression without a PEP 646 starred member — supported or not,
with any names — with the same errors. -/
theorem visitor_route_partial (env : NameEnv) (e : AnnExpr) (hD : D13_starUnpack e = false) :
    VisitorAgrees env e :=
  fun au => vis_eq_rt env e au (hasStar_starU e hD)

/-! ## 3. the AST / string route against the runtime route -/

/-- The full statement (not asserted: false on `starUnpack`, `typingDedup`): for a lookup `look`, the
AST route on `e` computes what the runtime route computes on the object `typing` builds for `e` with
every `Optional[X]` written `Union[None, X]` — i.e. the two routes agree exactly, except that the
AST route unites `None` first where `typing` puts it last (member order only). -/
def RoutesAgree (look : Lookup) (e : AnnExpr) : Prop :=
  ∀ au, astEval look au e = rtEval look au (tnorm (swapOpt e))

/-- **AST route = runtime route (partial).** For every lookup and every supported expression (any
depth, any nesting of names, classes, None, Any, NewTypes, bare aliases, old/new generics, tuple
forms with `Unpack[...]`, Literal, `type[]`, Annotated, Final / ClassVar, Optional / Union / `|`,
forward-reference strings) outside the class `starUnpack` and the representation class
`typingDedup`, the two routes yield the same value, the same number of errors and the same `Unpack`
flag. -/
theorem routes_agree_partial (look : Lookup) (e : AnnExpr) (hS : Supported e = true)
    (h1 : D13_starUnpack e = false)
    (h3 : R13_typingDedup look (swapOpt e) = false) : RoutesAgree look e :=
  agree_main e (supp_mono e hS) (hasStar_starU e h1) h3

/-- **All readings coincide exactly when no `Optional[...]` is written (partial).** For a supported
expression without `Optional[...]` outside the exception classes, with `L` the (common) lookup of
the environment: AST route = string route = runtime route = quoted in-source; and the unquoted
in-source reading is the runtime route on the expression with its names evaluated. -/
theorem all_routes_agree_partial (env : NameEnv) (e : AnnExpr) (hS : Supported e = true)
    (h1 : D13_starUnpack e = false)
    (h3 : R13_typingDedup (visLookup env) e = false) (h4 : e.hasOpt = false) (au : Bool) :
    astEval (visLookup env) au e = rtEval (visLookup env) au (tnorm e) ∧
    astEval (globalsLookup env) au (.str e) = rtEval (visLookup env) au (tnorm e) ∧
    visEval env au (.str e) = rtEval (visLookup env) au (tnorm e) ∧
    visEval env au e = rtEval (visLookup env) au (tnorm (resolveV (visLookup env) e)) := by
  have hsw := swapOpt_id e h4
  have h := routes_agree_partial (visLookup env) e hS h1 (by rw [hsw]; exact h3) au
  rw [hsw] at h
  refine ⟨h, ?_, by simpa [visEval] using h, visitor_route_partial env e h1 au⟩
  rw [← (lookups_eq env).1]; simpa [astEval] using h

/-- **The same with purely syntactic hypotheses (partial).** The representation class is empty
wherever `typing` has nothing to normalise: if every `Literal[...]` of `e` has distinct arguments
and every union of `e` (with `Optional[X]` read as `Union[None, X]`) has at least two arguments,
none of them a union, no two of them `==`, then — outside `starUnpack` — the routes agree. -/
theorem routes_agree_plain_partial (look : Lookup) (e : AnnExpr) (hS : Supported e = true)
    (h1 : D13_starUnpack e = false)
    (h3 : plainUnions (swapOpt e) = true) : RoutesAgree look e :=
  routes_agree_partial look e hS h1 (plain_R13 _ h3)

/-! ### witnesses: the full statements are false in each class -/

/-- `tuple[int, *tuple[str, ...]]` -/
def wStar : AnnExpr := .tup false [.cls C.int, .star (.tupV false (.cls C.str))]
/-- `Final[int]` -/
def wFinal : AnnExpr := .final (.cls C.int)
/-- no names bound -/
def look0 : Lookup := fun _ => none
/-- no names bound -/
def env0 : NameEnv := ⟨[], [], [], []⟩
/-- `Union[List[int | str], List[Union[str, int]]]` -/
def wDedup : AnnExpr :=
  .union [.gen true C.list [.bor (.cls C.int) (.cls C.str)], .gen true C.list [.union [.cls C.str, .cls C.int]]]

/-- `starUnpack`: the AST route reports "Unsupported syntax in annotation: Starred" and reads the starred
member as `Any` (`tuple[int, Any]`, one error), the runtime route returns the nested tuple without an error. -/
theorem witness_starUnpack_routes : ¬ RoutesAgree look0 wStar := by
  intro h
  have := congrArg (fun r => r.map (·.errs)) (h false)
  revert this
  decide

/-- `starUnpack`: in checked source the annotation is `tuple[Any]`, the runtime route gives
`tuple[int, tuple[str, ...]]` (neither is the intended `tuple[int, *tuple[str, ...]]`). -/
theorem witness_starUnpack_visitor : ¬ VisitorAgrees env0 wStar := by
  intro h
  have := congrArg (fun r => r.map fun x => match x.ty with | .seq _ ms => ms.length | _ => 0) (h false)
  revert this
  decide

/-- **Regression (former class `finalQuoted`, repaired by d560eeb).** `Final[int]` is read as `int`
by the AST / string route as by the runtime route, with no error. -/
theorem regress_finalQuoted :
    RoutesAgree look0 wFinal ∧ (astEval look0 false wFinal).map (fun r => (r.errs, r.unp)) = some (0, false) ∧
    (visEval env0 false (.str wFinal)).map (fun r => match r.ty with | .typed c => c | _ => 0) = some C.int :=
  ⟨routes_agree_partial look0 wFinal (by decide) (by decide) (by decide +kernel), by decide, by decide⟩

/-- `typingDedup` (representation only): `typing` keeps one of the two `==` arguments, so the
runtime route yields `list[int | str]`; the AST route unites both, `unite_values` compares hashes
(order-sensitive on unions) and keeps `list[int | str] | list[str | int]`. -/
theorem witness_typingDedup : ¬ RoutesAgree look0 wDedup := by
  intro h
  have := congrArg (fun r => r.map fun x => match x.ty with | .union ts => ts.length | _ => 1) (h false)
  revert this
  decide +kernel

example : D13_starUnpack wStar = true := by decide
example : R13_typingDedup look0 (swapOpt wDedup) = true := by decide +kernel

/-! ### non-vacuity: the hypotheses are met by a non-trivial expression -/

/-- `Dict[str, Optional[Tuple[int, Unpack[tuple[str, ...]]]]] | Annotated[list['int'], 'm'] | type[complex | None]
    | Literal[1, 1, True]`, `complex` being the module's own class (name 0 of `exEnv`) -/
def exAnn : AnnExpr :=
  .bor (.bor (.bor
    (.gen true C.dict [.cls C.str, .opt (.tup true [.cls C.int, .unpack (.tupV false (.cls C.str))])])
    (.ann (.gen false C.list [.str (.cls C.int)]) 1))
    (.typ false (.bor (.name 0) .none)))
    (.lit [.int 1, .int 1, .bool true])

example : Supported exAnn = true ∧ D13_starUnpack exAnn = false := by decide
example : R13_typingDedup (visLookup exEnv) (swapOpt exAnn) = false := by decide +kernel
/-- `Dict[str, Optional[int]] | list['int'] | Literal[1, True]` meets the syntactic condition -/
example : plainUnions (swapOpt (.bor (.bor (.gen true C.dict [.cls C.str, .opt (.cls C.int)])
    (.gen false C.list [.str (.cls C.int)])) (.lit [.int 1, .bool true]))) = false := by decide +kernel
example : plainUnions (swapOpt (.union [.gen true C.dict [.cls C.str, .opt (.cls C.int)],
    .gen false C.list [.str (.cls C.int)], .lit [.int 1, .bool true]])) = true := by decide +kernel
/-- … and there the routes produce a non-trivial value (a six-member union). -/
example : (astEval (visLookup exEnv) false exAnn).map (fun r => match r.ty with | .union ts => ts.length | _ => 1) = some 6 := by
  decide +kernel

/-! ## 4. def headers: parameters from the def node vs from the function object -/

/-- The full statement (not asserted: false on `unannotated` and on the annotation classes): both routes yield a signature, and the two have the same parameter names, kinds, default
presence (and literal), annotation values, error counts, and return annotation. -/
def ParamsAgree (env : NameEnv) (d : DefArgs) : Prop := (fromDef env d).map SigOut.core = (fromRuntime env d).map SigOut.core

/-- **Signature of the def node = signature of the function object (partial).** For every header
CPython compiles (any number of parameters of every kind, any names — `__x` included —, any default
pattern), not a method, without `from __future__ import annotations`, outside the representation
class `unannotated`, whose annotations have no PEP 646 starred member outside strings and look up
(outside strings) only names not rebound after the def (no further restriction on the annotations;
names inside strings are unrestricted: shadowing, undefined, defined later): `compute_parameters` (list concatenation + `zip_longest`) and
`from_signature` over `inspect.signature` (CPython's index-based alignment) produce the same names,
kinds (both apply the PEP 484 `__x` rule to the parameter and everything before it), defaults,
annotation values and return type. -/
theorem params_agree_partial (env : NameEnv) (d : DefArgs) (hwf : d.WF = true) (hm : d.methodOf = none)
    (hfut : d.future = false) (hR : R13_unannotated d = false)
    (hstar : d.annAll (fun e => !e.starU && stableNames env e) = true) : ParamsAgree env d := by
  simp only [DefArgs.annAll, Bool.and_eq_true, List.all_eq_true] at hstar
  refine params_agree_core d hwf hm hR (fun a ha e he => ?_) (fun e he => ?_)
  · rw [hfut]
    have := hstar.1 a ha
    simp only [PArg.annAll, he, Bool.and_eq_true, Bool.not_eq_true'] at this
    exact annOK_now env e this.1 this.2
  · rw [hfut]
    have := hstar.2
    simp only [he, Bool.and_eq_true, Bool.not_eq_true'] at this
    exact annOK_now env e this.1 this.2

/-- an annotation both routes read alike even when the function object only carries its text -/
def futureOK (env : NameEnv) (e : AnnExpr) : Bool :=
  Supported (resolveV (visLookup env) e) && !D13_starUnpack e &&
  !R13_typingDedup (visLookup env) (resolveV (visLookup env) e) && !(resolveV (visLookup env) e).hasOpt

/-- **The same under `from __future__ import annotations` (partial).** The function object then
carries the annotation *text*, which the inspect route reads by the AST route, looking every name up
in `f.__globals__`; the signatures agree when every annotation — with its names replaced by what
the visitor binds them to — is supported, outside `starUnpack` / `typingDedup`, and has no
`Optional[...]` (whose member order the AST route reverses). Names may shadow builtins, be
undefined, or be bound after the def. -/
theorem params_agree_future_partial (env : NameEnv) (d : DefArgs) (hwf : d.WF = true) (hm : d.methodOf = none)
    (hfut : d.future = true) (hR : R13_unannotated d = false)
    (hann : d.annAll (futureOK env) = true) : ParamsAgree env d := by
  simp only [DefArgs.annAll, Bool.and_eq_true, List.all_eq_true] at hann
  have key : ∀ e, futureOK env e = true → AnnOK env true e := by
    intro e he
    simp only [futureOK, Bool.and_eq_true, Bool.not_eq_true'] at he
    obtain ⟨⟨⟨h1, h2⟩, h4⟩, h5⟩ := he
    exact annOK_future env e (supp_mono _ h1) (hasStar_starU e h2) h4 h5
  refine params_agree_core d hwf hm hR (fun a ha e he => ?_) (fun e he => ?_)
  · rw [hfut]
    have := hann.1 a ha
    simp only [PArg.annAll, he] at this
    exact key e this
  · rw [hfut]
    have := hann.2
    simp only [he] at this
    exact key e this

/-! ## 5. consequently: a call is judged alike next to the def and from an importing module -/

/-- **Calls are judged alike (partial; corollary of `ParamsAgree`).** Whenever the two signature
routes agree on a header, every call shape (any positionals, `*args`, keywords, `**kwargs`) binds to
the same parameters — or is rejected — under both signatures, against the same declared types. -/
theorem call_verdict_agree (env : NameEnv) (d : DefArgs) (h : ParamsAgree env d) (args : List Arg) :
    (fromDef env d).map (fun s => callView s args) = (fromRuntime env d).map (fun s => callView s args) := by
  unfold ParamsAgree at h
  cases h1 : fromDef env d <;> cases h2 : fromRuntime env d <;> simp only [h1, h2, Option.map_none, Option.map_some] at h ⊢
  · simp at h
  · simp at h
  · rename_i s t
    have hc : s.core = t.core := by simpa using h
    obtain ⟨hb, ha, hr⟩ := toBindSig_of_core hc
    simp [callView, hb, ha, hr]

/-! ## 5b. the return type for every kind of function -/

/-- The return component of the two signature routes for a header: value, "has a return annotation", errors. -/
def RetAgree (env : NameEnv) (d : DefArgs) : Prop :=
  (fromDef env d).map (fun s => (s.ret, s.hasRet, s.retErrs)) =
    (fromRuntime env d).map (fun s => (s.ret, s.hasRet, s.retErrs))

/-- **The return type agrees for every kind of function and every return annotation (partial in the
hypotheses of `ParamsAgree` only).** Whenever the two routes agree on a header — `def`, `async def`
(wrapped in `Coroutine[Any, Any, …]` by both routes, with or without a return annotation), async
generator and generator (wrapped by neither) — they agree on the return component. -/
theorem ret_agree (env : NameEnv) (d : DefArgs) (h : ParamsAgree env d) : RetAgree env d := by
  unfold ParamsAgree at h
  unfold RetAgree
  cases h1 : fromDef env d <;> cases h2 : fromRuntime env d <;> simp only [h1, h2, Option.map_none, Option.map_some] at h ⊢
  · simp at h
  · simp at h
  · rename_i s t
    have hc : s.core = t.core := by simpa using h
    simp only [SigOut.core, Prod.mk.injEq] at hc
    simp [hc.2.1, hc.2.2.1, hc.2.2.2]

/-- **The branch structure the model relies on (regenerated obligation).** The places where the live
`from_signature` and `compute_value_of_function` assign the return type, with their branch
conditions, are the registered ones; in particular `make_coro_type` is applied under `is_async`
alone. -/
theorem return_branches_registered : returnBranches = registeredReturnBranches := by decide

/-! ## 6. several modules, one Checker -/

/-- **A function's runtime signature does not depend on what the Checker did before (full).** For every
run — any sequence of signature requests (function object, its module environment, its header) put to
one Checker, where a function object always comes with its own environment and header — every answer
equals the answer of a fresh Checker: the only state, `known_argspecs`, is keyed by the function
object. In particular two modules binding the same name (`Item`, a TypeVar, an alias) to different
objects do not influence each other, in either order. -/
theorem multi_module_independent (run : List (FnId × NameEnv × DefArgs))
    (hc : ∀ x ∈ run, ∀ y ∈ run, x.1 = y.1 → x.2 = y.2) :
    runSt ⟨[]⟩ run = runAlone run :=
  runSt_eq_alone run hc ⟨[]⟩ (fun _ _ h => by simp at h)

/-- **The model accounts for every per-Checker cache of the signature route (regenerated
obligation).** The containers found in the live `arg_spec.py` / `annotations.py` / `functions.py`
that can outlive one function, with the key expressions they are stored under, are exactly the
registered ones. A new cache (or a coarser key) breaks this and sends the check into its widened search. -/
theorem argspec_caches_registered : argspecCaches = registeredCaches := by decide

/-! ### witnesses -/

def noAnn (n : String) : PArg := ⟨n, none⟩
def hdr0 : DefArgs :=
  { posonly := [], args := [], vararg := none, kwonly := [], kwDefaults := [], kwarg := none, defaults := [],
    returns := none, methodOf := none, future := false }
/-- non-vacuity: two modules binding name 0 to different classes, the same header `def f(x: "N0")`,
asked in both orders and twice: every answer is the module's own class -/
example :
    let envA : NameEnv := ⟨[(0, .cls 23)], [(0, .cls 23)], [], []⟩
    let envB : NameEnv := ⟨[(0, .cls 24)], [(0, .cls 24)], [], []⟩
    let d : DefArgs := { hdr0 with args := [⟨"x", some (.str (.name 0))⟩] }
    (runSt ⟨[]⟩ [((0, 0), envA, d), ((1, 0), envB, d), ((0, 0), envA, d)]).map
      (fun r => r.map fun s => s.params.map fun p => match p.ann with | .typed c => c | _ => 0) =
      [some [23], some [24], some [23]] := by decide +kernel

/-- `def f(__x): ...` -/
def wDunder : DefArgs := { hdr0 with args := [noAnn "__x"] }
/-- `def f(x=1): ...` -/
def wUnann : DefArgs := { hdr0 with args := [noAnn "x"], defaults := [.lit (.int 1)] }

/-- `def f(a, __b, c): ...` -/
def wDunder2 : DefArgs := { hdr0 with args := [noAnn "a", noAnn "__b", noAnn "c"] }

/-- **Regression (former class `dunderPosOnly`, repaired by 96446dc).** `def f(__x)`: both routes make
`__x` positional-only, and `f(__x=1)` is rejected by both; in `def f(a, __b, c)` both make `a` and
`__b` positional-only and leave `c` positional-or-keyword. -/
theorem regress_dunderPosOnly :
    ParamsAgree env0 wDunder ∧ ParamsAgree env0 wDunder2 ∧
    (fromDef env0 wDunder).map (fun s => s.params.map (·.kind)) = some [Kind.posOnly] ∧
    (fromDef env0 wDunder2).map (fun s => s.params.map (·.kind)) = some [Kind.posOnly, Kind.posOnly, Kind.posOrKw] ∧
    (fromDef env0 wDunder).map (fun s => (pyaCall (toBindSig s) [Arg.kw "__x"]).isSome) = some false ∧
    (fromRuntime env0 wDunder).map (fun s => (pyaCall (toBindSig s) [Arg.kw "__x"]).isSome) = some false :=
  ⟨params_agree_partial env0 wDunder (by decide) rfl rfl (by decide) (by decide),
   params_agree_partial env0 wDunder2 (by decide) rfl rfl (by decide) (by decide),
   by decide, by decide, by decide, by decide⟩

/-- `unannotated` (representation only): `Any | Literal[1]` from the def node, `Any` from the function object. -/
theorem witness_unannotated : ¬ ParamsAgree env0 wUnann := by
  intro h
  have := congrArg (fun r => r.map fun s => s.1.map fun p => match p.2.2.2.1 with | .any => true | _ => false) h
  revert this
  decide +kernel

/-! ### non-vacuity -/

/-- `def f(a: int, /, b: Optional[str] = None, *args: int, c: 'bytes', d: Literal[1] = 1, **kw: list[int]) -> tuple[int, ...]` -/
def exHdr : DefArgs :=
  { posonly := [⟨"a", some (.cls C.int)⟩], args := [⟨"b", some (.opt (.cls C.str))⟩],
    vararg := some ⟨"args", some (.cls C.int)⟩,
    kwonly := [⟨"c", some (.str (.cls C.bytes))⟩, ⟨"d", some (.lit [.int 1])⟩],
    kwDefaults := [none, some (.lit (.int 1))], kwarg := some ⟨"kw", some (.gen false C.list [.cls C.int])⟩,
    defaults := [.lit .none], returns := some (.tupV false (.cls C.int)), methodOf := none, future := false }

example : exHdr.WF = true ∧ R13_unannotated exHdr = false ∧
    exHdr.annAll (fun e => !e.starU && stableNames exEnv e) = true := by decide
example : (fromDef exEnv exHdr).map (fun s => s.params.length) = some 6 := by decide +kernel
/-- a header under `from __future__ import annotations` meeting the hypotheses: `b: complex | None`
(the module's own `complex`), `-> "Later"` (bound after the def) -/
def exFuture : DefArgs :=
  { exHdr with
    future := true
    args := [⟨"b", some (.bor (.name 0) .none)⟩]
    returns := some (.name 4) }
example : exFuture.annAll (futureOK exEnv) = true := by decide +kernel

/-- `def f(x: "complex") -> "Later"`, `complex` shadowed by the module, `Later` bound after the def -/
def exShadow : DefArgs :=
  { hdr0 with args := [⟨"x", some (.str (.name 0))⟩], returns := some (.str (.name 4)) }

/-- **Regression for the shadowing case.** Both signature routes read `"complex"` as the module's
class `B` (24), not the builtin, and `"Later"` as the class bound after the def. -/
theorem regress_shadowedName :
    ParamsAgree exEnv exShadow ∧
    (fromRuntime exEnv exShadow).map (fun s =>
      (s.params.map (fun p => match p.ann with | .typed c => c | _ => 0), match s.ret with | .typed c => c | _ => 0)) =
      some ([24], 26) :=
  ⟨params_agree_partial exEnv exShadow (by decide) rfl rfl (by decide) (by decide), by decide +kernel⟩

/-- non-vacuity: an unannotated coroutine function gets `Coroutine[Any, Any, Any]` from both routes, an
annotated one `Coroutine[Any, Any, int]`; an async generator and a generator are not wrapped -/
example :
    ([FnKind.coro, .asyncGen, .gen, .plain].map fun k =>
      (fromRuntime env0 { hdr0 with kind := k }).map (·.ret)).map (fun r => r.map fun t =>
        match t with | .generic c [_, _, _] => c | _ => 0) = [some 900, some 0, some 0, some 0] ∧
    (fromDef env0 { hdr0 with kind := .coro, returns := some (.cls C.int) }).map (fun s =>
        match s.ret with | .generic c [_, _, .typed i] => (c, i) | _ => (0, 0)) = some (900, 1) ∧
    (fromRuntime env0 { hdr0 with kind := .coro, returns := some (.cls C.int) }).map (fun s =>
        match s.ret with | .generic c [_, _, .typed i] => (c, i) | _ => (0, 0)) = some (900, 1) := by
  decide +kernel

end Pya.C13
