import PyaModel.Proofs.C13
namespace Pya.C13
end Pya.C13
