import PyaModel.Proofs.C13
/-!
# Props/C13 — static and runtime views of declarations agree

Property theorems only. Model (Core/Annot.lean, Core/AnnotRoutes.lean): `astEval` = the AST / string
route (`type_from_ast`, `_Visitor`, `_type_from_subscripted_value`), `rtEval` = the runtime-object
route (`_type_from_runtime`, `_value_of_origin_args`), `visEval` = an annotation in checked source
(`NameCheckVisitor.value_of_annotation`), `fromDef` = `compute_parameters` on the def node,
`fromRuntime` = `ArgSpecCache.from_signature` on the function object. Spec parameters
(Spec/AnnotSpec.lean): `tnorm` = what `typing` does to the expression, `inspectOf` = what
`inspect.signature` reports; both validated against the real modules on every run.
All evaluators return the value, the number of errors shown and the `UnpackedValue` flag; `none` =
the route raises.
-/
namespace Pya.C13

/-! ## 1. the string route -/

/-- **Quoting an annotation switches to the AST route, wherever the string is met (full).** For every
expression `e` and either `allow_unpack`: the AST route on the string `'e'` is the AST route on `e`;
the runtime route handed the string `'e'` (`type_from_runtime("e")`, a `str`/`ForwardRef` argument
inside a generic) is the AST route on `e`; a quoted annotation in checked source is the AST route
on `e`. -/
theorem string_route (e : AnnExpr) (au : Bool) :
    astEval au (.str e) = astEval au e ∧ rtEval au (tnorm (.str e)) = astEval au e ∧
    visEval au (.str e) = astEval au e := by
  simp [astEval, rtEval, tnorm, visEval]

/-! ## 2. annotations in checked source -/

/-- The full statement for the in-source route (not asserted: false on `starUnpack`). -/
def VisitorAgrees (e : AnnExpr) : Prop := ∀ au, visEval au e = rtEval au (tnorm e)

/-- **An unquoted annotation in checked source means what the runtime object means (partial:
outside `starUnpack`).** For every expression without a PEP 646 starred member the visitor's
reading equals the runtime route on the object `typing` builds — for every expression of the
syntax, supported or not, with the same errors. -/
theorem visitor_route_partial (e : AnnExpr) (hD : D13_starUnpack e = false) : VisitorAgrees e :=
  fun au => vis_eq_rt e au (hasStar_starU e hD)

/-! ## 3. the AST / string route against the runtime route -/

/-- The full statement (not asserted: false on `starUnpack`, `typingDedup`): the AST
route on `e` computes what the runtime route computes on the object `typing` builds for `e` with
every `Optional[X]` written `Union[None, X]` — i.e. the two routes agree exactly, except that the
AST route unites `None` first where `typing` puts it last (member order only). -/
def RoutesAgree (e : AnnExpr) : Prop := ∀ au, astEval au e = rtEval au (tnorm (swapOpt e))

/-- **AST route = runtime route (partial).** For every supported expression (any depth, any
nesting of classes, None, Any, NewTypes, bare aliases, old/new generics, tuple forms with
`Unpack[...]`, Literal, `type[]`, Annotated, Final / ClassVar, Optional / Union / `|`,
forward-reference strings) outside the class `starUnpack` and the representation class
`typingDedup`, the two routes yield the same value, the same number of errors and the same `Unpack`
flag. -/
theorem routes_agree_partial (e : AnnExpr) (hS : Supported e = true)
    (h1 : D13_starUnpack e = false)
    (h3 : R13_typingDedup (swapOpt e) = false) : RoutesAgree e :=
  agree_main e (supp_mono e hS) (hasStar_starU e h1) h3

/-- **All readings coincide exactly when no `Optional[...]` is written (partial).** For a supported
expression without `Optional[...]` outside the exception classes: AST route = string route =
runtime route = unquoted in-source = quoted in-source. -/
theorem all_routes_agree_partial (e : AnnExpr) (hS : Supported e = true)
    (h1 : D13_starUnpack e = false)
    (h3 : R13_typingDedup e = false) (h4 : e.hasOpt = false) (au : Bool) :
    astEval au e = rtEval au (tnorm e) ∧ astEval au (.str e) = rtEval au (tnorm e) ∧
    visEval au e = rtEval au (tnorm e) ∧ visEval au (.str e) = rtEval au (tnorm e) := by
  have hsw := swapOpt_id e h4
  have h := routes_agree_partial e hS h1 (by rw [hsw]; exact h3) au
  rw [hsw] at h
  exact ⟨h, by simpa [astEval] using h, visitor_route_partial e h1 au, by simpa [visEval] using h⟩

/-- **The same with purely syntactic hypotheses (partial).** The representation class is empty
wherever `typing` has nothing to normalise: if every `Literal[...]` of `e` has distinct arguments
and every union of `e` (with `Optional[X]` read as `Union[None, X]`) has at least two arguments,
none of them a union, no two of them `==`, then — outside `starUnpack` — the routes agree. -/
theorem routes_agree_plain_partial (e : AnnExpr) (hS : Supported e = true)
    (h1 : D13_starUnpack e = false)
    (h3 : plainUnions (swapOpt e) = true) : RoutesAgree e :=
  routes_agree_partial e hS h1 (plain_R13 _ h3)

/-! ### witnesses: the full statements are false in each class -/

/-- `tuple[int, *tuple[str, ...]]` -/
def wStar : AnnExpr := .tup false [.cls C.int, .star (.tupV false (.cls C.str))]
/-- `Final[int]` -/
def wFinal : AnnExpr := .final (.cls C.int)
/-- `Union[List[int | str], List[Union[str, int]]]` -/
def wDedup : AnnExpr :=
  .union [.gen true C.list [.bor (.cls C.int) (.cls C.str)], .gen true C.list [.union [.cls C.str, .cls C.int]]]

/-- `starUnpack`: the AST route raises, the runtime route returns the nested tuple. -/
theorem witness_starUnpack_routes : ¬ RoutesAgree wStar := by
  intro h
  have := congrArg Option.isSome (h false)
  revert this
  decide

/-- `starUnpack`: in checked source the annotation is `tuple[Any]`, the runtime route gives
`tuple[int, tuple[str, ...]]` (neither is the intended `tuple[int, *tuple[str, ...]]`). -/
theorem witness_starUnpack_visitor : ¬ VisitorAgrees wStar := by
  intro h
  have := congrArg (fun r => r.map fun x => match x.ty with | .seq _ ms => ms.length | _ => 0) (h false)
  revert this
  decide

/-- **Regression (former class `finalQuoted`, repaired by d560eeb).** `Final[int]` is read as `int`
by the AST / string route as by the runtime route, with no error. -/
theorem regress_finalQuoted :
    RoutesAgree wFinal ∧ (astEval false wFinal).map (fun r => (r.errs, r.unp)) = some (0, false) ∧
    (visEval false (.str wFinal)).map (fun r => match r.ty with | .typed c => c | _ => 0) = some C.int :=
  ⟨routes_agree_partial wFinal (by decide) (by decide) (by decide +kernel), by decide, by decide⟩

/-- `typingDedup` (representation only): `typing` keeps one of the two `==` arguments, so the
runtime route yields `list[int | str]`; the AST route unites both, `unite_values` compares hashes
(order-sensitive on unions) and keeps `list[int | str] | list[str | int]`. -/
theorem witness_typingDedup : ¬ RoutesAgree wDedup := by
  intro h
  have := congrArg (fun r => r.map fun x => match x.ty with | .union ts => ts.length | _ => 1) (h false)
  revert this
  decide +kernel

example : D13_starUnpack wStar = true := by decide
example : R13_typingDedup (swapOpt wDedup) = true := by decide +kernel

/-! ### non-vacuity: the hypotheses are met by a non-trivial expression -/

/-- `Dict[str, Optional[Tuple[int, Unpack[tuple[str, ...]]]]] | Annotated[list['int'], 'm'] | type[A | None]
    | Literal[1, 1, True]` (class 23 = `A`) -/
def exAnn : AnnExpr :=
  .bor (.bor (.bor
    (.gen true C.dict [.cls C.str, .opt (.tup true [.cls C.int, .unpack (.tupV false (.cls C.str))])])
    (.ann (.gen false C.list [.str (.cls C.int)]) 1))
    (.typ false (.bor (.cls 23) .none)))
    (.lit [.int 1, .int 1, .bool true])

example : Supported exAnn = true ∧ D13_starUnpack exAnn = false := by decide
example : R13_typingDedup (swapOpt exAnn) = false := by decide +kernel
/-- `Dict[str, Optional[int]] | list['int'] | Literal[1, True]` meets the syntactic condition -/
example : plainUnions (swapOpt (.bor (.bor (.gen true C.dict [.cls C.str, .opt (.cls C.int)])
    (.gen false C.list [.str (.cls C.int)])) (.lit [.int 1, .bool true]))) = false := by decide +kernel
example : plainUnions (swapOpt (.union [.gen true C.dict [.cls C.str, .opt (.cls C.int)],
    .gen false C.list [.str (.cls C.int)], .lit [.int 1, .bool true]])) = true := by decide +kernel
/-- … and there the routes produce a non-trivial value (a six-member union). -/
example : (astEval false exAnn).map (fun r => match r.ty with | .union ts => ts.length | _ => 1) = some 6 := by
  decide +kernel

/-! ## 4. def headers: parameters from the def node vs from the function object -/

/-- The full statement (not asserted: false on `unannotated` and on the annotation classes): both routes yield a signature, and the two have the same parameter names, kinds, default
presence (and literal), annotation values, error counts, and return annotation. -/
def ParamsAgree (d : DefArgs) : Prop := (fromDef d).map SigOut.core = (fromRuntime d).map SigOut.core

/-- **Signature of the def node = signature of the function object (partial).** For every header
CPython compiles (any number of parameters of every kind, any names — `__x` included —, any default
pattern), not a method, without `from __future__ import annotations`, outside the representation
class `unannotated`, whose annotations have no PEP 646 starred member outside strings (no further
restriction on the annotations): `compute_parameters` (list concatenation + `zip_longest`) and
`from_signature` over `inspect.signature` (CPython's index-based alignment) produce the same names,
kinds (both apply the PEP 484 `__x` rule to the parameter and everything before it), defaults,
annotation values and return type. -/
theorem params_agree_partial (d : DefArgs) (hwf : d.WF = true) (hm : d.methodOf = none)
    (hfut : d.future = false) (hR : R13_unannotated d = false)
    (hstar : d.annAll (fun e => !e.starU) = true) : ParamsAgree d := by
  simp only [DefArgs.annAll, Bool.and_eq_true, List.all_eq_true] at hstar
  refine params_agree_core d hwf hm hR (fun a ha e he => ?_) (fun e he => ?_)
  · rw [hfut]
    have := hstar.1 a ha
    simp only [PArg.annAll, he] at this
    exact annOK_now e (by simpa using this)
  · rw [hfut]
    have := hstar.2
    simp only [he] at this
    exact annOK_now e (by simpa using this)

/-- an annotation both routes read alike even when the function object only carries its text -/
def futureOK (e : AnnExpr) : Bool :=
  Supported e && !D13_starUnpack e && !R13_typingDedup e && !e.hasOpt

/-- **The same under `from __future__ import annotations` (partial).** The function object then
carries the annotation *text*, which the inspect route reads by the AST route; the signatures agree
when every annotation is supported, outside `starUnpack` / `typingDedup`, and has no
`Optional[...]` (whose member order the AST route reverses). -/
theorem params_agree_future_partial (d : DefArgs) (hwf : d.WF = true) (hm : d.methodOf = none)
    (hfut : d.future = true) (hR : R13_unannotated d = false)
    (hann : d.annAll futureOK = true) : ParamsAgree d := by
  simp only [DefArgs.annAll, Bool.and_eq_true, List.all_eq_true] at hann
  have key : ∀ e, futureOK e = true → AnnOK true e := by
    intro e he
    simp only [futureOK, Bool.and_eq_true, Bool.not_eq_true'] at he
    obtain ⟨⟨⟨h1, h2⟩, h4⟩, h5⟩ := he
    exact annOK_future e (supp_mono e h1) (hasStar_starU e h2) h4 h5
  refine params_agree_core d hwf hm hR (fun a ha e he => ?_) (fun e he => ?_)
  · rw [hfut]
    have := hann.1 a ha
    simp only [PArg.annAll, he] at this
    exact key e this
  · rw [hfut]
    have := hann.2
    simp only [he] at this
    exact key e this

/-! ## 5. consequently: a call is judged alike next to the def and from an importing module -/

/-- **Calls are judged alike (partial; corollary of `ParamsAgree`).** Whenever the two signature
routes agree on a header, every call shape (any positionals, `*args`, keywords, `**kwargs`) binds to
the same parameters — or is rejected — under both signatures, against the same declared types. -/
theorem call_verdict_agree (d : DefArgs) (h : ParamsAgree d) (args : List Arg) :
    (fromDef d).map (fun s => callView s args) = (fromRuntime d).map (fun s => callView s args) := by
  unfold ParamsAgree at h
  cases h1 : fromDef d <;> cases h2 : fromRuntime d <;> simp only [h1, h2, Option.map_none, Option.map_some] at h ⊢
  · simp at h
  · simp at h
  · rename_i s t
    have hc : s.core = t.core := by simpa using h
    obtain ⟨hb, ha, hr⟩ := toBindSig_of_core hc
    simp [callView, hb, ha, hr]

/-! ### witnesses -/

def noAnn (n : String) : PArg := ⟨n, none⟩
def hdr0 : DefArgs :=
  { posonly := [], args := [], vararg := none, kwonly := [], kwDefaults := [], kwarg := none, defaults := [],
    returns := none, methodOf := none, future := false }
/-- `def f(__x): ...` -/
def wDunder : DefArgs := { hdr0 with args := [noAnn "__x"] }
/-- `def f(x=1): ...` -/
def wUnann : DefArgs := { hdr0 with args := [noAnn "x"], defaults := [.lit (.int 1)] }

/-- `def f(a, __b, c): ...` -/
def wDunder2 : DefArgs := { hdr0 with args := [noAnn "a", noAnn "__b", noAnn "c"] }

/-- **Regression (former class `dunderPosOnly`, repaired by 96446dc).** `def f(__x)`: both routes make
`__x` positional-only, and `f(__x=1)` is rejected by both; in `def f(a, __b, c)` both make `a` and
`__b` positional-only and leave `c` positional-or-keyword. -/
theorem regress_dunderPosOnly :
    ParamsAgree wDunder ∧ ParamsAgree wDunder2 ∧
    (fromDef wDunder).map (fun s => s.params.map (·.kind)) = some [Kind.posOnly] ∧
    (fromDef wDunder2).map (fun s => s.params.map (·.kind)) = some [Kind.posOnly, Kind.posOnly, Kind.posOrKw] ∧
    (fromDef wDunder).map (fun s => (pyaCall (toBindSig s) [Arg.kw "__x"]).isSome) = some false ∧
    (fromRuntime wDunder).map (fun s => (pyaCall (toBindSig s) [Arg.kw "__x"]).isSome) = some false :=
  ⟨params_agree_partial wDunder (by decide) rfl rfl (by decide) (by decide),
   params_agree_partial wDunder2 (by decide) rfl rfl (by decide) (by decide),
   by decide, by decide, by decide, by decide⟩

/-- `unannotated` (representation only): `Any | Literal[1]` from the def node, `Any` from the function object. -/
theorem witness_unannotated : ¬ ParamsAgree wUnann := by
  intro h
  have := congrArg (fun r => r.map fun s => s.1.map fun p => match p.2.2.2.1 with | .any => true | _ => false) h
  revert this
  decide +kernel

/-! ### non-vacuity -/

/-- `def f(a: int, /, b: Optional[str] = None, *args: int, c: 'bytes', d: Literal[1] = 1, **kw: list[int]) -> tuple[int, ...]` -/
def exHdr : DefArgs :=
  { posonly := [⟨"a", some (.cls C.int)⟩], args := [⟨"b", some (.opt (.cls C.str))⟩],
    vararg := some ⟨"args", some (.cls C.int)⟩,
    kwonly := [⟨"c", some (.str (.cls C.bytes))⟩, ⟨"d", some (.lit [.int 1])⟩],
    kwDefaults := [none, some (.lit (.int 1))], kwarg := some ⟨"kw", some (.gen false C.list [.cls C.int])⟩,
    defaults := [.lit .none], returns := some (.tupV false (.cls C.int)), methodOf := none, future := false }

example : exHdr.WF = true ∧ R13_unannotated exHdr = false ∧
    exHdr.annAll (fun e => !e.starU) = true := by decide
example : (fromDef exHdr).map (fun s => s.params.length) = some 6 := by decide +kernel
/-- a header under `from __future__ import annotations` meeting the hypotheses -/
example : ({ exHdr with future := true, args := [⟨"b", some (.bor (.cls C.str) .none)⟩] } : DefArgs).annAll futureOK = true := by
  decide +kernel

end Pya.C13
