import PyaModel.Spec.D14
import PyaModel.Spec.Mem
import PyaModel.Proofs.C14
import PyaModel.Generated.ClassTable
import PyaModel.Spec.ValueChildren
import PyaModel.Generated.ValueChildren
/-!
# Props/C14 — the value algebra: uniting, equality, hashing, substitution

Property theorems only. Model: `Pya.unite` (= `unite_values`), `Pya.Ty.beq` (= `Value.__eq__`),
`Pya.Ty.hashEq` (= equality of `Value.__hash__`), `Pya.subst` (= `substitute_typevars`), all in
Core/Union.lean / Core/Assign.lean. Spec: `Pya.mem` (Spec/Mem.lean). Exception classes: Spec/D14.lean.
Side-condition predicates defined in Proofs/C14.lean:

* `Ty.isU t` — `t` is a union or an `Annotated[A | B, m]` (what `flatten_values` takes apart);
* `Ty.flat t` — *top level*: the members of a union / annotated union `t` are not `isU`
  (any non-union is flat);
* `Ty.flatD t` — *deep*: every union occurring anywhere in `t` has no `isU` member;
* `Ty.tidy t` — `t` contains no union and no unhashable literal;
* `Ty.tidyU t` — `t` is tidy, or a union all of whose members are tidy;
* `Ty.isUnion t` — `t` is a `MultiValuedValue`;
* `Ty.keq a b := Ty.hashEq a b && Ty.beq a b` — "the same dict key": the relation under which
  `unite_values` de-duplicates and `MultiValuedValue.__eq__` compares member sets;
* `keyNodup l` — no two entries of the list are the same dict key (`Ty.keq`);
* `Ty.hasZeroLit t` — `t` contains a literal with Python hash 0 (`0`, `False`, `''`, `b''`): such a
  `KnownValue(v)` hashes like `TypedValue(type(v))` (the modelled systematic collision).
-/
namespace Pya

/-! ## 1–3. equality and hashing -/

/-- **Full statement** (false of the pinned pyanalyze: `zeroHash_witness`): hash-equal values are `==`. -/
def HashImpEq : Prop := ∀ a b : Ty, Ty.hashEq a b = true → Ty.beq a b = true

/-- The dict lookup inside `unite_values` (same hash **and** `==`) never merges two values that are
not equal. Full strength (by construction of the lookup). -/
theorem keq_imp_beq (a b : Ty) (h : Ty.keq a b = true) : Ty.beq a b = true :=
  Ty.keq_imp_beq' a b h

/-- Hash-equal values are `==`, outside the systematic zero-hash collision: if neither value contains
a literal with Python hash 0. -/
theorem hashEq_imp_beq_partial (a b : Ty) (ha : a.hasZeroLit = false) (hb : b.hasZeroLit = false)
    (h : Ty.hashEq a b = true) : Ty.beq a b = true :=
  Ty.hashEq_imp_beq_of a b ha hb h

/-- the zero-hash collision: `hash(KnownValue(0)) == hash(TypedValue(int))` (both are the hash of a
pair `(int, x)` with `hash(x) = 0`), and it propagates: `Literal[''] | str` and `str | Literal['']`
hash equal, are `==`, and are therefore merged by `unite_values` although they differ in order. -/
theorem zeroHash_witness :
    Ty.hashEq (.known (.int 0)) (.typed C.int) = true ∧
    Ty.beq (.known (.int 0)) (.typed C.int) = false ∧
    Ty.keq (.union [.known (.str ""), .typed C.str]) (.union [.typed C.str, .known (.str "")]) = true ∧
    unite [.generic 17 [.union [.known (.str ""), .typed C.str]],
           .generic 17 [.union [.typed C.str, .known (.str "")]], .generic 17 [.typed C.str]] =
      .union [.generic 17 [.union [.known (.str ""), .typed C.str]], .generic 17 [.typed C.str]] := by
  refine ⟨by decide, by simp [Ty.beq], ?_, ?_⟩
  · simp [Ty.keq, Ty.hashEq, Ty.hashEqList, Obj.zeroHashCls, Obj.hashable, Ty.beq, Ty.beqList,
      Ty.subsetH, Ty.memH, Obj.same, Obj.tag, Obj.pyEq, C.str]
  · simp [unite, flatten1, dedup, dictMem, Ty.hashEq, Ty.hashEqList, Obj.zeroHashCls, Obj.hashable,
      Ty.beq, Ty.beqList, Ty.subsetH, Ty.memH, Obj.same, Obj.tag, Obj.pyEq, C.str]

theorem hashImpEq_false : ¬ HashImpEq := fun h => by
  have := h _ _ zeroHash_witness.1
  rw [zeroHash_witness.2.1] at this
  cases this
/-- `Value.__eq__` is reflexive. -/
theorem beq_refl (a : Ty) : Ty.beq a a = true := Ty.beq_refl a

/-- `Value.__eq__` is symmetric. -/
theorem beq_symm (a b : Ty) : Ty.beq a b = Ty.beq b a := Ty.beq_comm a b

/-- **Full statement** (false of the pinned pyanalyze: `beq_trans_witness`): `Value.__eq__` is
transitive. -/
def BeqTrans : Prop := ∀ a b c : Ty, Ty.beq a b = true → Ty.beq b c = true → Ty.beq a c = true

/-- `Value.__eq__` is transitive on values that contain no union (hence, with `beq_refl` and
`beq_symm`, an equivalence relation there). -/
theorem beq_trans_partial (a b c : Ty) (h : a.hasUnion = false) (h1 : Ty.beq a b = true)
    (h2 : Ty.beq b c = true) : Ty.beq a c = true := Ty.beq_trans a h b c h1 h2

/-- … and on unions of tidy members (together with tidy non-unions). -/
theorem beq_trans_tidyU_partial (a b c : Ty) (ha : a.tidyU = true) (hb : b.tidyU = true)
    (hc : c.tidyU = true) (h1 : Ty.beq a b = true) (h2 : Ty.beq b c = true) :
    Ty.beq a c = true := beq_trans_tidyU ha hb hc h1 h2

/-- class `unionOrder`: with `A = list[int | str]`, `A' = list[str | int]` (`==`, different hashes):
`A | float == A' | float` (same order, member-wise `==`), `A' | float == float | A'` (same set),
but `A | float != float | A'` (neither the same tuple nor, through hashes, the same set). -/
theorem beq_trans_witness :
    Ty.beq (.union [.generic C.list [.union [.typed C.int, .typed C.str]], .typed C.float])
      (.union [.generic C.list [.union [.typed C.str, .typed C.int]], .typed C.float]) = true ∧
    Ty.beq (.union [.generic C.list [.union [.typed C.str, .typed C.int]], .typed C.float])
      (.union [.typed C.float, .generic C.list [.union [.typed C.str, .typed C.int]]]) = true ∧
    Ty.beq (.union [.generic C.list [.union [.typed C.int, .typed C.str]], .typed C.float])
      (.union [.typed C.float, .generic C.list [.union [.typed C.str, .typed C.int]]]) = false := by
  simp [Ty.beq, Ty.beqList, Ty.subsetH, Ty.memH, Ty.hashEq, Ty.hashEqList, C.int, C.str, C.float, C.list]

theorem beqTrans_false : ¬ BeqTrans := fun h => by
  have := h _ _ _ beq_trans_witness.1 beq_trans_witness.2.1
  rw [beq_trans_witness.2.2] at this
  cases this
/-- Equality of two unions (`MultiValuedValue.__eq__`): the member tuples are member-wise `==`, or
each member list is included in the other under hash-and-`==` lookup (`set(vals)` comparison). -/
theorem beq_union_iff (as bs : List Ty) :
    Ty.beq (.union as) (.union bs) = true ↔
      Ty.beqList as bs = true ∨
        ((∀ a ∈ as, ∃ b ∈ bs, Ty.keq b a = true) ∧ (∀ b ∈ bs, ∃ a ∈ as, Ty.keq a b = true)) :=
  Ty.beq_union_iff

/-- "same dict key" is a partial equivalence: symmetric and transitive (reflexive exactly on values
without unhashable literal). -/
theorem keq_symm_trans (a b c : Ty) :
    Ty.keq a b = Ty.keq b a ∧ (Ty.keq a b = true → Ty.keq b c = true → Ty.keq a c = true) :=
  ⟨Ty.keq_comm a b, Ty.keq_trans a b c⟩
/-- `==` unions include each other up to `==` (only this direction). -/
theorem beq_union_incl (as bs : List Ty) (h : Ty.beq (.union as) (.union bs) = true) :
    (∀ a ∈ as, ∃ b ∈ bs, Ty.beq a b = true) ∧ (∀ b ∈ bs, ∃ a ∈ as, Ty.beq b a = true) :=
  Ty.beq_union_incl h
/-- Hash equality is symmetric and transitive (a partial equivalence: it is reflexive exactly on
the values whose hash is stable, see `hashEq_refl_partial`). -/
theorem hashEq_symm_trans (a b c : Ty) :
    Ty.hashEq a b = Ty.hashEq b a ∧
      (Ty.hashEq a b = true → Ty.hashEq b c = true → Ty.hashEq a c = true) :=
  ⟨Ty.hashEq_comm a b, Ty.hashEq_trans a b c⟩

/-- A value hashes equal to itself exactly when it contains no unhashable literal. -/
theorem hashEq_refl_iff (a : Ty) : Ty.hashEq a a = true ↔ a.hasUnhashable = false :=
  Ty.hashEq_refl_iff a

/-- A value that contains no unhashable literal hashes equal to itself. -/
theorem hashEq_refl_partial (a : Ty) (h : a.hasUnhashable = false) : Ty.hashEq a a = true :=
  Ty.hashEq_refl a h
/-- **Full statement** (false of the pinned pyanalyze, see the witnesses): values that compare equal
hash equal. -/
def EqImpHash : Prop := ∀ a b : Ty, Ty.beq a b = true → Ty.hashEq a b = true

/-- **Equal values hash equal, outside the classes `unionOrder` and `unhashable`**: if `a` contains
no union, and neither `a` nor `b` contains an unhashable literal, then `a == b` implies equal
hashes. (The condition on `b` cannot be dropped: `unhashableRight_witness`. `b` contains no union
either, because it is `==` to `a`.) -/
theorem eq_hash_partial (a b : Ty) (h1 : a.hasUnion = false) (h2 : a.hasUnhashable = false)
    (h3 : b.hasUnhashable = false) (h : Ty.beq a b = true) : Ty.hashEq a b = true :=
  Ty.beq_imp_hashEq a b h1 h2 h3 h

/-- class `unhashable`: `KnownValue([1]) == KnownValue([1])` but the hashes (identity based) differ. -/
theorem unhashable_witness :
    Ty.beq (.known (.list [.int 1])) (.known (.list [.int 1])) = true ∧
    Ty.hashEq (.known (.list [.int 1])) (.known (.list [.int 1])) = false := by
  constructor
  · exact Ty.beq_refl _
  · decide

/-- class `unionOrder`: `int | str == str | int` but the hashes (order sensitive) differ. -/
theorem unionOrder_witness :
    Ty.beq (.union [.typed C.int, .typed C.str]) (.union [.typed C.str, .typed C.int]) = true ∧
    Ty.hashEq (.union [.typed C.int, .typed C.str]) (.union [.typed C.str, .typed C.int]) = false := by
  constructor
  · simp [Ty.beq, Ty.beqList, Ty.subsetH, Ty.memH, Ty.hashEq, C.int, C.str]
  · decide

/-- class `unhashable`, right operand: `(frozenset({1}),) == ({1},)` (same type, equal), the left
literal is hashable, the right one is not. -/
theorem unhashableRight_witness :
    Ty.beq (.known (.tuple [.fset [.int 1]])) (.known (.tuple [.set [.int 1]])) = true ∧
    (Ty.known (.tuple [.fset [.int 1]])).hasUnhashable = false ∧
    (Ty.known (.tuple [.fset [.int 1]])).hasUnion = false ∧
    Ty.hashEq (.known (.tuple [.fset [.int 1]])) (.known (.tuple [.set [.int 1]])) = false := by
  refine ⟨?_, by decide, by decide, by decide⟩
  simp only [Ty.beq]; decide

/-- Hence the full statement fails. -/
theorem eqImpHash_false : ¬ EqImpHash := fun h => by
  have := h _ _ unhashable_witness.1
  rw [unhashable_witness.2] at this
  cases this

/-! ## 4–5. shape of the result -/

/-- **Uniting never nests unions**: if every operand is flat (top level: its union members are
neither unions nor annotated unions) then so is the result. -/
theorem unite_flat (vs : List Ty) (h : ∀ v ∈ vs, v.flat = true) : (unite vs).flat = true :=
  unite_flat' h

/-- The same for deep flatness (`Ty.flatD`: no union anywhere inside has a union / annotated-union
member): uniting deeply flat values gives a deeply flat value. -/
theorem unite_flatD (vs : List Ty) (h : ∀ v ∈ vs, v.flatD = true) : (unite vs).flatD = true :=
  unite_flatD' h

/-- `Never` is an identity of uniting (on either side: see also `unite_never_right_partial`). -/
theorem unite_never_id (vs : List Ty) : unite (Ty.never :: vs) = unite vs := unite_never_cons vs

/-- … and uniting a single value that is not a union / annotated union returns that value. -/
theorem unite_single (a : Ty) (h : a.isU = false) : unite [a] = a := unite_single' h

/-- More generally `unite [a] = a` (hence `unite [Never, a] = a`) for every `a` that is not an
annotated union, not a one-member union and has no two `==` members. -/
theorem unite_single_partial (a : Ty) (h1 : isAnnUnion a = false) (h2 : nonNormalUnion a = false) :
    unite [a] = a := unite_single_normal h1 h2

/-- `Never` as right identity, same side conditions. -/
theorem unite_never_right_partial (a : Ty) (h1 : isAnnUnion a = false)
    (h2 : nonNormalUnion a = false) : unite [a, Ty.never] = a := by
  have : unite [a, Ty.never] = unite [a] := by simp [unite, Ty.never, flatten1]
  rw [this]; exact unite_single_normal h1 h2

/-! ## 6. members -/

/-- `==` values have exactly the same members (for every class table and object). -/
theorem beq_mem (tbl : ClassTable) (a b : Ty) (h : Ty.beq a b = true) (o : Obj) :
    mem tbl o a = mem tbl o b := Ty.beq_mem' tbl h o

/-- **The members of a union of values are exactly the members of the operands** — full strength:
every class table, every object, every operand list (no side condition at all). -/
theorem unite_mem (tbl : ClassTable) (o : Obj) (vs : List Ty) :
    mem tbl o (unite vs) = vs.any (fun v => mem tbl o v) := unite_mem' tbl o vs

/-! ### the union accepts its members / the operands (model of `MultiValuedValue.can_assign`: member-wise
for every number of members — the literal fast path `_get_known_subvals` that the implementation takes
for unions of ≥ 10 members has no counterpart in the model, the correspondence and the
accepts-operand search on big unions tie it to these statements) -/

/-- **A union accepts each of its members**, in both modes, whatever the number of members: for every
class table satisfying the table laws and every member that is well-formed in the weak sense
`Ty.wfR` (C04: every type accepts itself). -/
theorem union_accepts_member (tbl : ClassTable) (htbl : tableOk tbl = true) (x : Bool) (ts : List Ty)
    (m : Ty) (hm : m ∈ ts) (hw : m.wfR tbl = true) : ca tbl x (.union ts) m = true :=
  union_accepts_member' (laws4_of_tableOk tbl htbl) x ts m hm hw

/-- **Uniting yields a value that accepts each operand** — when no two flattened members of the
operands are the same dict key (`keyNodup`: nothing is merged, so every member of every operand is
itself a member of the result) and the flattened members of the operand are weakly well-formed.
(With merging the statement needs that `can_assign` respects `==` on the right, which is not proved.) -/
theorem unite_accepts_partial (tbl : ClassTable) (htbl : tableOk tbl = true) (x : Bool) (vs : List Ty)
    (v : Ty) (hv : v ∈ vs) (hk : keyNodup (vs.flatMap flatten1) = true)
    (hw : ∀ m ∈ flatten1 v, m.wfR tbl = true) : ca tbl x (unite vs) v = true :=
  unite_accepts' (laws4_of_tableOk tbl htbl) x vs v hv hk hw

/-! ## 7. semilattice laws -/

/-- **Full statement of commutativity** (false: `unite_comm_unhashable_witness`). -/
def UniteComm : Prop := ∀ a b : Ty, Ty.beq (unite [a, b]) (unite [b, a]) = true

/-- **Commutativity outside the class `unhashable`**: uniting the same operands, none of which
contains an unhashable literal, in any order gives `==` results. (Nested unions, annotated unions,
duplicate members do not matter.) -/
theorem unite_perm_partial (vs ws : List Ty) (h : vs.Perm ws)
    (hu : ∀ v ∈ vs, v.hasUnhashable = false) : Ty.beq (unite vs) (unite ws) = true :=
  unite_perm' h fun v hv => (hasUnhashable_flatten1 v).mp (hu v hv)
/-- Commutativity for two operands without unhashable literal. -/
theorem unite_comm_partial (a b : Ty) (ha : a.hasUnhashable = false) (hb : b.hasUnhashable = false) :
    Ty.beq (unite [a, b]) (unite [b, a]) = true :=
  unite_perm_partial _ _ (List.Perm.swap b a []) (by simp [ha, hb])

/-- class `unhashable`: `[1] | [2]` against `[2] | [1]`: neither the same tuple nor (the literals
have identity hashes) the same set. -/
theorem unite_comm_unhashable_witness :
    Ty.beq (unite [.known (.list [.int 1]), .known (.list [.int 2])])
      (unite [.known (.list [.int 2]), .known (.list [.int 1])]) = false := by
  simp [unite, flatten1, dedup, dictMem, Ty.hashEq, Obj.hashable, Ty.beq, Ty.beqList, Ty.subsetH,
    Ty.memH, Obj.same, Obj.tag, Obj.pyEq, Obj.pyEqList]

theorem uniteComm_false : ¬ UniteComm := fun h => by
  have := h (.known (.list [.int 1])) (.known (.list [.int 2]))
  rw [unite_comm_unhashable_witness] at this
  cases this
/-- **Full statement of associativity** (false for non-flat operands: `unite_assoc_nested_witness`). -/
def UniteAssoc : Prop := ∀ a b c : Ty, Ty.beq (unite [unite [a, b], c]) (unite [a, unite [b, c]]) = true

/-- **Associativity for flat operands — as an identity, not only up to `==`.** -/
theorem unite_assoc_partial (a b c : Ty) (ha : a.flat = true) (hb : b.flat = true)
    (hc : c.flat = true) : unite [unite [a, b], c] = unite [a, unite [b, c]] :=
  unite_assoc' ha hb hc

/-- the same up to `==` -/
theorem unite_assoc_beq_partial (a b c : Ty) (ha : a.flat = true) (hb : b.flat = true)
    (hc : c.flat = true) : Ty.beq (unite [unite [a, b], c]) (unite [a, unite [b, c]]) = true := by
  rw [unite_assoc' ha hb hc]; exact Ty.beq_refl _

/-- n-ary form: an inner `unite` of flat operands can be spliced into the outer operand list. -/
theorem unite_unite_partial (us vs ws : List Ty) (h : ∀ v ∈ vs, v.flat = true) :
    unite (us ++ unite vs :: ws) = unite (us ++ vs ++ ws) := by
  have hf := flatten1_unite h
  rw [unite_eq, unite_eq (us ++ vs ++ ws)]
  simp only [List.flatMap_append, List.flatMap_cons, hf, dedup_append, dedup_dedup]

/-- a union nested as the only member of a union: associativity fails even up to `==` -/
theorem unite_assoc_nested_witness :
    Ty.beq (unite [unite [.union [.union [.typed C.int, .typed C.str]], Ty.never], .typed C.int])
      (unite [.union [.union [.typed C.int, .typed C.str]], unite [Ty.never, .typed C.int]]) = false := by
  simp [unite, flatten1, dedup, dictMem, Ty.never, Ty.hashEq, Ty.beq, Ty.beqList,
    Ty.subsetH, Ty.memH, C.int, C.str]

theorem uniteAssoc_false : ¬ UniteAssoc := fun h => by
  have := h (.union [.union [.typed C.int, .typed C.str]]) Ty.never (.typed C.int)
  rw [unite_assoc_nested_witness] at this
  cases this

/-- **Full statement of idempotence** (false, see the four witnesses). -/
def UniteIdem : Prop := ∀ a : Ty, Ty.beq (unite [a, a]) a = true

/-- **Idempotence outside the classes `annotatedUnion`, `dupUnion`, one-member union and
`unhashable` — as an identity**: if `a` is not an annotated union, is not a one-member union, has
no two `==` members and contains no unhashable literal, then `unite [a, a]` is `a` itself. -/
theorem unite_idem_partial (a : Ty) (h1 : isAnnUnion a = false) (h2 : nonNormalUnion a = false)
    (h3 : a.hasUnhashable = false) : unite [a, a] = a :=
  unite_idem' h1 h2 h3

/-- the same up to `==` -/
theorem unite_idem_beq_partial (a : Ty) (h1 : isAnnUnion a = false) (h2 : nonNormalUnion a = false)
    (h3 : a.hasUnhashable = false) : Ty.beq (unite [a, a]) a = true := by
  rw [unite_idem' h1 h2 h3]; exact Ty.beq_refl a
/-- class `unhashable`: `[1] | [1]` keeps both literals. -/
theorem unite_idem_unhashable_witness :
    unite [.known (.list [.int 1]), .known (.list [.int 1])] =
      .union [.known (.list [.int 1]), .known (.list [.int 1])] ∧
    Ty.beq (unite [.known (.list [.int 1]), .known (.list [.int 1])]) (.known (.list [.int 1])) = false := by
  have : unite [.known (.list [.int 1]), .known (.list [.int 1])] =
      .union [.known (.list [.int 1]), .known (.list [.int 1])] := by
    simp [unite, flatten1, dedup, dictMem, Ty.hashEq, Obj.hashable]
  exact ⟨this, by rw [this]; simp [Ty.beq]⟩


/-- class `unhashable`, as a union member: `(int | [1]) | (int | [1])` keeps the literal twice and is
not `==` to the operand. -/
theorem unite_idem_unhashableMember_witness :
    Ty.beq (unite [.union [.typed C.int, .known (.list [.int 1])], .union [.typed C.int, .known (.list [.int 1])]])
      (.union [.typed C.int, .known (.list [.int 1])]) = false := by
  simp [unite, flatten1, dedup, dictMem, Ty.hashEq, Obj.hashable, Ty.beq, Ty.beqList, Ty.subsetH,
    Ty.memH]
/-- class `annotatedUnion`: the metadata is handed down to the members. -/
theorem annotatedUnion_witness :
    Ty.beq (unite [.annotated (.union [.typed C.int, .typed C.str]),
        .annotated (.union [.typed C.int, .typed C.str])])
      (.annotated (.union [.typed C.int, .typed C.str])) = false := by
  simp [unite, flatten1, annotate, dedup, dictMem, Ty.hashEq, Ty.beq, C.int, C.str]

/-- class `dupUnion`: `MultiValuedValue([int, int])` is de-duplicated. -/
theorem dupUnion_witness :
    Ty.beq (unite [.union [.typed C.int, .typed C.int], .union [.typed C.int, .typed C.int]])
      (.union [.typed C.int, .typed C.int]) = false := by
  simp [unite, flatten1, dedup, dictMem, Ty.hashEq, Ty.beq]

/-- one-member union: `MultiValuedValue([int])` collapses to `int`. -/
theorem singletonUnion_witness :
    Ty.beq (unite [.union [.typed C.int], .union [.typed C.int]]) (.union [.typed C.int]) = false := by
  simp [unite, flatten1, dedup, dictMem, Ty.hashEq, Ty.beq]

theorem uniteIdem_false : ¬ UniteIdem := fun h => by
  have := h (.union [.typed C.int])
  rw [singletonUnion_witness] at this
  cases this

/-- **Full statement of "equal alternatives are merged"** (false: `unionOrder_unite_witness`). -/
def UniteMerges : Prop := ∀ vs : List Ty, hasDupMembers (unite vs) = false

/-- **Equal alternatives are merged, outside `unionOrder` / `unhashable`**: if every flattened
member of every operand is tidy, the result has no two `==` members and is not a one-member union. -/
theorem unite_merges_partial (vs : List Ty) (h : ∀ v ∈ vs, ∀ x ∈ flatten1 v, x.tidy = true) :
    nonNormalUnion (unite vs) = false := unite_normal' h

/-- class `unionOrder`: `list[int | str]` and `list[str | int]` are `==` but both are kept. -/
theorem unionOrder_unite_witness :
    hasDupMembers (unite [.generic C.list [.union [.typed C.int, .typed C.str]],
      .generic C.list [.union [.typed C.str, .typed C.int]]]) = true := by
  simp [unite, flatten1, dedup, dictMem, Ty.hashEq, Ty.hashEqList, Ty.beq, Ty.beqList, Ty.subsetH,
    Ty.memH, Ty.memBy, hasDupMembers, hasDupMembers.dupIn, C.int, C.str, C.list]

theorem uniteMerges_false : ¬ UniteMerges := fun h => by
  have := h [.generic C.list [.union [.typed C.int, .typed C.str]],
      .generic C.list [.union [.typed C.str, .typed C.int]]]
  rw [unionOrder_unite_witness] at this
  cases this

/-! ## 8. substitution -/

/-- The empty substitution is the identity on every value. -/
theorem subst_empty (t : Ty) : subst [] t = t := subst_nil t

/-- **Substitution is the identity on values without type variables** that are deeply flat (the
union clause re-runs the flattening constructor, so a nested union would be flattened). -/
theorem subst_id_closed (m : TvMap) (t : Ty) (h1 : t.tvars = []) (h2 : t.flatD = true) :
    subst m t = t := subst_id_closed' m t h1 h2

/-- without flatness the statement fails -/
theorem subst_id_nested_witness :
    subst [(0, .typed C.int)] (.union [.union [.typed C.int, .typed C.str]]) =
      .union [.typed C.int, .typed C.str] := by
  simp [subst, substL, mkUnion, flatten1]

/-- **Substitution replaces every occurrence**: if every variable of `t` is mapped to a term
without variables, no variable is left. -/
theorem subst_replaces_all (m : TvMap) (t : Ty)
    (h : ∀ i ∈ t.tvars, ∃ u, m.get i = some u ∧ u.tvars = []) : (subst m t).tvars = [] :=
  subst_replaces_all' m t h

/-- Substitution respects hash equality, provided the substituted right-hand side contains no
unhashable literal (the replacement of a variable must hash equal to itself). -/
theorem subst_hashEq_congr_partial (m : TvMap) (a b : Ty) (h : Ty.hashEq a b = true)
    (hu : (subst m b).hasUnhashable = false) : Ty.hashEq (subst m a) (subst m b) = true :=
  hashEq_subst m a b h hu

/-- Substitution does not respect `==` in general: `(int | str) | [1]` and `(str | int) | [1]`
(nested unions) are member-wise `==`; substitution re-flattens them to `int | str | [1]` and
`str | int | [1]`, which are neither the same tuple nor the same set. -/
theorem subst_beq_congr_witness :
    Ty.beq (.union [.union [.typed C.int, .typed C.str], .known (.list [.int 1])])
      (.union [.union [.typed C.str, .typed C.int], .known (.list [.int 1])]) = true ∧
    Ty.beq (subst [(0, .any)] (.union [.union [.typed C.int, .typed C.str], .known (.list [.int 1])]))
      (subst [(0, .any)] (.union [.union [.typed C.str, .typed C.int], .known (.list [.int 1])])) = false := by
  simp [subst, substL, mkUnion, flatten1, Ty.beq, Ty.beqList, Ty.subsetH, Ty.memH, Ty.hashEq,
    Obj.hashable, Obj.same, Obj.tag, Obj.pyEq, Obj.pyEqList, C.int, C.str]
/-- **Full statement**: substitution commutes with uniting up to `==` (false: `substCollapse_witness`). -/
def SubstUniteComm : Prop :=
  ∀ (m : TvMap) (a b : Ty), Ty.beq (subst m (unite [a, b])) (unite [subst m a, subst m b]) = true

/-- **Substitution commutes with uniting outside the class `substCollapse`** (and `annotatedUnion`,
`unhashable`): for flat operands that are not annotated unions, if substituting into the union of
the operands gives neither an annotated union, nor a one-member union, nor a union with two `==`
members, and the substituted operands contain no unhashable literal, then
`subst m (unite [a, b]) == unite [subst m a, subst m b]`. -/
theorem subst_unite_comm_partial (m : TvMap) (a b : Ty)
    (ha : isAnnUnion a = false) (hb : isAnnUnion b = false)
    (hfa : a.flat = true) (hfb : b.flat = true)
    (hL1 : isAnnUnion (subst m (unite [a, b])) = false)
    (hL2 : nonNormalUnion (subst m (unite [a, b])) = false)
    (hua : (subst m a).hasUnhashable = false)
    (hub : (subst m b).hasUnhashable = false) :
    Ty.beq (subst m (unite [a, b])) (unite [subst m a, subst m b]) = true :=
  subst_unite' m ha hb hfa hfb hL1 hL2 hua hub
/-- class `substCollapse`: `T | int` with `T := int`: substituting into the union gives
`MultiValuedValue([int, int])`, uniting the substituted operands gives `int`. -/
theorem substCollapse_witness :
    subst [(0, .typed C.int)] (unite [.tvar 0, .typed C.int]) = .union [.typed C.int, .typed C.int] ∧
    unite [subst [(0, .typed C.int)] (.tvar 0), subst [(0, .typed C.int)] (.typed C.int)] = .typed C.int ∧
    Ty.beq (.union [.typed C.int, .typed C.int]) (.typed C.int) = false := by
  refine ⟨?_, ?_, by simp [Ty.beq]⟩
  · simp [unite, flatten1, dedup, dictMem, Ty.hashEq, subst, substL, mkUnion, TvMap.get]
  · simp [unite, flatten1, dedup, dictMem, Ty.hashEq, Ty.beq, subst, TvMap.get]

theorem substUniteComm_false : ¬ SubstUniteComm := fun h => by
  have := h [(0, .typed C.int)] (.tvar 0) (.typed C.int)
  rw [substCollapse_witness.1, substCollapse_witness.2.1, substCollapse_witness.2.2] at this
  cases this

/-! ## 9. substitution outside the term language: the child positions of the Value classes

`CallableValue`, `TypedDictValue`, `DictIncompleteValue`, type guards, … are outside the Lean term
language (adding constructors to `Ty` would touch every kernel of the other properties). Their
substitution clauses are searched on the implementation by the `tv` stream (harness/props/c14x.py) with a
structural occurrence oracle; what is pinned here is the *coverage* of that stream: the table of child
positions regenerated from the live tree is exactly the registered one, the harness uses the same
table, and every planted position has a generator. -/

/-- Every dataclass field of a Value class of the live tree that can hold a value is registered
(a container field added upstream breaks this obligation). -/
theorem value_children_registered :
    valueChildren.all (fun r => registeredChildren.any (fun q => q.1 == r.1 && q.2.1 == r.2)) = true := by
  decide +kernel

/-- No registered row is stale. -/
theorem registered_children_live :
    registeredChildren.all (fun q => valueChildren.contains (q.1, q.2.1)) = true := by decide +kernel

/-- The harness works with exactly the pinned table. -/
theorem harness_registry_pinned : harnessRegistry = registeredChildren := by decide +kernel

/-- Every child position has a planter in the `tv` stream. -/
theorem planted_children_have_planters :
    (childrenWith "planted").all (fun r => harnessPlanters.contains r) = true := by decide +kernel

/-- The places of pyanalyze/value.py that build an `AnnotatedValue` directly, resp. through the normalising
`annotate_value`, are the registered ones: a switch from the helper to the raw constructor (or a new site)
breaks this obligation. -/
theorem annotated_construction_sites_registered : annotatedSites = registeredAnnotatedSites := by
  decide +kernel

/-! ## Non-vacuity: every hypothesis set is met by a non-trivial input -/

/-- `dict[str, Literal[(1,)]]` and `dict[str, Literal[(True,)]]`: different terms, `==`, same hash -/
def c14exA : Ty := .generic C.dict [.typed C.str, .known (.tuple [.int 1])]
def c14exB : Ty := .generic C.dict [.typed C.str, .known (.tuple [.bool true])]
example : c14exA.hasUnion = false := by decide
example : c14exA.hasZeroLit = false ∧ c14exB.hasZeroLit = false := by decide
example : Ty.beq c14exA c14exB = true :=
  hashEq_imp_beq_partial c14exA c14exB (by decide) (by decide) (by decide)
example : c14exA.hasUnhashable = false := by decide
example : c14exB.hasUnhashable = false := by decide
example : Ty.beq c14exA c14exB = true := by
  simp [c14exA, c14exB, Ty.beq, Ty.beqList, Obj.same, Obj.tag, Obj.pyEq, Obj.pyEqList]
example : Ty.hashEq c14exA c14exB = true :=
  eq_hash_partial c14exA c14exB (by decide) (by decide) (by decide)
    (by simp [c14exA, c14exB, Ty.beq, Ty.beqList, Obj.same, Obj.tag, Obj.pyEq, Obj.pyEqList])

/-- `int | str`, `Annotated[str | bytes, m]`, `float`, `list[int | str] | None` -/
def c14exU : Ty := .union [.typed C.int, .typed C.str]
def c14exAnn : Ty := .annotated (.union [.typed C.str, .typed C.bytes])
def c14exF : Ty := .typed C.float
def c14exG : Ty := .union [.generic C.list [c14exU], .known .none]
example : ∀ v ∈ [c14exU, c14exAnn, c14exF, c14exG], v.flat = true := by decide
example : (unite [c14exU, c14exAnn, c14exF, c14exG]).flat = true := unite_flat _ (by decide)
example : c14exU.flat = true ∧ c14exAnn.flat = true ∧ c14exF.flat = true := by decide
example : (unite [c14exU, c14exAnn, c14exF, c14exG]).flatD = true := unite_flatD _ (by decide)
example : unite [unite [c14exU, c14exAnn], c14exF] = unite [c14exU, unite [c14exAnn, c14exF]] :=
  unite_assoc_partial _ _ _ (by decide) (by decide) (by decide)

example : c14exF.isU = false := by decide
example : isAnnUnion c14exU = false ∧ isAnnUnion c14exG = false := by decide
example : nonNormalUnion c14exU = false := by
  simp [c14exU, nonNormalUnion, hasDupMembers, hasDupMembers.dupIn, Ty.memBy, Ty.beq, C.int, C.str]
example : unite [c14exU] = c14exU :=
  unite_single_partial _ (by decide)
    (by simp [c14exU, nonNormalUnion, hasDupMembers, hasDupMembers.dupIn, Ty.memBy, Ty.beq, C.int, C.str])

/-- idempotence: `int | str` and a hashable non-union -/
example : isAnnUnion c14exU = false ∧ c14exU.hasUnhashable = false := by decide
example : unite [c14exU, c14exU] = c14exU :=
  unite_idem_partial _ (by decide)
    (by simp [c14exU, nonNormalUnion, hasDupMembers, hasDupMembers.dupIn, Ty.memBy, Ty.beq, C.int, C.str])
    (by decide)
example : isAnnUnion c14exA = false ∧ nonNormalUnion c14exA = false ∧ c14exA.hasUnhashable = false := by decide

/-- commutativity: nested unions and an annotated union are fine -/
example : ∀ v ∈ [c14exG, c14exAnn, c14exA], v.hasUnhashable = false := by decide
example : Ty.beq (unite [c14exG, c14exAnn, c14exA]) (unite [c14exA, c14exG, c14exAnn]) = true :=
  unite_perm_partial _ _ (List.perm_append_comm (l₁ := [c14exG, c14exAnn]) (l₂ := [c14exA])) (by decide)

/-- transitivity: `int | Literal[(1,)]`, `Literal[(True,)] | int`, `int | Literal[(1,)]` -/
example : (Ty.union [.typed C.int, .known (.tuple [.int 1])]).tidyU = true ∧
    (Ty.union [.known (.tuple [.bool true]), .typed C.int]).tidyU = true := by decide
example : c14exA.hasUnion = false := by decide
example : Ty.beq (.union [.typed C.int, .known (.tuple [.int 1])])
    (.union [.typed C.int, .known (.tuple [.bool true])]) = true :=
  beq_trans_tidyU_partial _ (.union [.known (.tuple [.bool true]), .typed C.int]) _
    (by decide) (by decide) (by decide)
    (by simp [Ty.beq, Ty.beqList, Ty.subsetH, Ty.memH, Ty.hashEq, Obj.hashable, Obj.hashableAll,
          Obj.same, Obj.tag, Obj.pyEq, Obj.pyEqList, C.int])
    (by simp [Ty.beq, Ty.beqList, Ty.subsetH, Ty.memH, Ty.hashEq, Obj.hashable, Obj.hashableAll,
          Obj.same, Obj.tag, Obj.pyEq, Obj.pyEqList, C.int])

/-- tidy members: `int | str`, `int`, `Literal[1]`, `Annotated[str | bytes, m]` -/
example : ∀ v ∈ [c14exU, .typed C.int, .known (.int 1), c14exAnn], ∀ x ∈ flatten1 v, x.tidy = true := by
  decide
example : nonNormalUnion (unite [c14exU, .typed C.int, .known (.int 1), c14exAnn]) = false :=
  unite_merges_partial _ (by decide)

/-- `dict[str, list[int | str]]`: closed and deeply flat -/
def c14exC : Ty := .generic C.dict [.typed C.str, .generic C.list [c14exU]]
example : c14exC.tvars = [] := by decide
example : c14exC.flatD = true := by decide
example : subst [(0, c14exF)] c14exC = c14exC := subst_id_closed _ _ (by decide) (by decide)

/-- `T0 | dict[T1, T0]` with `T0 := int`, `T1 := list[str]` -/
def c14exM : TvMap := [(0, .typed C.int), (1, .generic C.list [.typed C.str])]
def c14exT : Ty := .union [.tvar 0, .generic C.dict [.tvar 1, .tvar 0]]
theorem exT_mapped : ∀ i ∈ c14exT.tvars, ∃ u, c14exM.get i = some u ∧ u.tvars = [] := by
  intro i hi
  simp only [c14exT, Ty.tvars, Ty.tvarsL, List.append_nil, List.cons_append, List.nil_append,
    List.mem_cons, List.not_mem_nil, or_false] at hi
  rcases hi with rfl | rfl | rfl
  · exact ⟨.typed C.int, rfl, rfl⟩
  · exact ⟨.generic C.list [.typed C.str], rfl, rfl⟩
  · exact ⟨.typed C.int, rfl, rfl⟩
example : (subst c14exM c14exT).tvars = [] := subst_replaces_all c14exM c14exT exT_mapped

/-- `T0 | None` united with `str`, `T0 := int | bytes`: the substituted union is re-flattened -/
def c14exM2 : TvMap := [(0, .union [.typed C.int, .typed C.bytes])]
def c14exSa : Ty := .union [.tvar 0, .known .none]
def c14exSb : Ty := .typed C.str
theorem exS_left : subst c14exM2 (unite [c14exSa, c14exSb]) =
    .union [.typed C.int, .typed C.bytes, .known .none, .typed C.str] := by
  simp [c14exM2, c14exSa, c14exSb, unite, flatten1, dedup, dictMem, Ty.hashEq, Obj.zeroHashCls, Ty.beq,
    subst, substL, mkUnion, TvMap.get, C.str]
example : Ty.beq (subst c14exM2 (unite [c14exSa, c14exSb])) (unite [subst c14exM2 c14exSa, subst c14exM2 c14exSb]) = true :=
  subst_unite_comm_partial c14exM2 c14exSa c14exSb (by decide) (by decide) (by decide) (by decide)
    (by rw [exS_left]; decide)
    (by rw [exS_left]
        simp [nonNormalUnion, hasDupMembers, hasDupMembers.dupIn, Ty.memBy, Ty.beq, C.int, C.bytes, C.str])
    (by simp [c14exM2, c14exSa, subst, substL, mkUnion, TvMap.get, flatten1, Ty.hasUnhashable,
          Ty.hasUnhashableL, Obj.hashable])
    (by simp [c14exM2, c14exSb, subst, Ty.hasUnhashable])


/-- the accepts-operand statements on the live class table -/
theorem c14_liveTable_ok : tableOk liveTable = true := by decide +kernel
example : ([c14exU, c14exF] : List Ty).flatMap flatten1 = [.typed C.int, .typed C.str, .typed C.float] := rfl
theorem c14ex_keyNodup : keyNodup ([c14exU, c14exF].flatMap flatten1) = true := by
  simp [c14exU, c14exF, flatten1, keyNodup, Ty.keq, Ty.hashEq, C.int, C.str, C.float]
example : ∀ m ∈ flatten1 c14exU, m.wfR liveTable = true := by decide +kernel
example : ca liveTable false (unite [c14exU, c14exF]) c14exU = true :=
  unite_accepts_partial liveTable c14_liveTable_ok false _ _ (by simp) c14ex_keyNodup (by decide +kernel)
example : ca liveTable true (.union [.typed C.int, .known (.list [.int 1]), .typed C.str]) (.known (.list [.int 1])) = true :=
  union_accepts_member liveTable c14_liveTable_ok true _ _ (by simp) (by decide +kernel)

end Pya
