import PyaModel.Spec.D14
import PyaModel.Spec.Mem
namespace Pya
end Pya
