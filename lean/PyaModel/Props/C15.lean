import PyaModel.Proofs.C15
import PyaModel.Generated.ClassTable
/-!
# Props/C15 — type-variable solutions satisfy the bounds they were solved from

Model: `solve le join` (Core/TypeVar.lean, follows `pyanalyze/typevar.py: solve` branch by branch),
parametrised by the assignability relation `le a b` ("`a` may be assigned to `b`") and by
`join` (`unite_values`). Spec: `Sat` / `specOk` (Spec/TypeVarSpec.lean). All theorems are about
every list of bounds — no size bound — and come in three forms:

* algebraic: for every `le`, `join` and carrier `S` such that `le` is a preorder on `S` with least
  upper bounds `join` (`Laws`, fields `le_refl`, `le_trans`, …), `S` closed under `join`, `Any`
  compatible with everything (`AnyLaws`), and bound values in `S ∪ {Any}`;
* decidable (`…_local`): the same conclusion from the *finite* check `D15_nonTransitive le join bs = false`
  (the laws hold on the values the solver meets on this input), the form the driver evaluates;
* instantiated with the shared models (`solveCa tbl`, i.e. `le := ca tbl false`, `join := unite`).

Exception classes (Spec/TypeVarSpec.lean): `D15_twoUppers`, `D15_oneOfUpper`, `D15_nonTransitive`;
each has a witness below on which the full statement is false. (`anyUpper` — an `Any` upper bound
wiping out the earlier ones — was repaired in /repo, commit 6dfe6d2; its witnesses are kept as regression theorems.)
-/
namespace Pya.C15

/-! ## full statements (not asserted) -/

/-- the solution accepts every lower bound -/
def LowerFull (le : Ty → Ty → Bool) (join : Ty → Ty → Ty) : Prop :=
  ∀ bs s src, solve le join bs = .ok s src → ∀ l ∈ lowers bs, le l s = true
/-- the solution is accepted by every upper bound (a declared `bound=` is an upper bound) -/
def UpperFull (le : Ty → Ty → Bool) (join : Ty → Ty → Ty) : Prop :=
  ∀ bs s src, solve le join bs = .ok s src → ∀ u ∈ uppers bs, le s u = true
/-- the verdict does not depend on the order of the bounds -/
def OrderFull (le : Ty → Ty → Bool) (join : Ty → Ty → Ty) : Prop :=
  ∀ bs bs', bs.Perm bs' → (solve le join bs).isOk = (solve le join bs').isOk

/-! ## lower bounds — full strength -/

/-- **C15, lower bounds, full strength.** Let `le` be reflexive and transitive on a carrier `S`
closed under `join`, `join a b` an upper bound of `a` and `b` (hypotheses `laws.le_refl`,
`laws.le_trans`, `laws.le_join_left/right`), and `Any` assignable both ways. For every list of
bounds over `S ∪ {Any}` — any length, any order, with or without constraints — an accepted solve
returns a value that accepts *every* lower bound. -/
theorem solve_lower {S : Ty → Prop} {le : Ty → Ty → Bool} {join : Ty → Ty → Ty}
    (laws : Laws S le join) (anyLaws : AnyLaws le) (join_closed : ∀ a b, S a → S b → S (join a b))
    (bs : List Bound) (hvals : ∀ v ∈ boundVals bs, v = .any ∨ S v) {s : Ty} {src : Src}
    (h : solve le join bs = .ok s src) : ∀ l ∈ lowers bs, le l s = true :=
  solve_lower_core laws anyLaws bs (reach_AS_of_closed anyLaws join_closed bs hvals) h

/-- The same from a decidable hypothesis on the input alone: assignability is reflexive,
transitive and `join` an upper bound *on the finitely many values the solver meets on `bs`*. -/
theorem solve_lower_local {le : Ty → Ty → Bool} {join : Ty → Ty → Ty} (anyLaws : AnyLaws le)
    (bs : List Bound) (hnt : D15_nonTransitive le join bs = false) {s : Ty} {src : Src}
    (h : solve le join bs = .ok s src) : ∀ l ∈ lowers bs, le l s = true := by
  have hl : lawsOn le join (reach le join bs) = true := by simpa [D15_nonTransitive] using hnt
  exact solve_lower_core (laws_of_lawsOn _ hl) anyLaws bs (as_sloc _) h

/-- **… for the modelled `can_assign` and `unite_values`.** Outside the class `nonTransitive`, the
value `resolve_bounds_map` chooses accepts every argument-derived lower bound. -/
theorem solveCa_lower_partial (tbl : ClassTable) (bs : List Bound)
    (hnt : D15_nonTransitive (leCa tbl) joinU bs = false) {s : Ty} {src : Src}
    (h : solveCa tbl bs = .ok s src) : ∀ l ∈ lowers bs, ca tbl false s l = true :=
  solve_lower_local (anyLaws_ca tbl) bs hnt h

/-! ## upper bounds — partial -/

/-- **C15, upper bounds.** Under the same algebraic hypotheses, if the upper bounds are pairwise
comparable (`¬ twoUppers`; an `Any` upper bound is comparable with everything) and constraints do not
come with an upper bound (`¬ oneOfUpper`), an accepted solve returns a value that every upper
bound accepts. -/
theorem solve_upper_partial {S : Ty → Prop} {le : Ty → Ty → Bool} {join : Ty → Ty → Ty}
    (laws : Laws S le join) (anyLaws : AnyLaws le) (join_closed : ∀ a b, S a → S b → S (join a b))
    (bs : List Bound) (hvals : ∀ v ∈ boundVals bs, v = .any ∨ S v)
    (h2 : D15_twoUppers le bs = false) (h3 : D15_oneOfUpper bs = false)
    {s : Ty} {src : Src} (h : solve le join bs = .ok s src) : ∀ u ∈ uppers bs, le s u = true :=
  solve_upper_core laws anyLaws bs (reach_AS_of_closed anyLaws join_closed bs hvals) h2 h3 h

theorem solve_upper_local {le : Ty → Ty → Bool} {join : Ty → Ty → Ty} (anyLaws : AnyLaws le)
    (bs : List Bound) (hnt : D15_nonTransitive le join bs = false)
    (h2 : D15_twoUppers le bs = false) (h3 : D15_oneOfUpper bs = false)
    {s : Ty} {src : Src} (h : solve le join bs = .ok s src) : ∀ u ∈ uppers bs, le s u = true := by
  have hl : lawsOn le join (reach le join bs) = true := by simpa [D15_nonTransitive] using hnt
  exact solve_upper_core (laws_of_lawsOn _ hl) anyLaws bs (as_sloc _) h2 h3 h

/-- **… for the modelled `can_assign`:** outside the four exception classes the chosen value is
accepted by every upper bound and by the declared bound. -/
theorem solveCa_upper_partial (tbl : ClassTable) (bs : List Bound)
    (hnt : D15_nonTransitive (leCa tbl) joinU bs = false)
    (h2 : D15_twoUppers (leCa tbl) bs = false)
    (h3 : D15_oneOfUpper bs = false) {s : Ty} {src : Src}
    (h : solveCa tbl bs = .ok s src) : ∀ u ∈ uppers bs, ca tbl false u s = true :=
  solve_upper_local (anyLaws_ca tbl) bs hnt h2 h3 h

/-! ## constraints — full strength -/

/-- **C15, constraints, full strength, no hypothesis on `le` at all.** When constraints exist
(`cs` is the constraint list the solver ends up with), an accepted solve returns one of them, or `Any`. -/
theorem solve_constraint (le : Ty → Ty → Bool) (join : Ty → Ty → Ty) (bs : List Bound)
    {s : Ty} {src : Src} {cs : List Ty} (h : solve le join bs = .ok s src)
    (hcs : lastOneOf bs = some cs) : s ∈ cs ∨ s = .any :=
  solve_constraint_core bs h hcs

/-! ## the verdict — partial -/

/-- **C15, "when no such value exists the call is diagnosed" — and conversely.** Outside the
classes `twoUppers`, `oneOfUpper`, and with at most one constraint list, the solver
reports an error exactly when the order-free specification `specOk` finds the bounds
unsatisfiable (`specOk_iff_exists` below: when no value of the carrier satisfies them). -/
theorem solve_error_iff_partial {S : Ty → Prop} {le : Ty → Ty → Bool} {join : Ty → Ty → Ty}
    (laws : Laws S le join) (anyLaws : AnyLaws le) (join_closed : ∀ a b, S a → S b → S (join a b))
    (bs : List Bound) (hvals : ∀ v ∈ boundVals bs, v = .any ∨ S v)
    (h2 : D15_twoUppers le bs = false) (h3 : D15_oneOfUpper bs = false)
    (h4 : multiOneOf bs = false) :
    (solve le join bs).isOk = false ↔ specOk le bs = false := by
  rw [solve_isOk_eq_spec laws anyLaws bs (reach_AS_of_closed anyLaws join_closed bs hvals) h2 h3 h4]

theorem solve_error_iff_local {le : Ty → Ty → Bool} {join : Ty → Ty → Ty} (anyLaws : AnyLaws le)
    (bs : List Bound) (hnt : D15_nonTransitive le join bs = false)
    (h2 : D15_twoUppers le bs = false) (h3 : D15_oneOfUpper bs = false)
    (h4 : multiOneOf bs = false) :
    (solve le join bs).isOk = false ↔ specOk le bs = false := by
  have hl : lawsOn le join (reach le join bs) = true := by simpa [D15_nonTransitive] using hnt
  rw [solve_isOk_eq_spec (laws_of_lawsOn _ hl) anyLaws bs (as_sloc _) h2 h3 h4]

theorem solveCa_error_iff_partial (tbl : ClassTable) (bs : List Bound)
    (hnt : D15_nonTransitive (leCa tbl) joinU bs = false)
    (h2 : D15_twoUppers (leCa tbl) bs = false)
    (h3 : D15_oneOfUpper bs = false) (h4 : multiOneOf bs = false) :
    (solveCa tbl bs).isOk = false ↔ specOk (leCa tbl) bs = false :=
  solve_error_iff_local (anyLaws_ca tbl) bs hnt h2 h3 h4

/-- **the specification means what it says.** For pairwise comparable non-`Any` upper bounds,
constraints in the carrier and at most one constraint list, `specOk` holds exactly when some value of
the carrier satisfies every bound (`Sat`: accepts every lower bound, is accepted by every upper
bound, is one of the constraints). With `solve_error_iff_partial`: an error is reported iff no value
satisfies the bounds. -/
theorem specOk_iff_exists {S : Ty → Prop} {le : Ty → Ty → Bool} {join : Ty → Ty → Ty}
    (laws : Laws S le join) (anyLaws : AnyLaws le) (join_closed : ∀ a b, S a → S b → S (join a b))
    (bs : List Bound) (hvals : ∀ v ∈ boundVals bs, v = .any ∨ S v)
    (hopt : ∀ cs ∈ oneOfs bs, ∀ c ∈ cs, S c)
    (h2 : D15_twoUppers le bs = false) (h4 : multiOneOf bs = false)
    (hne : ∃ a, S a) :
    specOk le bs = true ↔ ∃ s, S s ∧ Sat le bs s :=
  specOk_iff_exists_core laws anyLaws bs (reach_AS_of_closed anyLaws join_closed bs hvals) hopt h2 h4 hne

/-! ## order independence — partial -/

/-- **C15, order independence.** Under the algebraic hypotheses, for bounds outside
`twoUppers` (a property of the multiset, stated for one order only) and with at most one constraint
list, every permutation of the bounds gets the same verdict. (Constraints together with upper
bounds — class `oneOfUpper` — do not disturb the verdict, only the solution.) -/
theorem solve_perm_partial {S : Ty → Prop} {le : Ty → Ty → Bool} {join : Ty → Ty → Ty}
    (laws : Laws S le join) (anyLaws : AnyLaws le) (join_closed : ∀ a b, S a → S b → S (join a b))
    (bs bs' : List Bound) (hperm : bs.Perm bs') (hvals : ∀ v ∈ boundVals bs, v = .any ∨ S v)
    (h2 : D15_twoUppers le bs = false) (h4 : multiOneOf bs = false) :
    (solve le join bs).isOk = (solve le join bs').isOk := by
  have hvals' : ∀ v ∈ boundVals bs', v = .any ∨ S v := by
    intro v hv
    apply hvals v
    simp only [boundVals, List.mem_append, List.mem_flatten] at hv ⊢
    rcases hv with (hv | hv) | ⟨cs, hcs, hv⟩
    · exact Or.inl (Or.inl ((lowers_perm hperm).mem_iff.mpr hv))
    · exact Or.inl (Or.inr ((uppers_perm hperm).mem_iff.mpr hv))
    · exact Or.inr ⟨cs, (oneOfs_perm hperm).mem_iff.mpr hcs, hv⟩
  rw [solve_isOk_eq_verdictSpec laws anyLaws bs (reach_AS_of_closed anyLaws join_closed bs hvals) h2 h4,
    solve_isOk_eq_verdictSpec laws anyLaws bs' (reach_AS_of_closed anyLaws join_closed bs' hvals')
      (by rw [twoUppers_perm le hperm]; exact h2)
      (by rw [multiOneOf_perm hperm]; exact h4),
    verdictSpec_perm le hperm h4]

/-- decidable form: the laws are checked on the values met in *both* orders -/
theorem solve_perm_local {le : Ty → Ty → Bool} {join : Ty → Ty → Ty} (anyLaws : AnyLaws le)
    (bs bs' : List Bound) (hperm : bs.Perm bs')
    (hnt : D15_nonTransitive le join bs = false) (hnt' : D15_nonTransitive le join bs' = false)
    (h2 : D15_twoUppers le bs = false) (h4 : multiOneOf bs = false) :
    (solve le join bs).isOk = (solve le join bs').isOk := by
  have hl : lawsOn le join (reach le join bs) = true := by simpa [D15_nonTransitive] using hnt
  have hl' : lawsOn le join (reach le join bs') = true := by simpa [D15_nonTransitive] using hnt'
  rw [solve_isOk_eq_verdictSpec (laws_of_lawsOn _ hl) anyLaws bs (as_sloc _) h2 h4,
    solve_isOk_eq_verdictSpec (laws_of_lawsOn _ hl') anyLaws bs' (as_sloc _)
      (by rw [twoUppers_perm le hperm]; exact h2)
      (by rw [multiOneOf_perm hperm]; exact h4),
    verdictSpec_perm le hperm h4]

/-- **… for the modelled `can_assign`:** outside the classes `twoUppers`,
`nonTransitive` the verdict of `resolve_bounds_map` does not depend on the order of the bounds. -/
theorem solveCa_perm_partial (tbl : ClassTable) (bs bs' : List Bound) (hperm : bs.Perm bs')
    (hnt : D15_nonTransitive (leCa tbl) joinU bs = false)
    (hnt' : D15_nonTransitive (leCa tbl) joinU bs' = false)
    (h2 : D15_twoUppers (leCa tbl) bs = false)
    (h4 : multiOneOf bs = false) :
    (solveCa tbl bs).isOk = (solveCa tbl bs').isOk :=
  solve_perm_local (anyLaws_ca tbl) bs bs' hperm hnt hnt' h2 h4

/-- `resolve_bounds_map` is `solve` after the order-preserving de-duplication; the theorems above
apply to the de-duplicated list (on which the driver also evaluates the exception classes). -/
theorem resolve_eq (le : Ty → Ty → Bool) (join : Ty → Ty → Ty) (bs : List Bound) :
    resolve le join bs = solve le join (dedupB [] bs) := rfl

/-- the de-duplication is order preserving: what `solve` sees is a subsequence of the bounds -/
theorem resolve_dedup_sublist (bs : List Bound) : (dedupB [] bs).Sublist bs := by
  simpa using dedupB_sublist bs []

/-! ## witnesses: the full statements are false, one input per exception class

A four-class hierarchy `bool < int < object`, `str < object` (class numbers 2, 1, 0, 5) with its
least upper bounds is a model of all the algebraic hypotheses; `9` is added as a "bare generic"
that is compatible with everything both ways without being `Any`. -/

def subH (a b : Nat) : Bool := a == b || b == 0 || (a == 2 && b == 1)

def leH : Ty → Ty → Bool
  | .any, _ => true
  | _, .any => true
  | .typed a, .typed b => subH a b
  | _, _ => false

def joinH : Ty → Ty → Ty
  | .typed a, .typed b => if subH a b then .typed b else if subH b a then .typed a else .typed 0
  | _, _ => .typed 0

/-- `leH` plus the gradual element `typed 9` -/
def leG : Ty → Ty → Bool
  | .typed 9, _ => true
  | _, .typed 9 => true
  | a, b => leH a b

def SHb : Ty → Bool
  | .typed c => c == 0 || c == 1 || c == 2 || c == 5
  | _ => false
def SH (t : Ty) : Prop := SHb t = true
instance : DecidablePred SH := fun t => inferInstanceAs (Decidable (SHb t = true))

def lowerHolds (le : Ty → Ty → Bool) (join : Ty → Ty → Ty) (bs : List Bound) : Bool :=
  match solve le join bs with | .ok s _ => satLower le bs s | _ => true
def upperHolds (le : Ty → Ty → Bool) (join : Ty → Ty → Ty) (bs : List Bound) : Bool :=
  match solve le join bs with | .ok s _ => satUpper le bs s | _ => true

def tInt : Ty := .typed 1
def tBool : Ty := .typed 2
def tStr : Ty := .typed 5
def tObj : Ty := .typed 0

/-! ## the call-level step: unify, then solve once over the union -/

/-- **the verdict of a call depends on the sequence of contributed bounds only, not on how they are
grouped into parameters** — full strength, no hypothesis. -/
theorem solveCall_grouping (le : Ty → Ty → Bool) (join : Ty → Ty → Ty) (gs gs' : List (List Bound))
    (h : unifyBounds gs = unifyBounds gs') : solveCall le join gs = solveCall le join gs' := by
  unfold solveCall; rw [h]

/-- in particular one parameter mentioning the type variable several times (`p: tuple[T, T]`) is
solved exactly like the same occurrences spread over several parameters (`x: T, y: T`) -/
theorem solveCall_one_parameter (le : Ty → Ty → Bool) (join : Ty → Ty → Ty) (leaves : List (List Bound)) :
    solveCall le join [unifyBounds leaves] = solveCall le join leaves := by
  simp [solveCall, unifyBounds]

/-- … and, outside the exception classes, not on the order of the contributions either (the
hypotheses speak about the de-duplicated unions, the lists `solve` works on). -/
theorem solveCallCa_perm_partial (tbl : ClassTable) (gs gs' : List (List Bound))
    (hperm : (dedupB [] (unifyBounds gs)).Perm (dedupB [] (unifyBounds gs')))
    (hnt : D15_nonTransitive (leCa tbl) joinU (dedupB [] (unifyBounds gs)) = false)
    (hnt' : D15_nonTransitive (leCa tbl) joinU (dedupB [] (unifyBounds gs')) = false)
    (h2 : D15_twoUppers (leCa tbl) (dedupB [] (unifyBounds gs)) = false)
    (h4 : multiOneOf (dedupB [] (unifyBounds gs)) = false) :
    (solveCallCa tbl gs).isOk = (solveCallCa tbl gs').isOk :=
  solveCa_perm_partial tbl _ _ hperm hnt hnt' h2 h4

/-- **validating every occurrence alone does not validate the call**: `T ∈ (str, int)`, one
occurrence gets a `str`, another an `int` — each is solvable, the union is not (and `specOk` agrees:
no value exists), so the call-level solve must not be skipped. -/
theorem leaves_ok_union_unsat :
    let g1 : List Bound := [.lower tStr, .oneOf [tStr, tInt]]
    let g2 : List Bound := [.lower tInt, .oneOf [tStr, tInt]]
    (resolve leH joinH g1).isOk = true ∧ (resolve leH joinH g2).isOk = true ∧
    callOk leH joinH [g1, g2] = false ∧ specOk leH (dedupB [] (unifyBounds [g1, g2])) = false := by
  simp [callOk, solveCall, unifyBounds, resolve, dedupB, keyMem, Bound.keyEq, Ty.hashEq, Ty.beq, Ty.hashEqList, Ty.beqList,
    tStr, tInt, solve, run, step, finish, pick, choose, removeRedundant, isAny, leH, joinH, subH, specOk, lowers, uppers,
    oneOfs, Result.isOk]

/-- `twoUppers`: `int >= T, str >= T` is solved to their join, which neither accepts. -/
theorem twoUppers_witness : upperHolds leH joinH [.upper tInt, .upper tStr] = false := by decide
theorem twoUppers_in_class : D15_twoUppers leH [.upper tInt, .upper tStr] = true := by decide

/-- regression witness of the repaired class `anyUpper`: `bool >= T, Any >= T, int >= T, int <= T` is now
rejected (`int` is not below `bool`) instead of being solved to `int`. -/
theorem anyUpper_fixed :
    (solve leH joinH [.upper tBool, .upper .any, .upper tInt, .lower tInt]).isOk = false ∧
    upperHolds leH joinH [.upper tBool, .upper .any, .upper tInt] = true := by decide

/-- `oneOfUpper`: `bool >= T` with constraints `(int, str)` is solved to `int`. -/
theorem oneOfUpper_witness : upperHolds leH joinH [.upper tBool, .oneOf [tInt, tStr]] = false := by decide
theorem oneOfUpper_in_class : D15_oneOfUpper [.upper tBool, .oneOf [tInt, tStr]] = true := by decide

/-- `nonTransitive`: `str <= T, G <= T, int <= T` with a `G` compatible with both: solved to `int`. -/
theorem nonTransitive_witness :
    lowerHolds leG joinH [.lower tStr, .lower (.typed 9), .lower tInt] = false := by decide
theorem nonTransitive_in_class :
    D15_nonTransitive leG joinH [.lower tStr, .lower (.typed 9), .lower tInt] = true := by decide

/-- the full upper-bound statement is false already on the lattice model -/
theorem upperFull_false : ¬ UpperFull leH joinH := by
  intro h
  have := h [.upper tInt, .upper tStr] tObj .value rfl tInt (by simp [uppers])
  exact absurd this (by decide)

/-- the full lower-bound statement is false for a relation that is not transitive -/
theorem lowerFull_false : ¬ LowerFull leG joinH := by
  intro h
  have := h [.lower tStr, .lower (.typed 9), .lower tInt] tInt .value rfl tStr (by simp [lowers])
  exact absurd this (by decide)

/-- order dependence without any `Any`: three upper bounds, two of them comparable (`twoUppers`) -/
theorem order_witness_twoUppers :
    (solve leH joinH [.upper tBool, .upper tInt, .upper tStr, .lower tStr]).isOk = true ∧
    (solve leH joinH [.upper tInt, .upper tStr, .upper tBool, .lower tStr]).isOk = false := by decide

/-- … and the position of the `Any` upper bound no longer matters -/
theorem order_anyUpper_fixed :
    (solve leH joinH [.upper tBool, .upper .any, .upper tInt, .lower tInt]).isOk = false ∧
    (solve leH joinH [.upper .any, .upper tBool, .upper tInt, .lower tInt]).isOk = false ∧
    (solve leH joinH [.upper tBool, .upper tInt, .lower tInt, .upper .any]).isOk = false := by decide

theorem orderFull_false : ¬ OrderFull leH joinH := by
  intro h
  have hp : [Bound.upper tBool, .upper tInt, .upper tStr, .lower tStr].Perm
      [.upper tInt, .upper tStr, .upper tBool, .lower tStr] :=
    (List.Perm.swap _ _ _).trans (List.Perm.cons _ (List.Perm.swap _ _ _))
  have := h _ _ hp
  rw [order_witness_twoUppers.1, order_witness_twoUppers.2] at this
  exact absurd this (by decide)

/-! ## non-vacuity -/

theorem SH_cases {t : Ty} (h : SH t) : t = tObj ∨ t = tInt ∨ t = tBool ∨ t = tStr := by
  cases t with
  | typed c =>
    simp only [SH, SHb, Bool.or_eq_true, beq_iff_eq] at h
    rcases h with ((h | h) | h) | h <;> subst h <;> simp [tObj, tInt, tBool, tStr]
  | _ => simp [SH, SHb] at h

/-- the lattice model satisfies every algebraic hypothesis -/
theorem lawsH : Laws SH leH joinH := by
  refine ⟨?_, ?_, ?_, ?_, ?_, ?_, ?_⟩
  · intro a ha; rcases SH_cases ha with h | h | h | h <;> subst h <;> decide
  · intro a ha; rcases SH_cases ha with h | h | h | h <;> subst h <;> decide
  · intro a b c ha hb hc
    rcases SH_cases ha with h | h | h | h <;> subst h <;>
    rcases SH_cases hb with h | h | h | h <;> subst h <;>
    rcases SH_cases hc with h | h | h | h <;> subst h <;> decide
  · intro a b ha hb
    rcases SH_cases ha with h | h | h | h <;> subst h <;>
    rcases SH_cases hb with h | h | h | h <;> subst h <;> decide
  · intro a b ha hb
    rcases SH_cases ha with h | h | h | h <;> subst h <;>
    rcases SH_cases hb with h | h | h | h <;> subst h <;> decide
  · intro a b ha hb
    rcases SH_cases ha with h | h | h | h <;> subst h <;>
    rcases SH_cases hb with h | h | h | h <;> subst h <;> decide
  · intro a b c ha hb hc
    rcases SH_cases ha with h | h | h | h <;> subst h <;>
    rcases SH_cases hb with h | h | h | h <;> subst h <;>
    rcases SH_cases hc with h | h | h | h <;> subst h <;> decide

theorem anyLawsH : AnyLaws leH :=
  ⟨fun b => by cases b <;> rfl, fun a => by cases a <;> rfl⟩

theorem joinH_closed : ∀ a b, SH a → SH b → SH (joinH a b) := by
  intro a b ha hb
  rcases SH_cases ha with h | h | h | h <;> subst h <;>
  rcases SH_cases hb with h | h | h | h <;> subst h <;> decide

theorem vals_ok_of_all {l : List Ty} (h : (l.all fun v => isAny v || SHb v) = true) :
    ∀ v ∈ l, v = .any ∨ SH v := by
  intro v hv
  have := List.all_eq_true.mp h v hv
  rcases Bool.or_eq_true_iff.mp this with h | h
  · exact Or.inl (isAny_iff.mp h)
  · exact Or.inr h

/-- a non-trivial input inside every hypothesis of the partial theorems: six bounds incl. an `Any`
lower bound, an `Any` upper bound and two comparable upper bounds; accepted -/
def exBounds : List Bound := [.lower tBool, .lower .any, .upper tObj, .upper .any, .lower tInt, .upper tInt]
example : ∀ v ∈ boundVals exBounds, v = .any ∨ SH v := vals_ok_of_all (by decide)
example : D15_twoUppers leH exBounds = false := by decide
example : D15_oneOfUpper exBounds = false := by decide
example : multiOneOf exBounds = false := by decide
example : D15_nonTransitive leH joinH exBounds = false := by decide
example : (solve leH joinH exBounds).isOk = true := by decide
example : lowerHolds leH joinH exBounds = true ∧ upperHolds leH joinH exBounds = true := by decide
/-- … and one that is rejected, with constraints: `str <= T`, `bool <= T`, `T ∈ (int, str)` -/
def exBounds2 : List Bound := [.lower tStr, .oneOf [tInt, tStr], .lower tBool]
example : ∀ v ∈ boundVals exBounds2, v = .any ∨ SH v := vals_ok_of_all (by decide)
example : D15_oneOfUpper exBounds2 = false ∧ multiOneOf exBounds2 = false := by decide
example : D15_nonTransitive leH joinH exBounds2 = false := by decide
example : (solve leH joinH exBounds2).isOk = false ∧ specOk leH exBounds2 = false := by decide
example : lastOneOf exBounds2 = some [tInt, tStr] := rfl
example : ∀ cs ∈ oneOfs exBounds2, ∀ c ∈ cs, SH c := by decide
example : ∃ a, SH a := ⟨tObj, by decide⟩


/-! ## the same over the live class table (`ca liveTable false`, `unite`) -/
set_option linter.unusedSimpArgs false

/-- the class-level facts about `object`(0), `int`(1), `bool`(2), `str`(5) the witnesses below use; an
obligation over the table regenerated from the live tree -/
theorem nomFacts :
    liveTable.nominal false 0 1 = true ∧ liveTable.nominal false 0 2 = true ∧ liveTable.nominal false 1 2 = true
    ∧ liveTable.nominal false 0 0 = true ∧ liveTable.nominal false 1 1 = true ∧ liveTable.nominal false 2 2 = true
    ∧ liveTable.nominal false 1 0 = false ∧ liveTable.nominal false 2 0 = false ∧ liveTable.nominal false 2 1 = false
    ∧ liveTable.nominal false 5 5 = true ∧ liveTable.nominal false 1 5 = false ∧ liveTable.nominal false 5 1 = false
    ∧ liveTable.nominal false 0 5 = true ∧ liveTable.nominal false 5 0 = false
    ∧ liveTable.nominal false 5 2 = false ∧ liveTable.nominal false 2 5 = false := by decide

/-- `twoUppers` with the modelled `can_assign` over the live class table: `int >= T, str >= T` is solved to
`int | str`, which `int` does not accept -/
theorem twoUppers_witness_ca : upperHolds (leCa liveTable) joinU [.upper (.typed 1), .upper (.typed 5)] = false := by
  obtain ⟨h1, h2, h3, h4, h5, h6, h7, h8, h9, h10, h11, h12, h13, h14, h15, h16⟩ := nomFacts
  simp [upperHolds, solve, run, finish, pick, choose, satUpper, step, uppers, isAny, leCa, joinU, unite, dedup, dictMem,
    flatten1, ca, caAllR, caAnyL, typedCA, typOf, Ty.beq, Ty.hashEq, h1, h2, h3, h4, h5, h6, h7, h8, h9, h10, h11, h12, h13, h14, h15, h16]

/-- order dependence with the modelled `can_assign` over the live class table:
`bool >= T, int >= T, str >= T, str <= T` is accepted, `int >= T, str >= T, bool >= T, str <= T` is an error -/
theorem order_witness_ca :
    (solveCa liveTable [.upper (.typed 2), .upper (.typed 1), .upper (.typed 5), .lower (.typed 5)]).isOk = true ∧
    (solveCa liveTable [.upper (.typed 1), .upper (.typed 5), .upper (.typed 2), .lower (.typed 5)]).isOk = false := by
  obtain ⟨h1, h2, h3, h4, h5, h6, h7, h8, h9, h10, h11, h12, h13, h14, h15, h16⟩ := nomFacts
  simp [solveCa, Result.isOk, solve, run, finish, pick, choose, step, isAny, leCa, joinU, unite, dedup, dictMem,
    flatten1, ca, caAllR, caAnyL, typedCA, typOf, Ty.beq, Ty.hashEq, h1, h2, h3, h4, h5, h6, h7, h8, h9, h10, h11, h12, h13, h14, h15, h16]

/-- the hypotheses of the `solveCa_*_partial` theorems are satisfiable over the live class table:
`bool <= T, Any <= T, int <= T, object >= T, Any >= T, int >= T` -/
def exBoundsCa : List Bound :=
  [.lower (.typed 2), .lower .any, .lower (.typed 1), .upper (.typed 0), .upper .any, .upper (.typed 1)]
example : D15_nonTransitive (leCa liveTable) joinU exBoundsCa = false ∧ D15_twoUppers (leCa liveTable) exBoundsCa = false
    ∧ D15_oneOfUpper exBoundsCa = false ∧ multiOneOf exBoundsCa = false
    ∧ (solveCa liveTable exBoundsCa).isOk = true := by
  obtain ⟨h1, h2, h3, h4, h5, h6, h7, h8, h9, h10, h11, h12, h13, h14, h15, h16⟩ := nomFacts
  simp [exBoundsCa, D15_nonTransitive, D15_twoUppers, D15_oneOfUpper, multiOneOf, lawsOn, reach, boundVals, trail,
    solveCa, Result.isOk, solve, run, finish, pick, choose, step, lowers, uppers, oneOfs, isAny, leCa, joinU, unite, dedup, dictMem,
    flatten1, ca, caAllR, caAnyL, typedCA, typOf, Ty.beq, Ty.hashEq, h1, h2, h3, h4, h5, h6, h7, h8, h9, h10, h11, h12, h13, h14, h15, h16]

end Pya.C15
