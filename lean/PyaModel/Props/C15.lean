import PyaModel.Proofs.C15
namespace Pya.C15
end Pya.C15
