import PyaModel.Proofs.C16
/-!
# Props/C16 — automatic fixes are safe: valid code, error gone, nothing else changed

Property theorems only.  Model: Core/Fixes.lean (`applyChanges` = `_apply_changes_to_lines`, `addIgnoresRound` =
one `--add-ignores` run-and-apply, `iterate` / `mainLoop` = the `-r` loop of `main`, `lineRange` =
`get_line_range_for_node`) and Core/NodeCopy.lean (`visit` = `NodeTransformer.generic_visit`, the AST copier behind
`replace_node`).  Spec: Spec/FixSpec.lean (`specApply`, `codeLines`, `specRange`, the line lexer).

All theorems are for **all** files (`List Line`, any text) and **all** diagnostic streams (`List Diag`, any
length) of the modelled fragment; hypotheses are explicit decidable predicates:

* `ChangeWF ls dels`   — the replacement names at least one line, only existing lines, none twice;
* `InRange lines raw`  — every diagnostic points into the file;
* `AddIgnoresOK st`    — `InRange`, and ¬ `D16_twoCodesOneLine`, ¬ `D16_ignoreAboveLineOne`.

Repaired since the first version of this file (the model follows /repo after ba62f49, d5dca9e, 0cba813): the
former classes `splitlinesMismatch` (its hypothesis `NoExtraSep` is gone from every theorem) and `stmtRange`
(narrowed to `D16_stmtRangeOverrun`); the behaviour before the repairs is kept in `oldAddIgnoresRound`,
`oldLineRange`, `oldPrevLineOf` and shown by the `old_…` regression witnesses.

The stream of diagnostics is an input (assumption A1, see Core/Fixes.lean).  "The tree is unchanged" is
stated twice: as "the non-comment lines are unchanged" (`add_ignores_preserves_code`), and on the line lexer of
Spec/FixSpec.lean as "the lines that reach the token stream, with their lexer states, are unchanged"
(`add_ignores_preserves_tokens_partial`); the second fails exactly where a physical line starts inside a
string literal or after a backslash (classes `D16_insideString`, `D16_afterBackslash`).  That equal traces
mean equal CPython token streams is assumption A2, validated per line against CPython by the harness.
The classes `D16_sharedLine`, `D16_emptyBlock`, `D16_elifHeader`, `D16_fstringConversion` concern Python's
grammar and the text of real fixes, which are not modelled: they are decided by the driver from facts the
harness reads off CPython's `ast`/`tokenize`, and no theorem speaks about them (search only).
-/
namespace Pya.C16

open Pya.C11 (Line codedIC trailingMatch ownLineMatch)

/-! ## Applying a replacement -/

/-- **apply_change_lines (full strength on well-formed replacements).** Applying a replacement removes
exactly the named lines, puts the additions where the last named line stood, and leaves every other line
with its content and in its relative order — for every file, every list of line numbers in any order and
every list of added lines; whatever other changes were proposed for the file is irrelevant (only the first
is applied). -/
theorem apply_change_lines (ls : List Line) (dels : List Nat) (adds : List Line) (rest : List Replacement)
    (hwf : ChangeWF ls dels = true) :
    applyChanges (⟨dels, some adds⟩ :: rest) ls = .ok (specApply ls dels adds) :=
  applyChange_spec ls dels adds hwf

/-- A proposed change without replacement text (`lines_to_add is None`: a diagnostic that has no fix)
leaves the file untouched, *and blocks every later fix of the file in that round*. -/
theorem apply_none_is_noop (ls : List Line) (dels : List Nat) (rest : List Replacement) :
    applyChanges (⟨dels, none⟩ :: rest) ls = .ok ls := rfl

/-- Full statement without the well-formedness hypothesis: false — a line number named twice deletes a
second, unnamed line (`del lines[k - 1]` twice). -/
def apply_change_lines_full : Prop :=
  ∀ (ls : List Line) (dels : List Nat) (adds : List Line),
    applyChanges [⟨dels, some adds⟩] ls = .ok (specApply ls dels adds)

theorem apply_change_duplicate_witness : ¬ apply_change_lines_full := by
  intro h
  have := h ["a".toList, "b".toList, "c".toList] [1, 1] []
  revert this
  decide

/-! ## `--add-ignores`: one round -/

/-- **add_ignores_inserts_one_comment.** When the run reports something, the round changes the file by
exactly one inserted line — `# static analysis: ignore[code]` for the *first* reported diagnostic, indented
like its line, directly above it — and renumbers the stream; when it reports nothing, nothing changes. -/
theorem add_ignores_inserts_one_comment (st : St) (hr : InRange st.lines st.raw = true) :
    (st.diags = [] ∧ addIgnoresRound st = st) ∨
    ∃ d ds, st.diags = d :: ds ∧
      addIgnoresRound st =
        { lines := insertAt st.lines (d.line - 1)
            (List.replicate (getIndentation (lineAt st.lines d.line)) ' ' ++ codedIC d.code),
          raw := st.raw.map (shiftDiag d.line) } := by
  have hrange : ∀ d ∈ st.raw, 1 ≤ d.line ∧ d.line ≤ st.lines.length := by
    intro d hd
    have := List.all_eq_true.mp hr d hd
    simpa using this
  rw [diags_eq st]
  cases hv : visible st.lines st.raw with
  | nil => exact Or.inl ⟨rfl, round_fix st hv⟩
  | cons d ds => exact Or.inr ⟨d, ds, rfl, round_eq st hrange d ds hv⟩

/-- The same, against the executable spec of a round. -/
theorem add_ignores_round_eq_spec (st : St) (hr : InRange st.lines st.raw = true) :
    addIgnoresRound st = specRound st := by
  rcases add_ignores_inserts_one_comment st hr with ⟨h1, h2⟩ | ⟨d, ds, h1, h2⟩
  · rw [diags_eq st] at h1
    rw [h2]; unfold specRound; rw [h1]
  · rw [diags_eq st] at h1
    rw [h2]; unfold specRound; rw [h1]

/-- **add_ignores_preserves_code (one round, full strength).** The non-comment lines of the file are the
same before and after the round, in the same order (so, comments not being tokens, the token stream and the
syntax tree are the same) — for every file, whatever characters it contains. -/
theorem add_ignores_preserves_code (st : St) (hr : InRange st.lines st.raw = true) :
    codeLines (addIgnoresRound st).lines = codeLines st.lines := by
  apply codeLines_round
  intro d hd
  have := List.all_eq_true.mp hr d hd
  simpa using this

/-- … and after any number of rounds. -/
theorem add_ignores_preserves_code_iterate (n : Nat) (st : St) (hok : AddIgnoresOK st = true) :
    codeLines (iterate n st).lines = codeLines st.lines :=
  codeLines_iterate n st (inv_of_ok hok)

/-- `s = 'a<FF>b'` / `undefined_x`: the AST says line 2; before ba62f49 `_lines()` (`splitlines`) had three
lines and handed out `b'` as "line 2", so the round overwrote the real line 2 with the comment and `b'`. -/
def ffState : St :=
  { lines := ["s = 'a\x0cb'".toList, "undefined_x".toList], raw := [{ code := "undefined_name", line := 2 }] }

/-- The statement for the round as it was before the repair. -/
def old_add_ignores_preserves_code_full : Prop :=
  ∀ st : St, InRange st.lines st.raw = true → codeLines (oldAddIgnoresRound st).lines = codeLines st.lines

/-- **Regression witness for the repaired class `splitlinesMismatch`.** With the old line table the
statement `undefined_x` is lost and a line `b'` appears; with the repaired one the file keeps its code. -/
theorem old_splitlinesMismatch_witness : ¬ old_add_ignores_preserves_code_full := by
  intro h
  have := h ffState (by decide)
  revert this
  decide

theorem splitlinesMismatch_repaired_on_witness :
    (addIgnoresRound ffState).lines =
      ["s = 'a\x0cb'".toList, "# static analysis: ignore[undefined_name]".toList, "undefined_x".toList] := by decide

example : oldD16_splitlinesMismatch ffState.lines = true := by decide

/-! ## Comments and tokens (assumption A2 made precise on the line lexer) -/

/-- Full statement: a comment-only line may be inserted anywhere without touching the token stream. -/
def insert_comment_preserves_tokens_full : Prop :=
  ∀ (lines : List Line) (p : Nat) (c : Line), 1 ≤ p → p ≤ lines.length → isCommentLine c = true →
    lexTrace (.code 0) (insertAt lines (p - 1) c) = lexTrace (.code 0) lines

/-- **insert_comment_preserves_tokens_partial.** Where line `p` starts neither inside a string literal nor
after a backslash continuation (outside brackets), a comment-only line inserted before it changes neither
the lexer state of any later line nor the sequence of lines that reach the token stream. -/
theorem insert_comment_preserves_tokens_partial (lines : List Line) (p : Nat) (c : Line)
    (hc : isCommentLine c = true) (hS : insideStringAt lines p = false) (hB : afterBackslashAt lines p = false) :
    lexTrace (.code 0) (insertAt lines (p - 1) c) = lexTrace (.code 0) lines :=
  lexTrace_insert lines p c hc (safeStart_of_not_D hS hB)

/-- **add_ignores_preserves_tokens_partial.** Outside `D16_insideString` and `D16_afterBackslash` an
`--add-ignores` round leaves the token trace of the file unchanged. -/
theorem add_ignores_preserves_tokens_partial (st : St)
    (hr : InRange st.lines st.raw = true) (hS : D16_insideString st.lines st.raw = false)
    (hB : D16_afterBackslash st.lines st.raw = false) :
    lexTrace (.code 0) (addIgnoresRound st).lines = lexTrace (.code 0) st.lines := by
  rcases add_ignores_inserts_one_comment st hr with ⟨_, h2⟩ | ⟨d, ds, h1, h2⟩
  · rw [h2]
  · rw [h2]
    have hd : d ∈ st.raw := by
      rw [diags_eq st] at h1
      exact (mem_visible.mp (by rw [h1]; simp)).1
    have s1 : insideStringAt st.lines d.line = false := by
      have := List.any_eq_false.mp hS d hd
      simpa using this
    have s2 : afterBackslashAt st.lines d.line = false := by
      have := List.any_eq_false.mp hB d hd
      simpa using this
    exact insert_comment_preserves_tokens_partial st.lines d.line _ (isCommentLine_comment _ _) s1 s2

/-- **Exception class `insideString`.** `s = f'''a` / `{x}` / `b'''`: a comment line before line 2 becomes
a line of the string. -/
theorem insideString_witness : ¬ insert_comment_preserves_tokens_full := by
  intro h
  have := h ["s = f'''a".toList, "{x}".toList, "b'''".toList] 2 "# c".toList (by decide) (by decide) (by decide)
  revert this
  decide

/-- **Exception class `afterBackslash`.** `x = 1 + \` / `    y`: a comment line before line 2 is glued to
the first line by the backslash and ends the logical line there. -/
theorem afterBackslash_witness : ¬ insert_comment_preserves_tokens_full := by
  intro h
  have := h ["x = 1 + \\".toList, "    y".toList] 2 "    # c".toList (by decide) (by decide) (by decide)
  revert this
  decide

/-! ## What the inserted comment suppresses -/

/-- **ignore_suppresses_only_its_target.** Outside the leading comment block, the comment inserted for a
diagnostic on line `p` changes the verdict of `show_error` for no diagnostic on any other line — whatever
its code, wherever it lies, whatever ignore comments the file already contains. -/
theorem ignore_suppresses_only_its_target (lines : List Line) (p k : Nat) (c : String) (e : Diag)
    (hp1 : 1 ≤ p) (hp2 : p ≤ lines.length) (hh : inHeader lines p = false) (he : 1 ≤ e.line)
    (hne : e.line ≠ p) :
    suppressed (insertAt lines (p - 1) (List.replicate k ' ' ++ codedIC c)) (shiftDiag p e) = suppressed lines e := by
  have := suppressed_insert lines p k c e hp1 hp2 hh he
  unfold commentFor at this
  rw [this]
  unfold suppressed
  simp [hne]

/-- … it does suppress every diagnostic of its code on its line (the one it was added for, and any other of
the same code there) … -/
theorem ignore_suppresses_its_target (lines : List Line) (p k : Nat) (c : String) (e : Diag)
    (hp1 : 1 ≤ p) (hp2 : p ≤ lines.length) (hh : inHeader lines p = false) (he : e.line = p) (hc : e.code = c) :
    suppressed (insertAt lines (p - 1) (List.replicate k ' ' ++ codedIC c)) (shiftDiag p e) = true := by
  have := suppressed_insert lines p k c e hp1 hp2 hh (by omega)
  unfold commentFor at this
  rw [this]
  simp [he, hc]

/-- … and a diagnostic of **another code on the same line** is afterwards judged by file-level and trailing
comments alone: an own-line comment that protected it before has been pushed one line up and no longer
counts. (The mechanism behind `D16_twoCodesOneLine`, for all inputs.) -/
theorem ignore_unprotects_other_code_on_its_line (lines : List Line) (p k : Nat) (c : String) (e : Diag)
    (hp1 : 1 ≤ p) (hp2 : p ≤ lines.length) (hh : inHeader lines p = false) (he : e.line = p) (hc : e.code ≠ c) :
    suppressed (insertAt lines (p - 1) (List.replicate k ' ' ++ codedIC c)) (shiftDiag p e) =
      (fileLevel lines e.code || trailingMatch (lineAt lines p) (some e.code)) := by
  have := suppressed_insert lines p k c e hp1 hp2 hh (by omega)
  unfold commentFor at this
  rw [this]
  have : ¬ (c = e.code) := fun h => hc h.symm
  simp [he, this]

/-- Full statement without the leading-block hypothesis: false, see the witness. -/
def ignore_suppresses_only_its_target_full : Prop :=
  ∀ (lines : List Line) (p k : Nat) (c : String) (e : Diag), 1 ≤ p → p ≤ lines.length → 1 ≤ e.line → e.line ≠ p →
    suppressed (insertAt lines (p - 1) (List.replicate k ' ' ++ codedIC c)) (shiftDiag p e) = suppressed lines e

/-- **Exception class `ignoreAboveLineOne`.** `def g(): return y` / `def h(): return z`: the comment inserted
above line 1 for `undefined_name` is a file-level ignore — the diagnostic on the last line disappears too. -/
theorem ignoreAboveLineOne_witness : ¬ ignore_suppresses_only_its_target_full := by
  intro h
  have := h ["def g(): return y".toList, "def h(): return z".toList] 1 0 "undefined_name"
    { code := "undefined_name", line := 2 } (by decide) (by decide) (by decide) (by decide)
  revert this
  decide

def lineOneState : St :=
  { lines := ["def g(): return y".toList, "def h(): return z".toList],
    raw := [{ code := "undefined_name", line := 1, col := 16 }, { code := "undefined_name", line := 2, col := 16 }] }

/-- On the model of the loop: one round silences both diagnostics although a comment was added for one. -/
theorem ignoreAboveLineOne_silences_file :
    lineOneState.diags.length = 2 ∧ (iterate 1 lineOneState).diags = [] ∧
      (iterate 1 lineOneState).lines.length = 3 := by decide

example : D16_ignoreAboveLineOne lineOneState.lines lineOneState.raw = true := by decide

/-! ## Termination of the repeat loop -/

/-- Full statement: the loop reaches a run without diagnostics after at most one round per diagnostic. -/
def add_ignores_terminates_full : Prop :=
  ∀ st : St, InRange st.lines st.raw = true → ∃ n, n ≤ st.raw.length ∧ (iterate n st).diags = []

/-- **add_ignores_terminates_partial.** If no line carries diagnostics of two different codes and no
diagnostic sits directly under the leading comment block (in particular not on line 1), then after at most
as many rounds as there are diagnostics nothing is reported any more — for every file and every stream;
existing ignore comments of any kind are allowed. -/
theorem add_ignores_terminates_partial (st : St) (hok : AddIgnoresOK st = true) :
    ∃ n, n ≤ st.raw.length ∧ (iterate n st).diags = [] := by
  have hinv := inv_of_ok hok
  obtain ⟨n, hn, h, _⟩ := terminates_aux st.raw.length st hinv (List.length_filter_le _ _)
  exact ⟨n, hn, h⟩

/-- … the scope predicate keeps holding along the way, every round that reports something removes at least
one diagnostic, and none that was silent comes back. -/
theorem add_ignores_progress (st : St) (hok : AddIgnoresOK st = true) (d : Diag) (ds : List Diag)
    (hv : st.diags = d :: ds) :
    AddIgnoresOK (addIgnoresRound st) = true ∧
      (addIgnoresRound st).diags = ((d :: ds).filter fun e => !decide (e.line = d.line)).map (shiftDiag d.line) := by
  have hinv := inv_of_ok hok
  rw [diags_eq st] at hv
  refine ⟨ok_of_inv (inv_round hinv), ?_⟩
  rw [diags_eq _]
  exact visible_after_round hinv d ds hv

/-- The two-codes witness: `f('s', undefined_x)` reports `undefined_name` and `incompatible_call` on line 4. -/
def twoCodesState : St :=
  { lines := ["def f(a: int) -> int:".toList, "    return a".toList, "def g():".toList,
              "    f('s', undefined_x)".toList],
    raw := [{ code := "undefined_name", line := 4, col := 11 }, { code := "incompatible_call", line := 4, col := 4 }] }

/-- **Exception class `twoCodesOneLine`.** The full statement is false: … -/
theorem twoCodesOneLine_witness : ¬ add_ignores_terminates_full := by
  intro h
  obtain ⟨n, hn, hd⟩ := h twoCodesState (by decide)
  have hn' : n ≤ 2 := hn
  match n, hn' with
  | 0, _ => revert hd; decide
  | 1, _ => revert hd; decide
  | 2, _ => revert hd; decide

/-- … each round inserts the comment for the one code that is visible, which pushes the previous comment
away from the line it guarded: the reported code alternates with period 2 and the file grows by one line
per round (evaluated here for the first 10 rounds; `two_codes_never_terminate` below proves it for all). -/
theorem twoCodesOneLine_cycles :
    (List.range 10).all (fun n =>
      ((iterate (n + 1) twoCodesState).diags.map (·.code) ==
        [if n % 2 == 0 then "incompatible_call" else "undefined_name"]) &&
      ((iterate (n + 1) twoCodesState).lines.length == 4 + (n + 1))) = true := by decide

example : D16_twoCodesOneLine twoCodesState.raw = true := by decide

/-- **two_codes_never_terminate (the defect, for all inputs).** Whenever two diagnostics with different
codes share a line and nothing silences them yet (`unprotectedPair`; in a file without ignore comments: whenever
`D16_twoCodesOneLine` holds), no number of rounds reaches a run without diagnostics — for every file and
every stream in scope. -/
theorem two_codes_never_terminate (st : St) (hs : AddIgnoresScope st = true) (hu : unprotectedPair st = true) :
    ∀ n, (iterate n st).diags ≠ [] :=
  fun n => stuck_forever n st (inv0_of_scope hs) (stuck_of_unprotected hu)

/-- … so the `--repeat-until-no-errors` loop of `main` can only end in `Iteration Limit Exceeded`, whatever
the limit. -/
theorem two_codes_hit_iteration_limit (st : St) (hs : AddIgnoresScope st = true) (hu : unprotectedPair st = true)
    (limit fuel : Nat) : ∃ st', mainLoop limit fuel 0 st = .limitExceeded st' :=
  mainLoop_never_done limit fuel 0 st (two_codes_never_terminate st hs hu)

example : AddIgnoresScope twoCodesState = true ∧ unprotectedPair twoCodesState = true := by decide

/-! ## Statement ranges of `replace_node` / `remove_node` -/

/-- Full statement: the lines `get_line_range_for_node` returns are the lines of the statement. -/
def line_range_exact_full : Prop :=
  ∀ (lines : List Line) (first stmtEnd : Nat), 1 ≤ first → first ≤ stmtEnd → stmtEnd ≤ lines.length →
    lineRange lines first stmtEnd = specRange first stmtEnd

/-- **line_range_covers_statement (full strength, since d5dca9e).** The range always contains every line
of the statement. -/
theorem line_range_covers_statement (lines : List Line) (first stmtEnd : Nat) (h2 : first ≤ stmtEnd) :
    ∀ k ∈ specRange first stmtEnd, k ∈ lineRange lines first stmtEnd :=
  lineRange_covers lines first stmtEnd h2

/-- **line_range_exact_partial.** Outside `D16_stmtRangeOverrun` the range is exactly `lineno … end_lineno`. -/
theorem line_range_exact_partial (lines : List Line) (first stmtEnd : Nat) (h1 : 1 ≤ first)
    (h2 : first ≤ stmtEnd) (h3 : stmtEnd ≤ lines.length) (hD : D16_stmtRangeOverrun lines first stmtEnd = false) :
    lineRange lines first stmtEnd = specRange first stmtEnd :=
  lineRange_exact lines first stmtEnd h1 h2 h3 hD

/-- The class is exact: inside it the range is always too long. -/
theorem line_range_wrong_in_class (lines : List Line) (first stmtEnd : Nat) (h1 : 1 ≤ first)
    (h2 : first ≤ stmtEnd) (h3 : stmtEnd ≤ lines.length) (hD : D16_stmtRangeOverrun lines first stmtEnd = true) :
    lineRange lines first stmtEnd ≠ specRange first stmtEnd :=
  lineRange_wrong lines first stmtEnd h1 h2 h3 hD

/-- The file of the `stmtRangeOverrun` witness: an unused one-line triple-quoted assignment followed by a
string statement that opens with a lone triple quote. -/
def overrunLines : List Line :=
  ["def f():".toList, "    x = \"\"\"a\"\"\"".toList, "    \"\"\"".toList, "    note".toList,
   "    \"\"\"".toList, "    return 1".toList]

/-- **Exception class `stmtRangeOverrun`.** The heuristic takes the lone triple-quote line after `x`'s
assignment for the end of `x`'s literal, so `remove_node` deletes the opening quotes of the next statement
as well (lines 2 and 3 instead of line 2). -/
theorem stmtRangeOverrun_witness : ¬ line_range_exact_full := by
  intro h
  have := h overrunLines 2 2 (by decide) (by decide) (by decide)
  revert this
  decide

example : D16_stmtRangeOverrun overrunLines 2 2 = true ∧ lineRange overrunLines 2 2 = [2, 3] := by decide

/-- The file of the old `stmtRange` witness: the literal's last line is not indented deeper than the first. -/
def oldRangeLines : List Line :=
  ["def f():".toList, "    x = '''a".toList, "b'''".toList, "    return 1".toList]

/-- **Regression witness for the repaired part of `stmtRange`.** The function as it was before d5dca9e
returned only line 2 for the two-line assignment; the repaired one returns 2, 3, and the file is outside the
remaining class. -/
theorem old_stmtRange_witness :
    oldLineRange oldRangeLines 2 3 = [2] ∧ oldD16_stmtRange oldRangeLines 2 3 = true ∧
    lineRange oldRangeLines 2 3 = [2, 3] ∧ D16_stmtRangeOverrun oldRangeLines 2 3 = false := by
  decide

/-- Removing or rewriting a statement whose range is right leaves the other lines alone (composition of
`line_range_exact_partial` and `apply_change_lines`). -/
theorem remove_statement_exact_partial (lines : List Line) (first stmtEnd : Nat) (h1 : 1 ≤ first)
    (h2 : first ≤ stmtEnd) (h3 : stmtEnd ≤ lines.length) (hD : D16_stmtRangeOverrun lines first stmtEnd = false)
    (adds : List Line) :
    applyChanges [⟨lineRange lines first stmtEnd, some adds⟩] lines =
      .ok (lines.take (first - 1) ++ adds ++ lines.drop stmtEnd) := by
  rw [line_range_exact_partial lines first stmtEnd h1 h2 h3 hD]
  exact applyChange_range lines first stmtEnd adds h1 h2 h3

/-! ## Line 1 has no previous line (since 0cba813) -/

/-- A diagnostic on line 1 is judged by file-level and trailing comments only. -/
theorem line_one_ignores_last_line (pl : List Line) (d : Diag) (h : d.line = 1) :
    suppressed pl d = (fileLevel pl d.code || trailingMatch (lineAt pl 1) (some d.code)) := by
  unfold suppressed prevLineOf
  rw [h]
  have : ownLineMatch [] (some d.code) = false := by
    unfold ownLineMatch
    have h1 : (Pya.C11.strip [] == Pya.C11.IC) = false := by decide
    have h2 : (Pya.C11.strip [] == codedIC d.code) = false := by
      rw [codedIC_cons]; rfl
    simp [h1, h2]
  simp [this]

/-- **Regression witness (C11's repaired `lineOneWrap`).** Before 0cba813 the "previous line" of line 1 was
the last line of the file. -/
theorem old_lineOneWrap_witness :
    oldPrevLineOf ["w: int = 's'".toList, "# static analysis: ignore".toList] 1 = "# static analysis: ignore".toList ∧
    prevLineOf ["w: int = 's'".toList, "# static analysis: ignore".toList] 1 = [] := by decide

/-! ## Node-level fixes: `NodeTransformer` copies the tree and replaces exactly one node -/

/-- **copy_identity (full strength).** The transformer that intercepts nothing returns the tree it was
given — every field, every list entry, the `None` placeholders of list fields included. -/
theorem copy_identity (t : Tree) : visit noHook t = .tree t := visit_noHook t

/-- **replace_exact (full strength).** `ReplaceNodeTransformer(n, r)` returns the tree in which exactly the
node `n` is replaced by `r`: for every tree, every target and every replacement. -/
theorem replace_exact (target : Nat) (r : Tree) (t : Tree) :
    visit (replaceHook target r) t = .tree (substTree target r t) := visit_replace target r t

/-- … so a tree that does not contain the target comes back unchanged (in particular every sibling
sub-tree of the rewritten expression: "nothing else changed"), … -/
theorem replace_elsewhere_untouched (target : Nat) (r : Tree) (t : Tree) (h : occursTree target t = false) :
    visit (replaceHook target r) t = .tree t := by
  rw [replace_exact, substTree_absent target r t h]

/-- … and a list field keeps its length and its `None` placeholders in place (the `**mapping` entries of
`Dict.keys`, the default-less keyword-only parameters of `kw_defaults`), so parallel lists stay aligned. -/
theorem replace_keeps_placeholders (target : Nat) (r : Tree) (items : ItemList) :
    noneMask (copyItems (replaceHook target r) items) = noneMask items := by
  rw [copyItems_replace, noneMask_subst]

/-- `{**d, "k": <target>}`: keys `[None, "k"]`, values `[d, <target>]`; after the replacement the keys are
still `[None, "k"]`. -/
def dictStarTree : Tree :=
  .mk "Dict" 1 (.cons "keys" (.many (.cons .none (.cons (.tree (.mk "Constant" 2 (.cons "value" (.leaf "'k'") .nil))) .nil)))
    (.cons "values" (.many (.cons (.tree (.mk "Name" 3 (.cons "id" (.leaf "d") .nil)))
                           (.cons (.tree (.mk "Constant" 4 (.cons "value" (.leaf "'x = {x}'") .nil))) .nil))) .nil))

example : occursTree 4 dictStarTree = true ∧ occursTree 9 dictStarTree = false := by decide

/-! ## Removal fixes: the statement may go iff it binds nothing but the unused name -/

/-- Full statement: whenever the guard of `_check_function_unused_vars` (regenerated from the live source:
`Gen.removalGuard`) lets the whole statement be deleted for the unused name `u`, the statement binds no
other name. -/
def removal_binds_only_unused_full : Prop :=
  ∀ (s : AssignStmt) (u : String), Gen.removalGuard s u = true → s.topLevelOk = true → u ∈ s.bound →
    soleBinding s u = true

/-- **removal_binds_only_unused (full strength, since 21e29d0).** Whenever the guard of
`_check_function_unused_vars` (regenerated from the live source: `Gen.removalGuard`) lets the whole statement
be deleted for the unused name `u`, the statement binds no other name: not through a chained, unpacking,
starred or nested target, and not through a `:=` anywhere in it. -/
theorem removal_binds_only_unused : removal_binds_only_unused_full := by
  intro s u hg hw hu
  have hv : s.valueBinds = [] := removalGuard_no_value_binds s u hg
  unfold soleBinding AssignStmt.bound at *
  rw [hv, List.append_nil] at hu ⊢
  apply List.all_eq_true.mpr
  intro x hx
  have := removalGuard_single_target_binding s u hg hw x hx u hu
  simp [this]

/-- The same statement for the guard as it was before 21e29d0. -/
def old_removal_binds_only_unused_full : Prop :=
  ∀ (s : AssignStmt) (u : String), oldRemovalGuard s u = true → s.topLevelOk = true → u ∈ s.bound →
    soleBinding s u = true

/-- **Regression witness for the repaired class `walrusInRemoved`.** `z = (y := a) + 1` with `y` unused: one
plain target, so the old guard held — and the statement that went also bound `z`. The live guard rejects it. -/
theorem old_walrusInRemoved_witness : ¬ old_removal_binds_only_unused_full := by
  intro h
  have := h ⟨.cons (.name "z") .nil, ["y"]⟩ "y" (by decide) (by decide) (by decide)
  revert this
  decide

theorem walrusInRemoved_repaired_on_witness :
    Gen.removalGuard ⟨.cons (.name "z") .nil, ["y"]⟩ "y" = false ∧
    Gen.removalGuard ⟨.cons (.name "u") .nil, ["v"]⟩ "u" = false := by decide

/-- The guard rejects what the seeded variants of it admitted: a chained assignment whose first target is
the unused name, and unpacking targets. -/
theorem removal_guard_rejects_chained_and_unpacking :
    Gen.removalGuard ⟨.cons (.name "first") (.cons (.name "total") .nil), []⟩ "first" = false ∧
    Gen.removalGuard ⟨.cons (.tuple (.cons (.name "lo") (.cons (.name "hi") .nil))) .nil, []⟩ "lo" = false ∧
    Gen.removalGuard ⟨.cons (.name "whole") (.cons (.tuple (.cons (.name "lo") (.cons (.name "hi") .nil))) .nil), []⟩ "whole" = false ∧
    Gen.removalGuard ⟨.cons (.name "x") .nil, []⟩ "x" = true := by decide

/-- **remove_sole_binding_safe (straight-line def-use, full strength).** If the removed statement binds
nothing but `u` and nobody reads `u` afterwards, every later read resolves exactly as before: the statements
after it have the same undefined reads with and without it. -/
theorem remove_sole_binding_safe (env : List String) (s : Stmt) (post : List Stmt) (u : String)
    (hs : ∀ x ∈ s.binds, x = u) (hu : u ∉ readsOf post) :
    undefReads (env ++ s.binds) post = undefReads env post :=
  undefReads_irrelevant s.binds post env (fun x hx => by rw [hs x hx]; exact hu)

/-- **remove_breaks_other_binding (the converse, full strength).** If the removed statement binds another
name `x` that a later statement reads before anything else binds it, that read was defined with the
statement and is undefined without it. -/
theorem remove_breaks_other_binding (env : List String) (s r : Stmt) (p1 p2 : List Stmt) (x : String)
    (hx : x ∈ s.binds) (hne : x ∉ env ++ bindsOf p1) (hr : x ∈ r.reads) :
    x ∉ undefReads (env ++ s.binds) (p1 ++ r :: p2) ∧ x ∈ undefReads env (p1 ++ r :: p2) := by
  refine ⟨not_undef_of_env _ _ x (by simp [hx]), ?_⟩
  rw [undefReads_append]
  apply List.mem_append_right
  simp only [undefReads, List.mem_append, List.mem_filter]
  left
  refine ⟨hr, ?_⟩
  simp only [List.contains_eq_mem, Bool.not_eq_true', decide_eq_false_iff_not]
  exact hne

-- `first = total = 10` / `return total`: with the statement `total` is defined, without it it is not
example : undefReads [] [⟨[], ["first", "total"]⟩, ⟨["total"], []⟩] = [] ∧
    undefReads [] [⟨["total"], []⟩] = ["total"] := by decide

/-! ## Fix routes: which code produces fixes, under which conditions, on which kind of node -/

/-- **fix_routes_registered (tie to the live source).** The registry of fix routes regenerated from the current
pyanalyze — every call of `replace_node` / `remove_node` / `Replacement(…)` / store into `_changes_for_fixer`
in the producers' files, with the conditions it sits under and its callers — is the reviewed one
(`Proofs/C16Routes.lean`). A dropped or changed guard, a new producer or a new caller breaks this. -/
theorem fix_routes_registered : Gen.fixRoutes = pinnedRoutes := routes_registered

/-- **fix_routes_kind_preserving.** Every `replace_node` route of the modelled producers rewrites a node that
its guards / parameter types / visitor method show to be an expression (and builds nothing known to be a
non-expression), or rewrites a statement by a statement. -/
theorem fix_routes_kind_preserving : Gen.fixRoutes.all routeKindOk = true := routes_kind_ok

/-- **replace_kind_preserving (full strength).** If the rewritten node and its replacement have the same
category (expression for expression, statement for statement), every list field keeps the category of each of
its entries: a statement list stays a statement list, an argument list a list of expressions. -/
theorem replace_kind_preserving (cat : String → String) (target : Nat) (r : Tree) (items : ItemList)
    (h : rootsKindOk cat target r items = true) :
    itemCats cat (copyItems (replaceHook target r) items) = itemCats cat items := by
  rw [copyItems_replace]
  exact itemCats_subst cat target r items h

/-- Without the precondition: a statement (`fmt %= n`, the whole `AugAssign`) handed to `replace_node` with an
expression replacement leaves an expression where the body needs a statement. -/
theorem replace_statement_by_expression_witness :
    itemCats (catOf Gen.exprKinds Gen.stmtKinds)
      (copyItems (replaceHook 5 (.mk "JoinedStr" 9 .nil)) (.cons (.tree (.mk "AugAssign" 5 .nil)) .nil)) = ["expr"] ∧
    itemCats (catOf Gen.exprKinds Gen.stmtKinds) (.cons (.tree (.mk "AugAssign" 5 .nil)) .nil) = ["stmt"] := by
  decide +kernel

/-! ## Non-vacuity: the hypotheses are met by non-trivial inputs -/

def exState : St :=
  { lines := ["import os".toList, "def f(a: int) -> int:".toList, "    return a".toList, "def g():".toList,
              "    f('s')".toList, "    print(1,".toList, "          undefined_x)".toList,
              "    return os.nope + undefined_y".toList],
    raw := [{ code := "incompatible_argument", line := 5, col := 6 }, { code := "undefined_name", line := 7, col := 10 },
            { code := "undefined_attribute", line := 8, col := 11 }, { code := "undefined_attribute", line := 8, col := 11 }] }

example : AddIgnoresOK exState = true := by decide
example : InRange exState.lines exState.raw = true := by decide
-- three rounds, three comments, nothing left
example : (iterate 3 exState).diags = [] ∧ (iterate 3 exState).lines.length = 11 ∧
    (iterate 2 exState).diags.length = 2 := by decide
example : (iterate 3 exState).lines = specFinal exState := by decide
example : ChangeWF exState.lines [6, 7] = true ∧ ChangeWF exState.lines [7, 6] = true := by decide
example : inHeader exState.lines 5 = false ∧ inHeader exState.lines 1 = true := by decide
-- a bracketed multi-line statement whose range is right; the lexer classes on their witnesses
example : D16_stmtRangeOverrun exState.lines 6 7 = false ∧ lineRange exState.lines 6 7 = [6, 7] := by decide
example : D16_insideString ["s = f'''a".toList, "{undefined_x}".toList, "b'''".toList]
    [{ code := "undefined_name", line := 2 }] = true := by decide
example : D16_afterBackslash ["x = 1 + \\".toList, "    undefined_x".toList]
    [{ code := "undefined_name", line := 2 }] = true := by decide
example : D16_afterBackslash ["print(1, \\".toList, "    undefined_x)".toList]
    [{ code := "undefined_name", line := 2 }] = false ∧
    D16_insideString exState.lines exState.raw = false := by decide

end Pya.C16
