import PyaModel.Proofs.C17
import PyaModel.Generated.FormatCaches
import PyaModel.Generated.FormatRoutes
/-!
# Props/C17 — format-string diagnostics agree with CPython's formatter

Property theorems only. Model: `Pya.C17.pyaPercent` / `Pya.C17.pyaFormat` (Core/Format.lean, following
`pyanalyze/format_strings.py` and `implementation.py:_str_format_impl`). Spec: `Pya.C17.cpyPercent` /
`Pya.C17.cpyFormat` (Spec/CpyFormat.lean, CPython 3.12's `%` formatter for str and bytes and
`str.format`, at the granularity "raises or not; type of the result").

All theorems quantify over *every* template (any list of characters), str and bytes, and every
argument of the modelled universe (literal scalars, tuples of any length, dicts of any size).
-/
namespace Pya.C17

/-! ## `%` formatting -/

/-- **Full statement, soundness half** (not asserted — false, see the witnesses): whenever CPython
raises, pyanalyze reports something. -/
def percent_reports_if_raises_full : Prop :=
  ∀ (b : Bool) (t : List Char) (a : Arg), cpyPercent b t a = .raises → (pyaPercent b t a).reports = true

/-- **Full statement, completeness half** (not asserted — false): whenever CPython formats
successfully, every message is one of the documented lint rules. -/
def percent_silent_if_ok_full : Prop :=
  ∀ (b : Bool) (t : List Char) (a : Arg) (ty : RTy), a.wf = true → cpyPercent b t a = .ok ty →
    ∀ e ∈ (pyaPercent b t a).errs, e.lintOnly = true

/-- **C17, `%`, soundness (partial).** For every template and argument outside the four "missed
error" classes — a `(` inside a mapping key, a dict literal with a non-`str` key (str templates),
a bytes template with mapping keys and a dict, a width/precision numeral beyond CPython's limits —
if CPython raises while formatting, pyanalyze reports at least one `bad_format_string` message.
(The former class `hexFloat` was repaired in /repo a9a8c6b and is no longer excluded.) -/
theorem percent_reports_if_raises_partial (b : Bool) (t : List Char) (a : Arg)
    (h2 : D17_parenKey t = false)
    (h3 : D17_nonStrKey b t a = false) (h4 : D17_bytesMapping b t a = false)
    (h5 : D17_hugeWidthPrec t = false)
    (hr : cpyPercent b t a = .raises) : (pyaPercent b t a).reports = true := by
  cases hrep : (pyaPercent b t a).reports with
  | true => rfl
  | false =>
    exfalso
    simp only [POut.reports, Bool.not_eq_false', List.isEmpty_iff] at hrep
    have := percent_silent_ok b t a hrep h2 h3 h4 h5
    rw [hr] at this
    cases this

/-- **C17, `%`, completeness (partial).** For every template and well-formed argument (dict keys
pairwise distinct) outside the six "false report" classes — `%c` with an int in
`range(256, 0x110000)` on a str template, `.` without digits, an empty mapping key, a `(` inside a
mapping key, a `%%`-only template applied to a mapping, a bytes template with mapping keys and a
dict — if CPython formats successfully then every message pyanalyze emits is one of its two
documented stricter lint rules (`noSpecs`, `combine`). (The former class `mixedKeyCrash` was
repaired in /repo cf8a3b3: the checker no longer crashes, so no such hypothesis is needed.) -/
theorem percent_silent_if_ok_partial (b : Bool) (t : List Char) (a : Arg) (ty : RTy)
    (hwf : a.wf = true)
    (d1 : D17_cRangeStr b t a = false) (d2 : D17_dotNoDigits t = false)
    (d3 : D17_emptyKey t = false) (d4 : D17_parenKey t = false)
    (d6 : D17_pctOnlyMapping b t a = false) (d7 : D17_bytesMapping b t a = false)
    (hok : cpyPercent b t a = .ok ty) :
    ∀ e ∈ (pyaPercent b t a).errs, e.lintOnly = true :=
  percent_ok_lint b t a ty hwf hok d1 d2 d3 d4 d6 d7

/-- **C17, `%`, result type — full strength.** For every template, str or bytes, and every
argument on which CPython succeeds, the inferred type of `template % arg` is the type of the
actual result. (Partial before cf8a3b3, when the crash class inferred `Any[error]`.) -/
theorem percent_result_type (b : Bool) (t : List Char) (a : Arg) (ty : RTy)
    (hok : cpyPercent b t a = .ok ty) : (pyaPercent b t a).ty = ty := by
  unfold cpyPercent at hok
  split at hok
  · cases hok
  · split at hok
    · simp only [Outcome.ok.injEq] at hok; rw [← hok]; rfl
    · cases hok

/-- The two halves combined: outside all classes, and when no lint rule fires, "nothing is
reported" ⇔ "CPython succeeds" (with the template's type). -/
theorem percent_iff_partial (b : Bool) (t : List Char) (a : Arg) (hwf : a.wf = true)
    (h2 : D17_parenKey t = false)
    (h3 : D17_nonStrKey b t a = false) (h4 : D17_bytesMapping b t a = false)
    (h5 : D17_hugeWidthPrec t = false)
    (d1 : D17_cRangeStr b t a = false) (d2 : D17_dotNoDigits t = false)
    (d3 : D17_emptyKey t = false) (d6 : D17_pctOnlyMapping b t a = false)
    (hnolint : ∀ e ∈ (pyaPercent b t a).errs, e.lintOnly = false) :
    (pyaPercent b t a).reports = false ↔ cpyPercent b t a = .ok (if b then .bytes else .str) := by
  constructor
  · intro hrep
    simp only [POut.reports, Bool.not_eq_false', List.isEmpty_iff] at hrep
    exact percent_silent_ok b t a hrep h2 h3 h4 h5
  · intro hok
    have hl := percent_ok_lint b t a _ hwf hok d1 d2 d3 h2 d6 h4
    have : (pyaPercent b t a).errs = [] := by
      cases he : (pyaPercent b t a).errs with
      | nil => rfl
      | cons e es =>
        have h1 := hl e (by simp [he])
        have h2 := hnolint e (by simp [he])
        rw [h1] at h2; cases h2
    simp [POut.reports, this]

/-! ### Regression theorems for the two repaired classes -/

/-- `'%x' % 1.5` (former class `hexFloat`, repaired by a9a8c6b): CPython raises TypeError and the
model now reports "%x conversion specifier accepts integers". -/
theorem percent_regression_hexFloat :
    cpyPercent false ['%', 'x'] (.sc .float) = .raises ∧
    (pyaPercent false ['%', 'x'] (.sc .float)).errs = [.intOnly] ∧
    (pyaPercent true ['%', 'o'] (.tup [.sc .float])).errs = [.intOnly] ∧
    (pyaPercent false ['%', 'X'] (.sc (.bool true))).errs = [] := by decide

/-- `'%s%(a)s' % {'a': 1}` (former class `mixedKeyCrash`, repaired by cf8a3b3): CPython returns a
str; the model emits only the `combine` lint and infers `str`. With a missing key the ordinary
"No value specified" message is produced. -/
theorem percent_regression_mixedKey :
    cpyPercent false ['%', 's', '%', '(', 'a', ')', 's'] (.dict [(.str ['a'], .sc (.int 1))]) = .ok .str ∧
    (pyaPercent false ['%', 's', '%', '(', 'a', ')', 's'] (.dict [(.str ['a'], .sc (.int 1))])).errs = [.combine] ∧
    (pyaPercent false ['%', 's', '%', '(', 'a', ')', 's'] (.dict [(.str ['a'], .sc (.int 1))])).ty = .str ∧
    (pyaPercent false ['%', 's', '%', '(', 'b', ')', 's'] (.dict [(.str ['a'], .sc (.int 1))])).errs
      = [.combine, .missingKeys] := by decide

/-! ### Witnesses: the full statements are false on the pinned tree (one per exception class) -/

/-- `'%(()d' % {'(': 1}` — CPython: ValueError (incomplete format key); pyanalyze: silent. -/
theorem percent_witness_parenKey_miss :
    cpyPercent false ['%', '(', '(', ')', 'd'] (.dict [(.str ['('], .sc (.int 1))]) = .raises ∧
    (pyaPercent false ['%', '(', '(', ')', 'd'] (.dict [(.str ['('], .sc (.int 1))])).reports = false ∧
    D17_parenKey ['%', '(', '(', ')', 'd'] = true := by decide

/-- `'%(a(b))s' % {'a(b)': 1}` — CPython: fine; pyanalyze: "invalid conversion specifier". -/
theorem percent_witness_parenKey_fp :
    cpyPercent false ['%', '(', 'a', '(', 'b', ')', ')', 's']
      (.dict [(.str ['a', '(', 'b', ')'], .sc (.int 1))]) = .ok .str ∧
    (pyaPercent false ['%', '(', 'a', '(', 'b', ')', ')', 's']
      (.dict [(.str ['a', '(', 'b', ')'], .sc (.int 1))])).errs.contains .badSpec = true ∧
    D17_parenKey ['%', '(', 'a', '(', 'b', ')', ')', 's'] = true := by decide

/-- `'%(a)s' % {b'a': 1}` — CPython: KeyError; pyanalyze: silent. -/
theorem percent_witness_nonStrKey :
    cpyPercent false ['%', '(', 'a', ')', 's'] (.dict [(.bytes ['a'], .sc (.int 1))]) = .raises ∧
    (pyaPercent false ['%', '(', 'a', ')', 's'] (.dict [(.bytes ['a'], .sc (.int 1))])).reports = false ∧
    D17_nonStrKey false ['%', '(', 'a', ')', 's'] (.dict [(.bytes ['a'], .sc (.int 1))]) = true := by decide

/-- `b'%(a)s' % {'a': b'x'}` — CPython: KeyError (b'a'); pyanalyze: silent. -/
theorem percent_witness_bytesMapping :
    cpyPercent true ['%', '(', 'a', ')', 's'] (.dict [(.str ['a'], .sc (.bytes 1))]) = .raises ∧
    (pyaPercent true ['%', '(', 'a', ')', 's'] (.dict [(.str ['a'], .sc (.bytes 1))])).reports = false ∧
    D17_bytesMapping true ['%', '(', 'a', ')', 's'] (.dict [(.str ['a'], .sc (.bytes 1))]) = true := by decide

/-- `'%.2147483648d' % 1` — CPython: ValueError (precision too big); pyanalyze: silent. -/
theorem percent_witness_hugeWidthPrec :
    cpyPercent false ['%', '.', '2', '1', '4', '7', '4', '8', '3', '6', '4', '8', 'd'] (.sc (.int 1)) = .raises ∧
    (pyaPercent false ['%', '.', '2', '1', '4', '7', '4', '8', '3', '6', '4', '8', 'd'] (.sc (.int 1))).reports = false ∧
    D17_hugeWidthPrec ['%', '.', '2', '1', '4', '7', '4', '8', '3', '6', '4', '8', 'd'] = true := by decide

/-- `'%c' % 300` — CPython: `chr(300)`; pyanalyze: "%c requires an integer in range(256)". -/
theorem percent_witness_cRangeStr :
    cpyPercent false ['%', 'c'] (.sc (.int 300)) = .ok .str ∧
    (pyaPercent false ['%', 'c'] (.sc (.int 300))).errs = [.cRange] ∧
    D17_cRangeStr false ['%', 'c'] (.sc (.int 300)) = true := by decide

/-- `'%.f' % 1.5` — CPython: `'2'`; pyanalyze: "invalid conversion specifier". -/
theorem percent_witness_dotNoDigits :
    cpyPercent false ['%', '.', 'f'] (.sc .float) = .ok .str ∧
    (pyaPercent false ['%', '.', 'f'] (.sc .float)).errs.contains .badSpec = true ∧
    D17_dotNoDigits ['%', '.', 'f'] = true := by decide

/-- `'%()s' % {'': 1}` — CPython: `'1'`; pyanalyze: "invalid conversion specifier". -/
theorem percent_witness_emptyKey :
    cpyPercent false ['%', '(', ')', 's'] (.dict [(.str [], .sc (.int 1))]) = .ok .str ∧
    (pyaPercent false ['%', '(', ')', 's'] (.dict [(.str [], .sc (.int 1))])).errs.contains .badSpec = true ∧
    D17_emptyKey ['%', '(', ')', 's'] = true := by decide

/-- `'%%' % {'a': 1}` — CPython: `'%'`; pyanalyze: "too many arguments". -/
theorem percent_witness_pctOnlyMapping :
    cpyPercent false ['%', '%'] (.dict [(.str ['a'], .sc (.int 1))]) = .ok .str ∧
    (pyaPercent false ['%', '%'] (.dict [(.str ['a'], .sc (.int 1))])).errs = [.tooMany] ∧
    D17_pctOnlyMapping false ['%', '%'] (.dict [(.str ['a'], .sc (.int 1))]) = true := by decide

/-- Hence neither of the two full statements holds. -/
theorem percent_full_statements_false :
    ¬ percent_reports_if_raises_full ∧ ¬ percent_silent_if_ok_full := by
  refine ⟨fun h => ?_, fun h => ?_⟩
  · have := h false _ _ percent_witness_nonStrKey.1
    rw [percent_witness_nonStrKey.2.1] at this; cases this
  · have := h false ['%', 'c'] (.sc (.int 300)) .str rfl percent_witness_cRangeStr.1
    rw [percent_witness_cRangeStr.2.1] at this
    have := this .cRange (by simp)
    cases this

/-! ### Non-vacuity: the hypotheses are met by non-trivial inputs, and both verdicts occur -/

/-- `'%5.2f and %(a)s'`-like inputs: `'%-5d|%s' % (3, 'ab')`, tuple mode, outside every class. -/
example :
    let t := ['%', '-', '5', 'd', '|', '%', 's']
    let a := Arg.tup [.sc (.int 3), .sc (.str 2)]
    D17_parenKey t = false ∧ D17_nonStrKey false t a = false ∧
    D17_bytesMapping false t a = false ∧ D17_hugeWidthPrec t = false ∧ D17_cRangeStr false t a = false ∧
    D17_dotNoDigits t = false ∧ D17_emptyKey t = false ∧
    D17_pctOnlyMapping false t a = false ∧ a.wf = true ∧
    cpyPercent false t a = .ok .str ∧ (pyaPercent false t a).reports = false := by decide

/-- `'%d' % 'ab'`: outside every class, CPython raises, pyanalyze reports `numeric`. -/
example :
    let t := ['%', 'd']
    let a := Arg.sc (.str 2)
    D17_parenKey t = false ∧ D17_nonStrKey false t a = false ∧
    D17_bytesMapping false t a = false ∧ D17_hugeWidthPrec t = false ∧
    cpyPercent false t a = .raises ∧ (pyaPercent false t a).errs = [.numeric] := by decide

/-- `'%%%(a)s' % {'a': 1}`: mapping mode, CPython succeeds, pyanalyze emits only the `combine`
lint (the `%%` has no mapping key). -/
example :
    let t := ['%', '%', '%', '(', 'a', ')', 's']
    let a := Arg.dict [(.str ['a'], .sc (.int 1))]
    D17_cRangeStr false t a = false ∧ D17_dotNoDigits t = false ∧ D17_emptyKey t = false ∧
    D17_parenKey t = false ∧ D17_pctOnlyMapping false t a = false ∧
    D17_bytesMapping false t a = false ∧ a.wf = true ∧
    cpyPercent false t a = .ok .str ∧ (pyaPercent false t a).errs = [.combine] := by decide

/-- `b'%c%b' % (65, b'ab')`: a bytes template outside every class. -/
example :
    let t := ['%', 'c', '%', 'b']
    let a := Arg.tup [.sc (.int 65), .sc (.bytes 2)]
    D17_bytesMapping true t a = false ∧ D17_pctOnlyMapping true t a = false ∧
    cpyPercent true t a = .ok .bytes ∧ (pyaPercent true t a).reports = false ∧
    (pyaPercent true t a).ty = .bytes := by decide

/-! ## Union-typed operands and whole programs (history independence) -/

/-- **C17, `%`, union-typed operand, soundness (partial).** If the right operand is a union of
literals and CPython raises for one member that is outside the four "missed error" classes,
pyanalyze reports on the expression. -/
theorem percent_union_reports_if_raises_partial (b : Bool) (t : List Char) (as : List Arg) (a : Arg)
    (ha : a ∈ as)
    (h2 : D17_parenKey t = false) (h3 : D17_nonStrKey b t a = false)
    (h4 : D17_bytesMapping b t a = false) (h5 : D17_hugeWidthPrec t = false)
    (hr : cpyPercent b t a = .raises) : (pyaPercentU b t as).reports = true := by
  have hm := percent_reports_if_raises_partial b t a h2 h3 h4 h5 hr
  simp only [POut.reports, Bool.not_eq_true', List.isEmpty_eq_false_iff] at hm ⊢
  cases he : (pyaPercent b t a).errs with
  | nil => exact absurd he hm
  | cons e es =>
    have := union_member_subset b t as a ha e (by simp [he])
    intro hnil; rw [hnil] at this; cases this

/-- **C17, `%`, union-typed operand, completeness (partial).** If CPython succeeds for every member
of the union and every member is well-formed and outside the six "false report" classes, every
message on the expression is one of the two documented lint rules. -/
theorem percent_union_silent_if_ok_partial (b : Bool) (t : List Char) (as : List Arg) (hne : as ≠ [])
    (d2 : D17_dotNoDigits t = false) (d3 : D17_emptyKey t = false) (d4 : D17_parenKey t = false)
    (hmem : ∀ a ∈ as, a.wf = true ∧ D17_cRangeStr b t a = false ∧ D17_pctOnlyMapping b t a = false ∧
      D17_bytesMapping b t a = false ∧ ∃ ty, cpyPercent b t a = .ok ty) :
    ∀ e ∈ (pyaPercentU b t as).errs, e.lintOnly = true := by
  intro e he
  rcases union_from_members b t as hne e he with rfl | ⟨a, ha, hea⟩
  · rfl
  · obtain ⟨hwf, d1, d6, d7, ty, hok⟩ := hmem a ha
    exact percent_silent_if_ok_partial b t a ty hwf d1 d2 d3 d4 d6 d7 hok e hea

/-- **History independence (model).** The verdict for an occurrence inside a program is the
verdict for that occurrence checked alone, whatever precedes or follows it — the model is a pure
function of (template, operand). True by construction; the `prog` correspondence streams compare
the *implementation's* behaviour on whole programs (same template reused with superset / exact /
missing keys in every order, unions, repeated runs in one process, fresh-process baseline) with
this map-over-occurrences. -/
theorem program_occurrence_independent (pre post : List Occ) (o : Occ) :
    (pyaProgram (pre ++ o :: post))[pre.length]? = some (pyaOcc o) := by
  simp [pyaProgram]

/-- Checking a program twice in the same process gives the same verdicts twice. -/
theorem program_repeat (p : List Occ) : pyaProgram (p ++ p) = pyaProgram p ++ pyaProgram p := by
  simp [pyaProgram]

/-- The verdicts of a program do not depend on the order of its occurrences (as a permutation of
the per-occurrence verdicts). -/
theorem program_reverse (p : List Occ) : pyaProgram p.reverse = (pyaProgram p).reverse := by
  simp [pyaProgram]

/-- **Obligation over the live source** (`Generated/FormatCaches.lean`, regenerated on every run by
an AST scan of `pyanalyze/format_strings.py`): no function or method of the format-string checker
sits under a caching decorator, the only module-level mutable containers are the two constant
conversion sets, and the only attribute store on `self` is the parser cursor. This is what the
purity of `pyaProgram` rests on; a new cache breaks this obligation and triggers the widened
search. -/
theorem format_checker_is_cache_free :
    liveCaches = [] ∧
    liveModuleMutables = ["_FORMAT_STRING_CONVERSIONS", "_NUMERIC_CONVERSION_TYPES"] ∧
    liveSelfStores = ["_ParserState.next:self.current_index"] := by decide

/-- **Route independence (model).** The verdict for (template, operand) does not depend on the
syntactic route by which the `%` operation reaches the checker (`T % A`, `t %= A`, a constant or
`Final` name, a `Literal`-typed parameter, concatenated literals, nesting …). True by construction;
the `route` correspondence stream compares the *implementation's* verdict for the same
(template, operand) through every registered route with this single verdict and with CPython
executing the same statement. -/
theorem verdict_route_independent (r r' : Route) (o : Occ) : pyaOccR r o = pyaOccR r' o := rfl

/-- The same for `str.format` (`T.format(…)`, `str.format(T, …)`, `*xs`/`**d` …). -/
theorem format_verdict_route_independent (r r' : FRoute) (t : List Char) (nargs : Nat)
    (kws : List (List Char)) : pyaFormatR r t nargs kws = pyaFormatR r' t nargs kws := rfl

/-- **Obligation over the live source** (`Generated/FormatRoutes.lean`, regenerated on every run by
an AST scan of name_check_visitor.py / implementation.py / format_strings.py): the call sites of
`check_string_format`, `parse_format_string`, `PercentFormatString.from_*pattern`, the callers of
`_visit_binop_internal` and the registration of `_str_format_impl` are exactly the registered
ones — each has a generator in the `route` stream — and `check_string_format` is reached under
exactly the registered guard. A new, removed or re-guarded route breaks this obligation and
triggers the widened search. -/
theorem format_entry_routes_registered :
    liveRoutes =
      ["_str_format_impl<-impl@str.format",
       "_visit_binop_internal<-name_check_visitor:NameCheckVisitor._visit_single_compare",
       "_visit_binop_internal<-name_check_visitor:NameCheckVisitor._visit_single_compare",
       "_visit_binop_internal<-name_check_visitor:NameCheckVisitor.visit_AugAssign",
       "_visit_binop_internal<-name_check_visitor:NameCheckVisitor.visit_BinOp",
       "check_string_format<-name_check_visitor:NameCheckVisitor._visit_binop_internal",
       "from_bytes_pattern<-format_strings:check_string_format",
       "from_pattern<-format_strings:check_string_format",
       "parse_format_string<-implementation:_str_format_impl"] ∧
    liveRouteGuards =
      ["name_check_visitor:NameCheckVisitor._visit_binop_internal: isinstance(op, ast.Mod) and isinstance(left, KnownValue) and isinstance(left.val, (bytes, str))"] := by
  decide +kernel

/-- Regression for the seeded change C17-2: `'%(name)s' % {'name': 1, 'size': 2}` followed by
`'%(name)s' % {'name': 1}` — both silent, in either order, and as a union. -/
theorem program_regression_extra_key :
    let t := ['%', '(', 'n', ')', 's']
    let sup := Arg.dict [(.str ['n'], .sc (.int 1)), (.str ['z'], .sc (.int 2))]
    let ex := Arg.dict [(.str ['n'], .sc (.int 1))]
    (pyaProgram [⟨false, t, [sup]⟩, ⟨false, t, [ex]⟩]).map (·.errs) = [[], []] ∧
    (pyaOcc ⟨false, t, [sup, ex]⟩).errs = [] ∧
    cpyPercent false t sup = .ok .str ∧ cpyPercent false t ex = .ok .str := by decide

/-! ## `str.format` -/

/-- **Full statement for `str.format`** (not asserted — false, see the witnesses): CPython completes
(all value-level operations assumed to succeed) exactly when every message is the "unused
argument" lint. -/
def format_iff_full : Prop :=
  ∀ (t : List Char) (nargs : Nat) (kws : List (List Char)),
    cpyFormat t nargs kws = true ↔ ∀ m ∈ pyaFormat t nargs kws, m.lintOnly = true

/-- **C17, `str.format`, plain templates (partial).** For every template without `:` `.` `[` `!`
(automatic, numbered and named fields, `{{`/`}}` escapes, stray braces; any length, any number of
fields) that does not mix automatic and manual numbering, every number of positional arguments and
every list of keyword names: CPython's `str.format` completes exactly when all messages pyanalyze
emits are the documented "argument(s) … were not used" lint. -/
theorem format_plain_iff_partial (t : List Char) (nargs : Nat) (kws : List (List Char))
    (hp : fmtPlain t = true) (hd : D17_fmtAutoManual t = false) :
    cpyFormat t nargs kws = true ↔ ∀ m ∈ pyaFormat t nargs kws, m.lintOnly = true :=
  format_plain_iff t nargs kws hp hd

/-- Soundness half: CPython raises ⇒ a non-lint `incompatible_call` message is reported. -/
theorem format_reports_if_raises_partial (t : List Char) (nargs : Nat) (kws : List (List Char))
    (hp : fmtPlain t = true) (hd : D17_fmtAutoManual t = false)
    (hr : cpyFormat t nargs kws = false) : ∃ m ∈ pyaFormat t nargs kws, m.lintOnly = false := by
  have h := format_plain_iff t nargs kws hp hd
  cases hall : (pyaFormat t nargs kws).all (·.lintOnly) with
  | true =>
    have := h.mpr (fun m hm => (List.all_eq_true.mp hall) m hm)
    rw [hr] at this; cases this
  | false =>
    rw [List.all_eq_false] at hall
    obtain ⟨m, hm, hl⟩ := hall
    exact ⟨m, hm, by simpa using hl⟩

/-- Completeness half: CPython completes ⇒ only the unused-argument lint is reported. -/
theorem format_silent_if_ok_partial (t : List Char) (nargs : Nat) (kws : List (List Char))
    (hp : fmtPlain t = true) (hd : D17_fmtAutoManual t = false)
    (hok : cpyFormat t nargs kws = true) : ∀ m ∈ pyaFormat t nargs kws, m.lintOnly = true :=
  (format_plain_iff t nargs kws hp hd).mp hok

/-- **C17, `str.format`, accounting on arbitrary parsed templates (partial).** For *any* list of
replacement fields (nested ones included, in `iter_replacement_fields` order) that does not mix
automatic and manual numbering: CPython's sequence of numbering-state updates and first-level
lookups (`field_name_split` + `get_field_object`) succeeds exactly when the loop of
`_str_format_impl` emits nothing but the unused-argument lint. -/
theorem format_accounting_iff_partial (fs : List Field) (nargs : Nat) (kws : List (List Char))
    (hd : (fs.any (·.name == .auto) &&
           fs.any (fun f => match f.name with | .idx _ => true | _ => false)) = false) :
    (lookupAll nargs kws {} (fs.map (·.name))).isSome = true ↔
      ∀ m ∈ accountFields fs nargs kws, m.lintOnly = true := by
  have hacc := lookup_acc nargs kws (fs.map (·.name)) {} 0 (by
    rcases noMix_cases fs hd with h | h
    · exact Or.inl ⟨by decide, rfl, h⟩
    · exact Or.inr ⟨by decide, h⟩)
  rw [hacc]
  simp only [accountFields, fold_msgs, List.nil_append]
  constructor
  · intro h0 m hm
    rw [h0] at hm
    simp only [List.nil_append, List.mem_append] at hm
    rcases hm with hm | hm
    · split at hm <;> simp at hm; subst hm; rfl
    · split at hm <;> simp at hm; subst hm; rfl
  · intro hall
    cases hm : accMsgs nargs kws 0 (fs.map (·.name)) with
    | nil => rfl
    | cons m ms =>
      exfalso
      have h1 := hall m (by simp [hm])
      have h2 := accMsgs_nonlint nargs kws (fs.map (·.name)) 0 m (by rw [hm]; simp)
      rw [h1] at h2; cases h2

/-! ### Witnesses for `str.format` -/

/-- `'{} {1}'.format(1, 2)` — CPython: ValueError (cannot switch from automatic field numbering to
manual field specification); pyanalyze: silent. -/
theorem format_witness_autoManual :
    cpyFormat ['{', '}', ' ', '{', '1', '}'] 2 [] = false ∧
    pyaFormat ['{', '}', ' ', '{', '1', '}'] 2 [] = [] ∧
    fmtPlain ['{', '}', ' ', '{', '1', '}'] = true ∧
    D17_fmtAutoManual ['{', '}', ' ', '{', '1', '}'] = true := by decide

/-- `'{:{:{}}}'.format(1, 2, 3)` — CPython: ValueError (Max string recursion exceeded);
pyanalyze: silent (class `fmtSpec`: nothing inside format specs is validated). -/
theorem format_witness_specDepth :
    cpyFormat ['{', ':', '{', ':', '{', '}', '}', '}'] 3 [] = false ∧
    pyaFormat ['{', ':', '{', ':', '{', '}', '}', '}'] 3 [] = [] ∧
    D17_fmtSpec ['{', ':', '{', ':', '{', '}', '}', '}'] = true := by decide

/-- `'{0[}'.format(1)` vs `'{a[0]b}'`: a path is present (class `fmtPath`); here the model shows the
class is inhabited: `'{0.real}'` has a path and pyanalyze says nothing about it, whatever the
object is. -/
theorem format_witness_path :
    pyaFormat ['{', '0', '.', 'r', 'e', 'a', 'l', '}'] 1 [] = [] ∧
    D17_fmtPath ['{', '0', '.', 'r', 'e', 'a', 'l', '}'] = true := by decide

theorem format_full_statement_false : ¬ format_iff_full := by
  intro h
  have := (h ['{', '}', ' ', '{', '1', '}'] 2 []).mpr (by
    rw [format_witness_autoManual.2.1]; intro m hm; cases hm)
  rw [format_witness_autoManual.1] at this
  cases this

/-! ### Non-vacuity for `str.format` -/

/-- `'{{x}} {} {} {a}'.format(1, 2, a=3)`: plain, no mixing, CPython completes, pyanalyze silent. -/
example :
    let t := ['{', '{', 'x', '}', '}', ' ', '{', '}', ' ', '{', '}', ' ', '{', 'a', '}']
    fmtPlain t = true ∧ D17_fmtAutoManual t = false ∧
    cpyFormat t 2 [['a']] = true ∧ pyaFormat t 2 [['a']] = [] := by decide

/-- `'{1} {b}'.format(5, a=1)`: plain, CPython raises (IndexError), pyanalyze reports
"out of range", "not given" and the two unused-argument lints. -/
example :
    let t := ['{', '1', '}', ' ', '{', 'b', '}']
    fmtPlain t = true ∧ D17_fmtAutoManual t = false ∧ cpyFormat t 1 [['a']] = false ∧
    pyaFormat t 1 [['a']] = [.outOfRange, .notGiven, .unusedIdx, .unusedKw] := by decide

/-- `'a}b'.format()`: a stray `}` — both sides reject. -/
example :
    let t := ['a', '}', 'b']
    fmtPlain t = true ∧ D17_fmtAutoManual t = false ∧ cpyFormat t 0 [] = false ∧
    pyaFormat t 0 [] = [.parse .single] := by decide

end Pya.C17
