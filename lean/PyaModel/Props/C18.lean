import PyaModel.Proofs.C18
import PyaModel.Generated.OptionsRegistry
/-!
# Props/C18 — configuration layering follows the documented precedence

Property theorems only. Model: `Pya.effective` (Core/Options.lean: `parse_config_file`,
`_parse_config_section`, `Options.from_option_list` with the stable sort by `sort_key`,
`get_value_from_instances`, `prepare_constructor_kwargs`). Spec: `Pya.specValue` /
`Pya.specEffective` (Spec/ConfigSpec.lean, the precedence sentence of the property).

The model follows the tree repaired by the fix commits 67f91cf (priority of extended files),
7e56ba6 (boolean as integer), df9545b (non-boolean `disable_all`) and 4427783 (default appended
twice); the four former exception classes are gone and their former witnesses are regression
theorems below. One class remains, `D18_pathListNoConcat` (path-list options do not concatenate —
a design choice of pyanalyze), with its witness.
-/
namespace Pya.C18

/-! ## 1. Instance level (`sort_key`, `from_option_list`, `get_value_from_instances`): full strength -/

/-- **Lookup = first minimum of the sort key (all instance lists, full strength).** For every list
of option instances (any mix of command-line flags, priorities and module paths), the value
`Options.get_value_for` returns for a plain option at module path `mod` is the value of the
applicable instance with the smallest `sort_key` `(not from_command_line, priority,
-len(applicable_to))`, the earliest such in the list; the default if no instance applies. -/
theorem lookup_first_min (d : OptDecl) (insts : List Inst) (mod : List String) :
    (∀ i, FirstMin keyLe (relevant d mod insts) i → getFirst d insts mod = i.val) ∧
    (relevant d mod insts = [] → getFirst d insts mod = d.dflt) := by
  constructor
  · intro i hi
    rw [getFirst_eq_best, best_of_firstMin keyLe hi]
  · intro h
    rw [getFirst_eq_best, h]; rfl

/-- **Command line wins (full strength).** Whatever the configuration files contribute (any
instances that are not from the command line, with any priorities), a plain option given on the
command line has the command-line value for every module. -/
theorem cli_wins (d : OptDecl) (cli : List (String × Val)) (fileInsts : List Inst) (mod : List String)
    (v : Val) (hfile : ∀ i ∈ fileInsts, i.cli = false) (hv : cliValue cli d.name = some v) :
    getFirst d (cliInsts cli ++ fileInsts) mod = v := by
  have hsplit : ∃ pre post, cli = pre ++ (d.name, v) :: post ∧ ∀ nv ∈ pre, (nv.1 == d.name) = false := by
    simp only [cliValue, Option.map_eq_some_iff] at hv
    obtain ⟨nv, hf, rfl⟩ := hv
    obtain ⟨hname, pre, post, hcli, hpre⟩ := List.find?_eq_some_iff_append.1 hf
    refine ⟨pre, post, ?_, fun x hx => by simpa using hpre x hx⟩
    rw [hcli]; obtain ⟨n, w⟩ := nv; simp only [beq_iff_eq] at hname; simp [hname]
  obtain ⟨pre, post, rfl, hpre⟩ := hsplit
  refine (lookup_first_min d _ mod).1 (mkCli (d.name, v)) ⟨[], relevant d mod (cliInsts post ++ fileInsts), ?_, by simp, ?_⟩
  · rw [cliInsts_eq, List.map_append, List.append_assoc, relevant_append]
    have : relevant d mod (pre.map mkCli) = [] := by
      have h0 : (pre.map mkCli).filter (fun x => x.name == d.name) = [] :=
        filter_eq_nil' (fun x hx => by
          obtain ⟨nv, hnv, rfl⟩ := List.mem_map.1 hx
          exact hpre nv hnv)
      simp [relevant, h0]
    rw [this, List.nil_append, List.map_cons, List.cons_append, ← cliInsts_eq]
    simp [relevant, mkCli, Inst.applicable]
  · intro x hx
    have hx' := (mem_relevant.1 hx).1
    rcases List.mem_append.1 hx' with h | h
    · rw [cliInsts_eq] at h
      obtain ⟨nv, _, rfl⟩ := List.mem_map.1 h
      simp [keyLe, Inst.cliRank, mkCli]
    · simp [keyLe, Inst.cliRank, mkCli, hfile x h]

/-! ## 2. Parser level: valid configurations are accepted and yield the spliced chain -/

/-- **Valid configurations are not rejected (full strength, any depth).** If the files reachable
from `main` through `extend_config` exist and form a chain without repetition (`specStack`), every
table is valid for the spec and has distinct keys, then `parse_config_file` succeeds. -/
theorem valid_config_accepted (reg : Registry) (fs : FS) (fuel : Nat) (main : String) (stack : List Table)
    (hstack : specStack fs fuel main [] = some stack)
    (hvalid : stack.all (specValidBody reg) = true) (hkeys : stack.all tableNodup = true) :
    ∃ insts, parseFile reg fs fuel main 0 [] = .ok insts := by
  refine ⟨chainPure reg 0 stack, parseFile_chain reg fs fuel main 0 [] stack hstack ?_ ?_⟩
  · intro b hb; exact (List.all_eq_true.1 hvalid) b hb
  · intro b hb
    have := (List.all_eq_true.1 hkeys) b hb
    simp only [tableNodup, Bool.and_eq_true, decide_eq_true_eq] at this
    exact this.1

/-- **`disable_all` semantics (full strength, one section).** For a valid override table with
distinct keys, the instances `_parse_config_section` yields for option `d` that apply to module
path `mod` are: nothing if the override does not match `mod` or the spec reads no value; otherwise a
non-empty run of one and the same instance carrying the value the spec reads — the explicit value,
or `false` for an error code the section does not mention when `disable_all = true`
(`specSectionValue`). -/
theorem disable_all_semantics (reg : Registry) (hreg : reg.wf = true) (d : OptDecl)
    (hd : reg.find d.name = some d) (ext : String → Nat → Except CfgErr (List Inst)) (prio : Nat)
    (mod : List String) (kvs : Table) (hv : specValidOverride reg (.tbl kvs) = true)
    (hn : keysNodup kvs) :
    ∃ out, parseOverride reg ext prio (.tbl kvs) = .ok out ∧
      (∀ i, overrideInst d mod prio (.tbl kvs) = some i →
        relevant d mod out ≠ [] ∧ ∀ x ∈ relevant d mod out, x = i) ∧
      (overrideInst d mod prio (.tbl kvs) = none → relevant d mod out = []) := by
  have ok := regOK_of_wf hreg hd
  refine ⟨overridePure reg prio (.tbl kvs), parseOverride_valid reg ext prio hv, ?_, ?_⟩
  · exact (override_exact ok mod prio hv (fun kvs' he => by cases he; exact hn)).1
  · exact (override_exact ok mod prio hv (fun kvs' he => by cases he; exact hn)).2.1

/-! ## 3. The precedence sentence, end to end -/

/-- The full statement of the value part of C18 (not asserted: path-list options violate it, see
`pathListNoConcat_witness`): for every registry, file system, command line, registered option and
module path, if the configuration is valid then the effective value is the one the precedence
sentence gives. -/
def lookup_precedence_full : Prop :=
  ∀ (reg : Registry) (fs : FS) (main : String) (cli : List (String × Val)) (d : OptDecl)
    (mod : List String) (stack : List Table),
    reg.wf = true → reg.find d.name = some d → (cli.map (·.1)).Nodup →
    specStack fs (fs.length + 1) main [] = some stack →
    stack.all (specValidBody reg) = true → stack.all tableNodup = true →
    effective reg fs (fs.length + 1) main cli d mod = .ok (specValue d cli stack mod)

/-- **C18 value part (all stacks of any depth, all module paths, all command lines).** For a valid
stack of chained configuration files, the value the model computes (`prepare_constructor_kwargs` →
`from_option_list` → `parse_config_file` → `get_value_for`) is the documented one — command line,
else most specific matching override of the main file, else its top level, else the same in the
extended files in inclusion order, else the default; concatenation in that order for string-list
options; `disable_all` read as "every unmentioned error code is `false` in this section" — for
every boolean, integer and string-list option. The only exception class left is
`pathListNoConcat`. Hypotheses other than the class: the registry is well-formed (`decide`d for the
live one), the option is registered, command-line names are distinct, the stack is valid for the
spec and its tables have distinct keys (TOML). -/
theorem lookup_precedence_partial (reg : Registry) (fs : FS) (main : String) (cli : List (String × Val))
    (d : OptDecl) (mod : List String) (stack : List Table)
    (hreg : reg.wf = true) (hd : reg.find d.name = some d) (hcli : (cli.map (·.1)).Nodup)
    (hstack : specStack fs (fs.length + 1) main [] = some stack)
    (hvalid : stack.all (specValidBody reg) = true) (hkeys : stack.all tableNodup = true)
    (hD : D18_pathListNoConcat d = false) :
    effective reg fs (fs.length + 1) main cli d mod = .ok (specValue d cli stack mod) := by
  have ok := regOK_of_wf hreg hd
  have hb : ∀ b ∈ stack, BodyOK reg b := fun b hb =>
    ⟨(List.all_eq_true.1 hvalid) b hb, (List.all_eq_true.1 hkeys) b hb⟩
  have hparse := parseFile_chain reg fs (fs.length + 1) main 0 [] stack hstack
    (fun b h => (hb b h).valid) (fun b h => (hb b h).keys)
  have hl := (specStack_linked fs _ _ _ _ hstack).1
  unfold effective
  rw [hparse]
  show Except.ok (getValueFor d (cliInsts cli ++ chainPure reg 0 stack) mod) = _
  congr 1
  unfold getValueFor specValue
  cases hk : d.kind with
  | strSeq =>
    have hc : d.isCode = false := by
      cases h : d.isCode with
      | false => rfl
      | true => have := ok.codeBool h; rw [hk] at this; cases this
    simp only [beq_self_eq_true, if_true]
    exact concat_eq_spec ok hcli hb hl hc
  | pathSeq => simp [D18_pathListNoConcat, hk] at hD
  | bool => simpa using first_eq_spec ok hcli hb hl
  | int => simpa using first_eq_spec ok hcli hb hl
  | other => simpa using first_eq_spec ok hcli hb hl

/-- The same, read through `specEffective` (the function the driver prints). -/
theorem lookup_precedence_specEffective_partial (reg : Registry) (fs : FS) (main : String)
    (cli : List (String × Val)) (d : OptDecl) (mod : List String) (stack : List Table) (v : Val)
    (hreg : reg.wf = true) (hd : reg.find d.name = some d) (hcli : (cli.map (·.1)).Nodup)
    (hstack : specStack fs (fs.length + 1) main [] = some stack) (hkeys : stack.all tableNodup = true)
    (hspec : specEffective reg fs main cli d mod = some v) (hD : D18_pathListNoConcat d = false) :
    effective reg fs (fs.length + 1) main cli d mod = .ok v := by
  unfold specEffective at hspec
  rw [hstack] at hspec
  by_cases hvalid : stack.all (specValidBody reg) = true
  · simp only [hvalid, if_true, Option.some.injEq] at hspec
    rw [← hspec]
    exact lookup_precedence_partial reg fs main cli d mod stack hreg hd hcli hstack hvalid hkeys hD
  · simp [hvalid] at hspec

/-! ### The remaining class and its witness -/

/-- A small registry: an integer, a string-list (non-empty default), a path-list, an error code. -/
def wReg : Registry :=
  [⟨"x", .int, .int 0, false⟩, ⟨"l", .strSeq, .strs ["d"], false⟩, ⟨"p", .pathSeq, .paths [], false⟩,
   ⟨"c", .bool, .bool true, true⟩]

def wX : OptDecl := ⟨"x", .int, .int 0, false⟩
def wL : OptDecl := ⟨"l", .strSeq, .strs ["d"], false⟩
def wP : OptDecl := ⟨"p", .pathSeq, .paths [], false⟩
def wC : OptDecl := ⟨"c", .bool, .bool true, true⟩

/-- `m.toml`: `x = 1`, `extend_config = "e.toml"`;  `e.toml`: `[[overrides]] module = "a"`, `x = 2`. -/
def wFS1 : FS :=
  [("m", [("x", .int 1), ("extend_config", .str "e")]),
   ("e", [("overrides", .arr [.tbl [("module", .str "a"), ("x", .int 2)]])])]

/-- `m.toml`: `p = ["u"]`, `extend_config = "e.toml"`;  `e.toml`: `p = ["v"]`. -/
def wFS2 : FS :=
  [("m", [("p", .arr [.str "u"]), ("extend_config", .str "e")]), ("e", [("p", .arr [.str "v"])])]

/-- Class `pathListNoConcat`: a path-list option takes the first applicable instance only. -/
theorem pathListNoConcat_witness :
    effective wReg wFS2 3 "m" [] wP [] = .ok (.paths ["u"]) ∧
    specEffective wReg wFS2 "m" [] wP [] = some (.paths ["u", "v"]) ∧
    D18_pathListNoConcat wP = true := by decide

/-- Hence the full statement is false of the model (and, by the correspondence run, of pyanalyze). -/
theorem lookup_precedence_full_false : ¬ lookup_precedence_full := by
  intro h
  have := h wReg wFS2 "m" [] wP []
    [[("p", .arr [.str "u"]), ("extend_config", .str "e")], [("p", .arr [.str "v"])]]
    (by decide) (by decide) (by decide) rfl (by decide) (by decide)
  rw [show wFS2.length + 1 = 3 from rfl, pathListNoConcat_witness.1] at this
  revert this; decide

/-! ### Regression: the witnesses of the four repaired classes now show the documented behaviour -/

/-- Former class `lostPriority` (fixed by 67f91cf): the extended file's override for `a` no longer
beats the main file's top-level value (documented and computed: 1). -/
theorem lostPriority_regression :
    effective wReg wFS1 3 "m" [] wX ["a"] = .ok (.int 1) ∧
    specEffective wReg wFS1 "m" [] wX ["a"] = some (.int 1) := by decide

/-- Former class `lostPriority`, second shape: `extend_config` written *before* the key — the main
file's value still wins (it used to lose the tie). -/
theorem lostPriority_regression_extend_first :
    effective wReg [("m", [("extend_config", .str "e"), ("x", .int 1)]), ("e", [("x", .int 2)])] 3 "m" [] wX []
      = .ok (.int 1) := by decide

/-- Former class `concatDefaultTwice` (fixed by 4427783): the default is contributed once. -/
theorem concatDefaultTwice_regression :
    effective wReg [("m", [])] 2 "m" [] wL [] = .ok (.strs ["d"]) ∧
    specEffective wReg [("m", [])] "m" [] wL [] = some (.strs ["d"]) := by decide

/-- Former class `boolAsInt` (fixed by 7e56ba6): `x = true` for the integer option `x` is rejected. -/
theorem boolAsInt_regression :
    effective wReg [("m", [("x", .bool true)])] 2 "m" [] wX [] = .error (.badValue "x") ∧
    specEffective wReg [("m", [("x", .bool true)])] "m" [] wX [] = none := by decide

/-- Former class `disableAllNotBool` (fixed by df9545b): `disable_all = "false"` is rejected. -/
theorem disableAllNotBool_regression :
    effective wReg [("m", [("disable_all", .str "false")])] 2 "m" [] wC [] = .error .disableNotBool ∧
    specEffective wReg [("m", [("disable_all", .str "false")])] "m" [] wC [] = none := by decide

/-! ## 4. Rejection of bad input -/

/-- **Recursive inclusion, missing files and a non-string `extend_config` are rejected (full
strength, any depth).** If following `extend_config` from `main` does not yield a repetition-free
chain of existing files, `parse_config_file` raises. -/
theorem unreachable_or_recursive_rejected (reg : Registry) (fs : FS) (fuel : Nat) (main : String)
    (h : specStack fs fuel main [] = none) : ∃ e, parseFile reg fs fuel main 0 [] = .error e := by
  cases hp : parseFile reg fs fuel main 0 [] with
  | error e => exact ⟨e, rfl⟩
  | ok out =>
    obtain ⟨stack, hs, _⟩ := parseFile_ok_inv reg fs fuel main 0 [] out hp
    rw [h] at hs; cases hs

/-- **Everything the code checks is really rejected (full strength).** If some file of the chain
fails the checks `_parse_config_section` makes (`weakValidBody`: unknown key, `module` at top
level, non-string `extend_config`, `overrides` not a list of tables with a string `module`, nested
`overrides`, non-boolean `disable_all`, a value its option class does not accept),
`parse_config_file` raises. -/
theorem checked_input_rejected (reg : Registry) (fs : FS) (fuel : Nat) (main : String) (stack : List Table)
    (hs : specStack fs fuel main [] = some stack) (hbad : stack.all (weakValidBody reg) = false) :
    ∃ e, parseFile reg fs fuel main 0 [] = .error e := by
  cases hp : parseFile reg fs fuel main 0 [] with
  | error e => exact ⟨e, rfl⟩
  | ok out =>
    obtain ⟨stack', hs', hw⟩ := parseFile_ok_inv reg fs fuel main 0 [] out hp
    rw [hs] at hs'; cases hs'
    have : stack.all (weakValidBody reg) = true := List.all_eq_true.2 hw
    rw [this] at hbad; cases hbad

/-- **C18 rejection part, full strength for the four kinds of bad input the property names
(all stacks of any depth, no further hypothesis).** If inclusion is recursive (or a file is
missing / `extend_config` is not a string: `specStack … = none`), or some file of the chain has —
at top level or in a table of an `overrides` array — an unknown key, a wrongly typed value (of an
option, of `disable_all`, or an `overrides` that is not an array of tables) or a nested `overrides`
(`namedDefect`), then `parse_config_file` raises a configuration error. -/
theorem bad_config_rejected (reg : Registry) (fs : FS) (fuel : Nat) (main : String)
    (hbad : specStack fs fuel main [] = none ∨
      ∃ stack, specStack fs fuel main [] = some stack ∧ ∃ b ∈ stack, namedDefect reg b = true) :
    ∃ e, parseFile reg fs fuel main 0 [] = .error e := by
  rcases hbad with h | ⟨stack, hs, b, hb, hd⟩
  · exact unreachable_or_recursive_rejected reg fs fuel main h
  · apply checked_input_rejected reg fs fuel main stack hs
    cases hall : stack.all (weakValidBody reg) with
    | false => rfl
    | true =>
      have := (List.all_eq_true.1 hall) b hb
      rw [weak_false_of_namedDefect hd] at this; cases this

/-- **Every configuration the spec rejects is rejected** — the converse of `valid_config_accepted`.
Two domain hypotheses remain, neither about a defect: no override table contains `extend_config`
(pyanalyze accepts the key there; the property's quantifier has files "each with top-level settings
and overrides" and the spec does not give it a meaning), and tables have distinct keys (TOML
guarantees it; without it a second, non-string `module` entry of an override would be invisible to
the parser). -/
theorem spec_invalid_rejected (reg : Registry) (fs : FS) (fuel : Nat) (main : String)
    (hbad : ∀ stack, specStack fs fuel main [] = some stack → stack.all (specValidBody reg) = false)
    (hdom : ∀ stack, specStack fs fuel main [] = some stack →
      extendInOverride stack = false ∧ stack.all tableNodup = true) :
    ∃ e, parseFile reg fs fuel main 0 [] = .error e := by
  cases hp : parseFile reg fs fuel main 0 [] with
  | error e => exact ⟨e, rfl⟩
  | ok out =>
    exfalso
    obtain ⟨stack, hs, hw⟩ := parseFile_ok_inv reg fs fuel main 0 [] out hp
    obtain ⟨h3, h4⟩ := hdom stack hs
    have hclean := bodyClean_of_stack h3 h4
    have : stack.all (specValidBody reg) = true :=
      List.all_eq_true.2 (fun b hb => specValid_of_weak (hw b hb) (hclean b hb))
    rw [hbad stack hs] at this; cases this

/-! ### Non-vacuity: the hypotheses are met by non-trivial inputs -/

/-- The regenerated live registry is well-formed. -/
theorem liveRegistry_wf : liveRegistry.wf = true := by decide +kernel

/-- `m.toml`: `extend_config = "e.toml"` written first, `x = 1`, `c = true`, `disable_all = true`,
override `a.b`: `x = 3`;  `e.toml`: `x = 2`, `l = ["s"]`, override `a`: `x = 4`, `c = false`. -/
def exFS : FS :=
  [("m", [("extend_config", .str "e"), ("x", .int 1), ("c", .bool true), ("disable_all", .bool true),
          ("overrides", .arr [.tbl [("module", .str "a.b"), ("x", .int 3)]])]),
   ("e", [("x", .int 2), ("l", .arr [.str "s"]),
          ("overrides", .arr [.tbl [("module", .str "a"), ("x", .int 4), ("c", .bool false)]])])]

example : wReg.wf = true := by decide
example : (specStack exFS 3 "m" []).map (fun st => st.all (specValidBody wReg) && st.all tableNodup) = some true := by decide
example : D18_pathListNoConcat wX = false ∧ D18_pathListNoConcat wL = false ∧ D18_pathListNoConcat wC = false := by decide
example : effective wReg exFS 3 "m" [] wX ["a", "b", "c"] = .ok (.int 3) := by decide
example : effective wReg exFS 3 "m" [] wX ["a", "c"] = .ok (.int 1) := by decide   -- main top level beats e's override `a`
example : effective wReg exFS 3 "m" [] wC ["a"] = .ok (.bool true) := by decide
example : effective wReg exFS 3 "m" [] wL ["a"] = .ok (.strs ["s", "d"]) := by decide
example : effective wReg exFS 3 "m" [("x", .int 9)] wX ["a", "b"] = .ok (.int 9) := by decide
example : ([("x", Val.int 9)].map (·.1)).Nodup := by decide

/-! Rejection: unknown key, nested overrides, recursive inclusion, wrong types. -/
example : specStack [("m", [("nonsense", .int 1)])] 2 "m" [] = some [[("nonsense", .int 1)]] := rfl
example : namedDefect wReg [("nonsense", .int 1)] = true := by decide
example : namedDefect wReg [("overrides", .arr [.tbl [("module", .str "a"), ("overrides", .arr [])]])] = true := by decide
example : namedDefect wReg [("x", .bool true)] = true ∧ namedDefect wReg [("disable_all", .str "false")] = true := by decide
example : namedDefect wReg [("x", .int 1), ("overrides", .arr [.tbl [("module", .str "a"), ("c", .bool false)]])] = false := by decide
example : [[("nonsense", TV.int 1)]].all (specValidBody wReg) = false := by decide
example : extendInOverride [[("nonsense", .int 1)]] = false ∧ [[("nonsense", TV.int 1)]].all tableNodup = true := by decide
example : parseFile wReg [("m", [("nonsense", .int 1)])] 2 "m" 0 [] = .error (.unknownKey "nonsense") := by decide
example : parseFile wReg [("m", [("overrides", .arr [.tbl [("module", .str "a"), ("overrides", .arr [])]])])] 2 "m" 0 []
    = .error .nestedOverrides := by decide
example : parseFile wReg [("m", [("extend_config", .str "e")]), ("e", [("extend_config", .str "m")])] 3 "m" 0 []
    = .error .recursive := by decide
example : parseFile wReg [("m", [("c", .int 1)])] 2 "m" 0 [] = .error (.badValue "c") := by decide

end Pya.C18
