import PyaModel.Proofs.C19
import PyaModel.Generated.OpTables
import PyaModel.Generated.AttrTables
/-!
# Props/C19 — operations on known objects agree with performing them

Property theorems only. Models: `getitem`, `binop`, `attrFallback` (Core/Ops.lean).
Specs: `elemAt`/`expand` (CPython indexing of every sequence a member list stands for),
`cpyBinop` (CPython's dunder dispatch), `agree` (the property on one row of the operation
table) — Spec/OpsSpec.lean. The operation table `opTable` is regenerated from the live tree and
from CPython on every run (Generated/OpTables*.lean).
-/
namespace Pya.C19

/-! ## A. literal subscripts (all lengths, all indices) -/

/-- **Fully known tuple, diagnostic ⇔ IndexError.** For every member list without variadic members
(any length) and every literal int key (any sign, any size): pyanalyze reports
"Tuple index out of range" exactly when CPython's `t[key]` raises IndexError. Full strength. -/
theorem getitem_literal_iff {α : Type} (ms : List (Bool × α)) (h : hasMany ms = false) (k : Int) :
    getitem .tuple ms k = .error ↔ elemAt (ms.map (·.2)) k = none := by
  rw [getitem_noMany .tuple ms h k]
  cases elemAt (ms.map (·.2)) k <;> simp

/-- **Fully known tuple or list, inferred element = real element.** pyanalyze answers "member `x`"
exactly when `x` is the element CPython's indexing yields. Full strength. -/
theorem getitem_literal_value {α : Type} (typ : SeqTyp) (ms : List (Bool × α))
    (h : hasMany ms = false) (k : Int) (x : α) :
    getitem typ ms k = .member x ↔ elemAt (ms.map (·.2)) k = some x := by
  rw [getitem_noMany typ ms h k]
  cases elemAt (ms.map (·.2)) k <;> cases typ <;> simp

/-- An index error is only ever reported when *every* sequence the member list stands for raises
IndexError (in particular never for a list and never when a variadic member is present). Full strength. -/
theorem getitem_error_sound {α : Type} (typ : SeqTyp) (ms : List (Bool × α)) (k : Int)
    (h : getitem typ ms k = .error) (ns : List Nat) : elemAt (expand ms ns) k = none := by
  cases hm : memberSequence ms with
  | none =>
    simp only [getitem, hm] at h
    split at h
    · split at h <;> simp at h
    · split at h <;> simp at h
  | some xs =>
    obtain ⟨rfl, hno⟩ := memberSequence_some ms xs hm
    rw [expand_noMany ms hno]
    rw [getitem_noMany typ ms hno k] at h
    cases he : elemAt (ms.map (·.2)) k with
    | none => rfl
    | some y => simp [he] at h

/-- **Soundness of the inferred element type, full strength.** For every member list (fixed and
variadic members in any arrangement, any length), both `tuple` and `list`, every int key (any sign)
and every expansion of the variadic parts, the element CPython finds at `key` is covered by the
inferred result (the member itself, or the union of all members). Holds for the code as it is since
the repair of `index_from_back` (/repo 07b1f6d); before, it failed on `negIdxVariadic` inputs. -/
theorem getitem_variadic_sound {α : Type} [BEq α] [LawfulBEq α] (typ : SeqTyp) (ms : List (Bool × α))
    (k : Int) (ns : List Nat) (x : α) (h : elemAt (expand ms ns) k = some x) :
    (getitem typ ms k).covers ms x = true := by
  cases hm : memberSequence ms with
  | none =>
    simp only [getitem, hm]
    by_cases hk : k ≥ 0
    · simp only [hk, if_true]; exact front_sound ms k hk ns x h
    · simp only [hk, if_false]; exact back_sound ms k hk ns x h
  | some xs =>
    obtain ⟨rfl, hno⟩ := memberSequence_some ms xs hm
    rw [expand_noMany ms hno] at h
    rw [getitem_noMany typ ms hno k, h]
    simp [GetRes.covers]

/-- `t: tuple[C0, *tuple[C1, ...], C2, C3, C4]` — the former `negIdxVariadic` witness. -/
def witnessMembers : List (Bool × Nat) := [(false, 0), (true, 1), (false, 2), (false, 3), (false, 4)]

/-- **Regression for the repaired off-by-two** (`index_from_back = -key.val + 1`, fixed by 07b1f6d):
on the former witness `t[-1]` is now `C4`, the real last element of every expansion (it used to be
`C2`), `t[-3]` is `C2`, and `t[-4]` gives up (the variadic part is reached). -/
theorem getitem_regression_negIdxVariadic :
    getitem .tuple witnessMembers (-1) = .member 4 ∧
    getitem .tuple witnessMembers (-3) = .member 2 ∧
    getitem .tuple witnessMembers (-4) = .fallback ∧
    elemAt (expand witnessMembers [0]) (-1) = some 4 ∧
    elemAt (expand witnessMembers [3]) (-1) = some 4 := by decide

example : getitem .list witnessMembers (-2) = .member 3 := by decide
example : getitem .tuple [(false, 0), (true, 1), (false, 2)] (-1) = .member 2 ∧
    getitem .tuple [(false, 0), (true, 1), (false, 2)] (-2) = .fallback := by decide
example : getitem .tuple witnessMembers 0 = .member 0 ∧ getitem .tuple witnessMembers 1 = .fallback := by decide
example : hasMany [(false, 5), (false, 6)] = false ∧ getitem .tuple [(false, 5), (false, 6)] (-2) = .member 5 ∧
    getitem .tuple [(false, 5), (false, 6)] 2 = .error ∧ getitem .list [(false, 5), (false, 6)] 2 = .fallback := by decide

/-! ## B. binary operators: `__op__`, then `__rop__`, reported iff neither works -/

/-- The protocol as implemented: `unsupported_operation` is reported exactly when both attempts left
errors (missing dunder, rejected by the signature, or `NotImplemented` from the performed call). -/
theorem binop_reports_iff (l r : Side) : binop l r = .report ↔ (l.errs = true ∧ r.errs = true) := by
  unfold binop
  cases l.errs <;> cases r.errs <;> simp <;> (repeat' split) <;> simp

/-- **Reported ⇔ CPython raises TypeError, partial.** For all per-type facts: if the stub signatures
agree with the runtime on both sides (`¬ Dbin_stub`), and the operands are not in the classes
`sameTypeReflected` / `firstRaisesTE`, pyanalyze reports the operation exactly when CPython's
dispatch ends in TypeError. -/
theorem binop_reports_iff_cpy_partial (same rprio : Bool) (l r : Side)
    (h1 : Dbin_stub l = false) (h2 : Dbin_stub r = false)
    (h3 : Dbin_sameTypeReflected same l.rside r.rside = false)
    (h4 : Dbin_firstRaisesTE same rprio l.rside r.rside = false) :
    binop l r = .report ↔ cpyBinop same rprio l.rside r.rside = .typeError := by
  rw [binop_reports_iff, cpy_te_iff same rprio _ _ h3 h4, errs_iff_not_yields l h1, errs_iff_not_yields r h2]
  simp

/-- **An inferred literal is CPython's result, partial.** Under the same hypotheses and outside
`subclassReflected`, a literal taken from the left (right) call is inferred only when CPython's
result is the value of that same call. -/
theorem binop_literal_side_partial (same rprio : Bool) (l r : Side)
    (h1 : Dbin_stub l = false) (h2 : Dbin_stub r = false)
    (h3 : Dbin_sameTypeReflected same l.rside r.rside = false)
    (h4 : Dbin_firstRaisesTE same rprio l.rside r.rside = false)
    (h5 : Dbin_subclassReflected same rprio l.rside r.rside = false) :
    (binop l r = .leftLit → cpyBinop same rprio l.rside r.rside = .fromLeft) ∧
    (binop l r = .rightLit → cpyBinop same rprio l.rside r.rside = .fromRight) := by
  constructor
  · intro h
    obtain ⟨he, hl⟩ := binop_leftLit l r h
    obtain ⟨hh, hv⟩ := lit_value l h1 he hl
    exact cpy_fromLeft same rprio _ _ hh hv h4 h5
  · intro h
    obtain ⟨hle, hre, hrl⟩ := binop_rightLit l r h
    obtain ⟨hh, hv⟩ := lit_value r h2 hre hrl
    have hly : l.rside.yields = false := by
      have := errs_iff_not_yields l h1
      rw [hle] at this
      simpa using this.symm
    exact cpy_fromRight same rprio _ _ hh hv hly h3 h4

/-- Full statement of B (not asserted). -/
def BinopFull (same rprio : Bool) (l r : Side) : Prop :=
  (binop l r = .report ↔ cpyBinop same rprio l.rside r.rside = .typeError) ∧
  (binop l r = .leftLit → cpyBinop same rprio l.rside r.rside = .fromLeft)

/-- `EN.A + EN.A` (`__add__` returns NotImplemented, `__radd__` returns 7). -/
def wSameType : Side × Side := (⟨true, true, false, .notImpl⟩, ⟨true, true, false, .value⟩)
/-- `1 + EP.A` (`EP(IntEnum)` overrides `__radd__`). -/
def wSubclass : Side × Side := (⟨true, true, false, .value⟩, ⟨true, true, false, .value⟩)
/-- `'a' * int`: the stub `str.__mul__(self, SupportsIndex)` accepts the class object, the call raises TypeError. -/
def wStub : Side × Side := (⟨true, true, false, .raisesTE⟩, ⟨false, true, false, .notImpl⟩)

theorem binop_witness_sameTypeReflected : ¬ BinopFull true false wSameType.1 wSameType.2 := by unfold BinopFull; decide
theorem binop_witness_subclassReflected : ¬ BinopFull false true wSubclass.1 wSubclass.2 := by unfold BinopFull; decide
theorem binop_witness_stub : ¬ BinopFull false true wStub.1 wStub.2 := by unfold BinopFull; decide

/-- non-vacuity: `1 + 1.5` (int.__add__ rejects, float.__radd__ handles it) and `1 + 'a'` (reported). -/
example : let l : Side := ⟨true, false, false, .notImpl⟩; let r : Side := ⟨true, true, false, .value⟩
    Dbin_stub l = false ∧ Dbin_stub r = false ∧ Dbin_sameTypeReflected false l.rside r.rside = false ∧
    Dbin_firstRaisesTE false false l.rside r.rside = false ∧ Dbin_subclassReflected false false l.rside r.rside = false ∧
    binop l r = .rightLit ∧ cpyBinop false false l.rside r.rside = .fromRight := by decide
example : let l : Side := ⟨true, false, false, .notImpl⟩; let r : Side := ⟨false, true, false, .notImpl⟩
    Dbin_stub l = false ∧ Dbin_stub r = false ∧ binop l r = .report ∧
    cpyBinop false false l.rside r.rside = .typeError := by decide

/-! ## C. attribute not found on a known object -/

/-- Full statement (not asserted): a missing attribute is always reported. -/
def AttrFull (m : AttrMiss) : Prop := attrFallback m = true

/-- **Partial**: it is reported unless the object's type may have dynamic attributes
(`¬ onlyKnown`) and either has `__getattr__` or the reference ends in an `IgnoredEndOfReference` name. -/
theorem attr_missing_reported_partial (m : AttrMiss)
    (h : (!m.onlyKnown && (m.hasGetattr || m.ignoredRef)) = false) : AttrFull m := by
  simp [AttrFull, attrFallback, h]

/-- Witness for `ignoredEndOfReference`: `E.A.count`. -/
theorem attr_witness_ignoredEnd : ¬ AttrFull ⟨false, false, true⟩ := by unfold AttrFull; decide
example : (!(⟨false, false, false⟩ : AttrMiss).onlyKnown &&
    ((⟨false, false, false⟩ : AttrMiss).hasGetattr || (⟨false, false, false⟩ : AttrMiss).ignoredRef)) = false := by decide

/-! ## D. the operation table: the finite quantifier of the property, enumerated -/

/-- **The model of the verdict meets the property outside the exception classes** (all operator and
subscript rows, not only the table's). -/
theorem model_meets_spec_partial (x : Row) (hk : (x.k == 2) = false) (h : D19 x = false) :
    modelDiag x = specDiag x := by
  simp only [D19, Bool.or_eq_false_iff] at h
  obtain ⟨⟨⟨⟨h1, h2⟩, _⟩, _⟩, _⟩ := h
  unfold modelDiag
  rw [hk]
  simp only [Bool.false_eq_true, if_false]
  cases specDiag x with
  | none => rfl
  | some b => cases b <;> simp [h1, h2]

/-- **Attribute access: the lookup model meets the property outside the exception classes.** For every
attribute row (any facts) whose CPython outcome is a value or AttributeError, with consistent facts
(`attrWF`: hooked / module-annotated names exist, no `__getattr__` on the operand's type) and outside
`ignoredEndOfReference` / `classLevelDescriptor`: the model of `_get_attribute_from_known` +
`_get_attribute_fallback` reports `undefined_attribute` exactly when CPython raises AttributeError. -/
theorem attr_model_meets_spec_partial (x : Row) (hk : (x.k == 2) = true) (hc : x.c = 0 ∨ x.c = 2)
    (hD : D19 x = false) (hwf : attrWF x = true) : modelDiag x = specDiag x := by
  have hs0 : x.c = 0 → specDiag x = some false := by intro h; simp [specDiag, h]
  have hs2 : x.c = 2 → specDiag x = some true := by intro h; simp [specDiag, h]
  have hk0 : (x.k == 0) = false := by
    have : x.k = 2 := by simpa using hk
    simp [this]
  simp only [D19, D19_classAsIndex, D19_sameTypeReflected, D19_subclassReflected,
    D19_ignoredEndOfReference, D19_classLevelDescriptor, hk, hk0, attrWF, Bool.false_and, Bool.false_or,
    Bool.true_and] at hD hwf
  simp only [modelDiag, hk, if_true, attrReported, knownAttr, attrFallback, Row.attrFacts, Row.attrMiss]
  generalize x.bit 0 = b0 at *
  generalize x.bit 1 = b1 at *
  generalize x.bit 2 = b2 at *
  generalize x.bit 3 = b3 at *
  generalize x.bit 4 = b4 at *
  generalize x.bit 5 = b5 at *
  generalize x.bit 6 = b6 at *
  generalize x.bit 7 = b7 at *
  generalize x.bit 8 = b8 at *
  generalize x.bit 9 = b9 at *
  generalize x.bit 10 = b10 at *
  generalize x.bit 11 = b11 at *
  generalize (x.ta == 11 || x.ta == 12) = tc at *
  rcases hc with hc | hc
  · rw [hs0 hc, hc]; rw [hc] at hD hwf
    revert hD hwf; revert b0 b1 b2 b3 b4 b5 b6 b7 b8 b9 b10 b11 tc; decide
  · rw [hs2 hc, hc]; rw [hc] at hD hwf
    revert hD hwf; revert b0 b1 b2 b3 b4 b5 b6 b7 b8 b9 b10 b11 tc; decide

/-- **No attribute name is special on the known-object route.** For an object that is not a class,
not hooked and not a module with an annotation for the name, the lookup finds the attribute exactly
when `getattr(obj, name)` does not raise AttributeError — whatever the name (`__dict__`, `__class__`,
`__slots__`, …): the object itself is always consulted. Full strength (all facts). -/
theorem knownAttr_nonclass_missing_iff (f : AttrFacts) (h1 : f.hooked = false)
    (h2 : (f.isModule && f.modAnn) = false) (h3 : f.isType = false) (h4 : f.isEnumCls = false) :
    knownAttr f = .missing ↔ f.getattr = .attributeError := by
  obtain ⟨hooked, e, m, ma, t, st, d, g⟩ := f
  simp only at h1 h2 h3 h4
  subst h1 h3 h4
  cases m <;> cases ma <;> cases g <;> simp_all [knownAttr]

/-- **C19 over the literal universe.** Every row of the regenerated table that lies outside the
exception classes satisfies the property: diagnosed ⇔ CPython raises TypeError/AttributeError
(IndexError for a literal tuple index), and an inferred literal equals CPython's result in type and
value. Proved by kernel evaluation of the whole table (`decide +kernel` in the generated parts). -/
theorem ops_table_agree : ∀ e ∈ opTable, D19 e = false → agree e = true := by
  intro e he hD
  have := List.all_eq_true.mp opTable_agree_all e he
  simpa [hD] using this

/-- **Correspondence over the whole universe**: on every row real pyanalyze diagnoses exactly when the
defect-including model says so (or, inside an exception class, already satisfies the property). -/
theorem ops_table_conforms : ∀ e ∈ opTable, conforms e = true :=
  fun e he => List.all_eq_true.mp opTable_conforms_all e he

/-- **Spec validation over the whole universe**: the dunder-level dispatch `cpyBinop`, fed with the
per-side runtime facts, reproduces what CPython did on every binary row. -/
theorem ops_table_spec : ∀ e ∈ opTable, specMatches e = true :=
  fun e he => List.all_eq_true.mp opTable_spec_all e he

/-- **C19 over the attribute universe.** Every row of the regenerated attribute table (every operand
class × every attribute name any operand has, plus names nobody has) outside the exception classes
satisfies the property: `undefined_attribute` ⇔ `getattr` raises AttributeError, and an inferred literal
is the real attribute value. -/
theorem attr_table_agree : ∀ e ∈ attrTable, D19 e = false → agree e = true := by
  intro e he hD
  have := List.all_eq_true.mp attrTable_agree_all e he
  simpa [hD] using this

/-- **Correspondence over the attribute universe**: on every row real pyanalyze reports exactly when the
Lean model of the known-object lookup (`attrReported`) says so, and infers exactly the real value
whenever the model finds the attribute through `getattr` on a non-class object. -/
theorem attr_table_conforms : ∀ e ∈ attrTable, conforms e = true :=
  fun e he => List.all_eq_true.mp attrTable_conforms_all e he

/-! Witness rows (hand-written copies of rows the pinned tree produces; ids as in the legend of
Generated/OpTables.lean): the model — hence the pinned tree, by `ops_table_conforms` — violates the
property inside each class. -/
/-- `'a' * int` -/
def wRowClassAsIndex : Row := r 0 2 15 30 5 12 22 1 0 0 1 0 0
/-- `EN.A + EN.A` -/
def wRowSameType : Row := r 0 0 28 28 9 9 205 1 0 0 0 1 5
/-- `1 + EP.A` -/
def wRowSubclass : Row := r 0 0 2 29 1 10 254 0 1 13 0 1 4
/-- `E.A.count` -/
def wRowIgnoredEnd : Row := r 2 6 25 0 9 0 3 2 0 0 1 0 0
/-- `int.imag` -/
def wRowClassDescr : Row := r 2 1 30 0 12 0 2606 0 17 451 0 1 1

theorem table_witness_classAsIndex :
    D19_classAsIndex wRowClassAsIndex = true ∧ modelDiag wRowClassAsIndex ≠ specDiag wRowClassAsIndex ∧
    agree wRowClassAsIndex = false := by decide
theorem table_witness_sameTypeReflected :
    D19_sameTypeReflected wRowSameType = true ∧ modelDiag wRowSameType ≠ specDiag wRowSameType ∧
    agree wRowSameType = false := by decide
theorem table_witness_subclassReflected :
    D19_subclassReflected wRowSubclass = true ∧ agree wRowSubclass = false := by decide
theorem table_witness_ignoredEndOfReference :
    D19_ignoredEndOfReference wRowIgnoredEnd = true ∧ modelDiag wRowIgnoredEnd ≠ specDiag wRowIgnoredEnd ∧
    agree wRowIgnoredEnd = false := by decide
theorem table_witness_classLevelDescriptor :
    D19_classLevelDescriptor wRowClassDescr = true ∧ agree wRowClassDescr = false := by decide

/-- `int.__annotations__` (declared for `object` in the stubs, raises on the class): also `classLevelDescriptor`. -/
def wRowStubOnly : Row := r 2 57 28 0 12 0 2090 2 0 0 1 0 0
theorem table_witness_classLevelDescriptor_stubOnly :
    D19_classLevelDescriptor wRowStubOnly = true ∧ modelDiag wRowStubOnly ≠ specDiag wRowStubOnly ∧
    agree wRowStubOnly = false := by decide

/-- Regression for the seeded change C19-4 (`__dict__` answered before the object is consulted):
on `(0).__dict__` (CPython: AttributeError) the model reports, a reporting implementation agrees and
conforms, a silent one (`p = 1`) does neither. -/
theorem attr_regression_dunder_dict :
    modelDiag (r 2 80 1 0 1 0 0 2 0 0 2 0 0) = some true ∧ agree (r 2 80 1 0 1 0 0 2 0 0 2 0 0) = true ∧
    conforms (r 2 80 1 0 1 0 0 2 0 0 2 0 0) = true ∧
    D19 (r 2 80 1 0 1 0 0 2 0 0 1 0 0) = false ∧ agree (r 2 80 1 0 1 0 0 2 0 0 1 0 0) = false ∧
    conforms (r 2 80 1 0 1 0 0 2 0 0 1 0 0) = false := by decide

/-- non-vacuity of the hypotheses of `attr_model_meets_spec_partial`: `(0).__dict__` and `(1).real`. -/
example : attrWF (r 2 80 1 0 1 0 0 2 0 0 2 0 0) = true ∧ D19 (r 2 80 1 0 1 0 0 2 0 0 2 0 0) = false := by decide
example : attrWF (r 2 0 2 0 1 0 0 0 1 2 0 1 2) = true ∧ D19 (r 2 0 2 0 1 0 0 0 1 2 0 1 2) = false ∧
    modelDiag (r 2 0 2 0 1 0 0 0 1 2 0 1 2) = some false ∧ modelLit (r 2 0 2 0 1 0 0 0 1 2 0 1 2) = true := by decide

/-- non-vacuity of `¬ D19`: `1 + 2` (a literal row) and `1 + 'a'` (a reported row). -/
example : D19 (r 0 0 2 4 1 1 253 0 1 12 0 1 12) = false ∧ agree (r 0 0 2 4 1 1 253 0 1 12 0 1 12) = true := by decide
example : D19 (r 0 0 2 15 1 5 4 1 0 0 2 0 0) = false ∧ agree (r 0 0 2 15 1 5 4 1 0 0 2 0 0) = true := by decide

end Pya.C19
