import PyaModel.Proofs.C20
import PyaModel.Generated.ClassTable
/-!
# Props/C20 — type evaluation functions follow docs/type_evaluation.md

Property theorems only. Model: `Pya.C20.evaluate` / `evalCall` (Core/TypeEval.lean, follows
`pyanalyze/type_evaluation.py` branch by branch). Spec: `Pya.C20.refRun` / `refUnion`
(Spec/TypeEvalSpec.lean, the reference interpreter of the document).
-/
namespace Pya.C20

/-! ## Arguments that are not unions -/

/-- **Full-strength statement** (false of the pinned pyanalyze, see `retyped_witness`): on arguments
that are not unions the evaluator returns the type and fires the `show_error`s the document's
symbolic execution prescribes. -/
def EvalNonunionEqRef (tbl : ClassTable) : Prop :=
  ∀ (ps : Positions) (vars : VarMap) (retAnn : Ty) (body : List Stmt),
    Stmt.wfL ps (Env.ofList vars) body = true → nonUnionVars vars = true →
    evaluate tbl ps (Env.ofList vars) retAnn body = refRun tbl ps (Env.ofList vars) retAnn body

/-- **C20, non-union arguments, outside class `retyped`.** For every class table, every body of the
grammar (any nesting of `if`/`elif`/`else`, any `and`/`or`/`not` combination of `is_of_type`,
comparisons, argument-kind tests and version/platform conditions, `return`, `show_error`, `pass`)
whose conditions only name parameters of the call, and every call none of whose arguments is a union
and in which no type test re-types its argument (class `retyped`: an `Any` matched with
`exclude_any=False`): the model of pyanalyze's evaluator yields exactly the type the reference
interpreter yields and fires exactly the same `show_error` messages, in the same order. -/
theorem eval_nonunion_eq_ref_partial (tbl : ClassTable) (ps : Positions) (vars : VarMap)
    (retAnn : Ty) (body : List Stmt)
    (hwf : Stmt.wfL ps (Env.ofList vars) body = true)
    (hnu : nonUnionVars vars = true)
    (hD : D20_retyped tbl vars body = false) :
    evaluate tbl ps (Env.ofList vars) retAnn body = refRun tbl ps (Env.ofList vars) retAnn body := by
  have h := evalBlock_nonunion tbl ps (Env.ofList vars) body [] (nu_of_hyps tbl vars body hnu hD) hwf
  simp [evaluate, refRun, h, finalize]

/-! ## Argument kinds -/

/-- **`is_provided` / `is_positional` / `is_keyword` against the four argument kinds.** Whatever
position the binder reports for a parameter (a positional index, a keyword, `*args`, `**kwargs`, the
default, unknown), the three functions answer as the document's table says for the kind that position
stands for: provided = POSITIONAL or KEYWORD, positional = POSITIONAL, keyword = KEYWORD. -/
theorem position_predicates (f : KindFn) (p : Pos) : kindMatch f p = specKind f (akindOf p) := by
  cases f <;> cases p <;> rfl

/-- … and so the condition `f(v)` takes the branch the document selects, for every environment. -/
theorem position_predicates_cond (tbl : ClassTable) (ps : Positions) (e : Env) (f : KindFn)
    (v : String) (p : Pos) (hp : ps.lookup v = some p) :
    evalCond tbl ps e (.kind f v) =
      if specKind f (akindOf p) then ⟨some [], none⟩ else ⟨none, some []⟩ := by
  simp [evalCond, hp, position_predicates]

/-- The binder's positions for the document's `reject_arg(arg: int = 0)` examples: omitted → DEFAULT,
positional → POSITIONAL, keyword → KEYWORD, `*args` / `**kwargs` of unknown size → UNKNOWN; and for a
required parameter `*args` → POSITIONAL, `**kwargs` → KEYWORD. -/
theorem doc_examples_kinds :
    (pyaCall [⟨"arg", .posOrKw, true⟩] []).map (·.map fun np => akindOf np.2) = some [.default] ∧
    (pyaCall [⟨"arg", .posOrKw, true⟩] [.pos]).map (·.map fun np => akindOf np.2) = some [.positional] ∧
    (pyaCall [⟨"arg", .posOrKw, true⟩] [.kw "arg"]).map (·.map fun np => akindOf np.2) = some [.keyword] ∧
    (pyaCall [⟨"arg", .posOrKw, true⟩] [.starUnk]).map (·.map fun np => akindOf np.2) = some [.unknown] ∧
    (pyaCall [⟨"arg", .posOrKw, true⟩] [.dstarUnk]).map (·.map fun np => akindOf np.2) = some [.unknown] ∧
    (pyaCall [⟨"arg", .posOrKw, false⟩] [.starUnk]).map (·.map fun np => akindOf np.2) = some [.positional] ∧
    (pyaCall [⟨"arg", .posOrKw, false⟩] [.dstarUnk]).map (·.map fun np => akindOf np.2) = some [.keyword] ∧
    (pyaCall [⟨"arg", .posOrKw, false⟩] [.starUnk, .dstarUnk]).map (·.map fun np => akindOf np.2) = some [.unknown] ∧
    (pyaCall [⟨"args", .varPos, false⟩] []).map (·.map fun np => akindOf np.2) = some [.default] ∧
    (pyaCall [⟨"args", .varPos, false⟩] [.pos]).map (·.map fun np => akindOf np.2) = some [.positional] ∧
    (pyaCall [⟨"args", .varPos, false⟩] [.starUnk]).map (·.map fun np => akindOf np.2) = some [.positional] ∧
    (pyaCall [⟨"kwargs", .varKw, false⟩] []).map (·.map fun np => akindOf np.2) = some [.default] ∧
    (pyaCall [⟨"kwargs", .varKw, false⟩] [.kw "x"]).map (·.map fun np => akindOf np.2) = some [.keyword] ∧
    (pyaCall [⟨"kwargs", .varKw, false⟩] [.dstarUnk]).map (·.map fun np => akindOf np.2) = some [.keyword] := by
  decide

/-! ## `Any` -/

/-- **"Any matches only Any" (`exclude_any=True`, the default).** An argument of type `Any` is of type
`T` exactly when `T` is `Any`, a union with an `Any` alternative, or `Annotated` around one — for every
class table and every `T` (generics, tuples, literals, classes …). -/
theorem any_only_matches_any (tbl : ClassTable) (t : Ty) :
    ca tbl true t .any = acceptsAnyX t := ca_excl_any tbl t

/-- … hence on an `Any` argument `is_of_type(v, T)` with such a `T` excluded takes the `else` branch,
and so does every `v == c` / `v is c`; the reference interpreter agrees. -/
theorem any_only_matches_any_cond (tbl : ClassTable) (ps : Positions) (e : Env) (v : String)
    (hv : e v = some .any) :
    (∀ t, acceptsAnyX t = false →
      evalCond tbl ps e (.ofType v t true) = ⟨none, some []⟩ ∧ refCond tbl ps e (.ofType v t true) = false) ∧
    (∀ k, evalCond tbl ps e (.cmp v k false) = ⟨none, some []⟩ ∧ refCond tbl ps e (.cmp v k false) = false) := by
  constructor
  · intro t ht
    simp [evalCond, refCond, ofTypeRet, ofTypeVal, hv, ca_excl_any, ht, decompose, unannotate]
  · intro k
    simp [evalCond, refCond, ofTypeRet, ofTypeVal, hv, ca_excl_any, acceptsAnyX, decompose, unannotate]

/-- **`exclude_any=False` is permissive**: an `Any` argument is of every type, so the condition takes
the `if` branch only. -/
theorem exclude_any_false_permissive (tbl : ClassTable) (ps : Positions) (e : Env) (v : String)
    (t : Ty) (hv : e v = some .any) :
    ca tbl false t .any = true ∧ (evalCond tbl ps e (.ofType v t false)).right = none ∧
    (evalCond tbl ps e (.ofType v t false)).left.isSome = true ∧
    refCond tbl ps e (.ofType v t false) = true := by
  simp [evalCond, refCond, ofTypeRet, ofTypeVal, hv, ca_perm_any]

end Pya.C20
