import PyaModel.Proofs.C20
import PyaModel.Proofs.C20Union
import PyaModel.Generated.ClassTable
/-!
# Props/C20 — type evaluation functions follow docs/type_evaluation.md

Property theorems only. Model: `Pya.C20.evaluate` / `evalCall` (Core/TypeEval.lean, follows
`pyanalyze/type_evaluation.py` branch by branch). Spec: `Pya.C20.refRun` / `refUnion`
(Spec/TypeEvalSpec.lean, the reference interpreter of the document).
-/
namespace Pya.C20

/-! ## Arguments that are not unions -/

/-- **Full-strength statement** (false of the pinned pyanalyze, see `retyped_witness`): on arguments
that are not unions the evaluator returns the type and fires the `show_error`s the document's
symbolic execution prescribes. -/
def EvalNonunionEqRef (tbl : ClassTable) : Prop :=
  ∀ (ps : Positions) (vars : VarMap) (retAnn : Ty) (body : List Stmt),
    Stmt.wfL ps (Env.ofList vars) body = true → nonUnionVars vars = true →
    evaluate tbl ps (Env.ofList vars) retAnn body = refRun tbl ps (Env.ofList vars) retAnn body

/-- **C20, non-union arguments, outside class `retyped`.** For every class table, every body of the
grammar (any nesting of `if`/`elif`/`else`, any `and`/`or`/`not` combination of `is_of_type`,
comparisons, argument-kind tests and version/platform conditions, `return`, `show_error`, `pass`)
whose conditions only name parameters of the call, and every call none of whose arguments is a union
and in which no type test re-types its argument (class `retyped`: an `Any` matched with
`exclude_any=False`): the model of pyanalyze's evaluator yields exactly the type the reference
interpreter yields and fires exactly the same `show_error` messages, in the same order. -/
theorem eval_nonunion_eq_ref_partial (tbl : ClassTable) (ps : Positions) (vars : VarMap)
    (retAnn : Ty) (body : List Stmt)
    (hwf : Stmt.wfL ps (Env.ofList vars) body = true)
    (hnu : nonUnionVars vars = true)
    (hD : D20_retyped tbl vars body = false) :
    evaluate tbl ps (Env.ofList vars) retAnn body = refRun tbl ps (Env.ofList vars) retAnn body := by
  have h := evalBlock_nonunion tbl ps (Env.ofList vars) body [] (nu_of_hyps tbl vars body hnu hD) hwf
  simp [evaluate, refRun, h, finalize]

/-! Non-vacuity: the call `f(1, 1)` of the example function of Proofs/C20Union.lean (`exBody`: a
comparison, an `elif` with `is_positional(x) and is_of_type(y, int)`, `show_error`, three returns) meets
the hypotheses; the theorem then gives `int` and the message `E1`. -/
def exVarsNU : VarMap := [("x", .known (.int 1)), ("y", .known (.int 1))]
example : Stmt.wfL exPs (Env.ofList exVarsNU) exBody = true := by decide
example : nonUnionVars exVarsNU = true := by decide
example : D20_retyped liveTable exVarsNU exBody = false := by
  have hx : List.lookup "x" exVarsNU = some (.known (.int 1)) := by rfl
  have hy : List.lookup "y" exVarsNU = some (.known (.int 1)) := by rfl
  simp [D20_retyped, exBody, Stmt.testsL, Stmt.tests, Cond.tests, Cond.testsL, retypedTest, hx, hy, flatten1,
    tag_k1_k1, tag_int_k1]

/-- **The context of a call** (full strength since commit d1ebe72). For every signature and every call
shape, the variables and positions pyanalyze hands to the evaluator are the ones the document
prescribes; in particular an omitted parameter whose default is `...` has its annotation as its type. -/
theorem context_eq_specContext (c : EvalCase) : context c = specContext c := rfl

/-! ## Argument kinds -/

/-- **`is_provided` / `is_positional` / `is_keyword` against the four argument kinds.** Whatever
position the binder reports for a parameter (a positional index, a keyword, `*args`, `**kwargs`, the
default, unknown), the three functions answer as the document's table says for the kind that position
stands for: provided = POSITIONAL or KEYWORD, positional = POSITIONAL, keyword = KEYWORD. -/
theorem position_predicates (f : KindFn) (p : Pos) : kindMatch f p = specKind f (akindOf p) := by
  cases f <;> cases p <;> rfl

/-- … and so the condition `f(v)` takes the branch the document selects, for every environment. -/
theorem position_predicates_cond (tbl : ClassTable) (ps : Positions) (e : Env) (f : KindFn)
    (v : String) (p : Pos) (hp : ps.lookup v = some p) :
    evalCond tbl ps e (.kind f v) =
      if specKind f (akindOf p) then ⟨some [], none⟩ else ⟨none, some []⟩ := by
  simp [evalCond, hp, position_predicates]

/-- The binder's positions for the document's `reject_arg(arg: int = 0)` examples: omitted → DEFAULT,
positional → POSITIONAL, keyword → KEYWORD, `*args` / `**kwargs` of unknown size → UNKNOWN; and for a
required parameter `*args` → POSITIONAL, `**kwargs` → KEYWORD. -/
theorem doc_examples_kinds :
    (pyaCall [⟨"arg", .posOrKw, true⟩] []).map (·.map fun np => akindOf np.2) = some [.default] ∧
    (pyaCall [⟨"arg", .posOrKw, true⟩] [.pos]).map (·.map fun np => akindOf np.2) = some [.positional] ∧
    (pyaCall [⟨"arg", .posOrKw, true⟩] [.kw "arg"]).map (·.map fun np => akindOf np.2) = some [.keyword] ∧
    (pyaCall [⟨"arg", .posOrKw, true⟩] [.starUnk]).map (·.map fun np => akindOf np.2) = some [.unknown] ∧
    (pyaCall [⟨"arg", .posOrKw, true⟩] [.dstarUnk]).map (·.map fun np => akindOf np.2) = some [.unknown] ∧
    (pyaCall [⟨"arg", .posOrKw, false⟩] [.starUnk]).map (·.map fun np => akindOf np.2) = some [.positional] ∧
    (pyaCall [⟨"arg", .posOrKw, false⟩] [.dstarUnk]).map (·.map fun np => akindOf np.2) = some [.keyword] ∧
    (pyaCall [⟨"arg", .posOrKw, false⟩] [.starUnk, .dstarUnk]).map (·.map fun np => akindOf np.2) = some [.unknown] ∧
    (pyaCall [⟨"args", .varPos, false⟩] []).map (·.map fun np => akindOf np.2) = some [.default] ∧
    (pyaCall [⟨"args", .varPos, false⟩] [.pos]).map (·.map fun np => akindOf np.2) = some [.positional] ∧
    (pyaCall [⟨"args", .varPos, false⟩] [.starUnk]).map (·.map fun np => akindOf np.2) = some [.positional] ∧
    (pyaCall [⟨"kwargs", .varKw, false⟩] []).map (·.map fun np => akindOf np.2) = some [.default] ∧
    (pyaCall [⟨"kwargs", .varKw, false⟩] [.kw "x"]).map (·.map fun np => akindOf np.2) = some [.keyword] ∧
    (pyaCall [⟨"kwargs", .varKw, false⟩] [.dstarUnk]).map (·.map fun np => akindOf np.2) = some [.keyword] := by
  decide

/-! ## `Any` -/

/-- **"Any matches only Any" (`exclude_any=True`, the default).** An argument of type `Any` is of type
`T` exactly when `T` is `Any`, a union with an `Any` alternative, or `Annotated` around one — for every
class table and every `T` (generics, tuples, literals, classes …). -/
theorem any_only_matches_any (tbl : ClassTable) (t : Ty) :
    ca tbl true t .any = acceptsAnyX t := ca_excl_any tbl t

/-- … hence on an `Any` argument `is_of_type(v, T)` with such a `T` excluded takes the `else` branch,
and so does every `v == c` / `v is c`; the reference interpreter agrees. -/
theorem any_only_matches_any_cond (tbl : ClassTable) (ps : Positions) (e : Env) (v : String)
    (hv : e v = some .any) :
    (∀ t, acceptsAnyX t = false →
      evalCond tbl ps e (.ofType v t true) = ⟨none, some []⟩ ∧ refCond tbl ps e (.ofType v t true) = false) ∧
    (∀ k, evalCond tbl ps e (.cmp v k false) = ⟨none, some []⟩ ∧ refCond tbl ps e (.cmp v k false) = false) := by
  constructor
  · intro t ht
    simp [evalCond, refCond, ofTypeRet, ofTypeVal, hv, ca_excl_any, ht, decompose, unannotate]
  · intro k
    simp [evalCond, refCond, ofTypeRet, ofTypeVal, hv, ca_excl_any, acceptsAnyX, decompose, unannotate]

/-- **`exclude_any=False` is permissive**: an `Any` argument is of every type, so the condition takes
the `if` branch only. -/
theorem exclude_any_false_permissive (tbl : ClassTable) (ps : Positions) (e : Env) (v : String)
    (t : Ty) (hv : e v = some .any) :
    ca tbl false t .any = true ∧ (evalCond tbl ps e (.ofType v t false)).right = none ∧
    (evalCond tbl ps e (.ofType v t false)).left.isSome = true ∧
    refCond tbl ps e (.ofType v t false) = true := by
  simp [evalCond, refCond, ofTypeRet, ofTypeVal, hv, ca_perm_any]

/-! ## Union arguments: the full statement and the witnesses of the exception classes -/

/-- **Full-strength statement of the union clause** (false of pyanalyze: witness `fallThrough_witness`
below). For a call with union-typed arguments the evaluator's type equals (as a union, up to `==`)
the union of the reference results of the member-wise calls, and a `show_error` fires iff it fires for
some member. -/
def EvalUnionDistributes (tbl : ClassTable) : Prop :=
  ∀ (ps : Positions) (vars : VarMap) (retAnn : Ty) (body : List Stmt),
    Stmt.wfL ps (Env.ofList vars) body = true →
    Ty.beq (evaluate tbl ps (Env.ofList vars) retAnn body).1 (refUnion tbl ps vars retAnn body).1 = true ∧
    ∀ m, m ∈ (evaluate tbl ps (Env.ofList vars) retAnn body).2 ↔ m ∈ (refUnion tbl ps vars retAnn body).2

/-- **C20, one union-typed argument, outside the exception classes.** For every class table, every
body of the grammar (any nesting of `if`/`elif`/`else`, any `and`/`or`/`not` combination of the primitive
conditions, tests on any parameter) whose conditions only name parameters, and every call in which
exactly one variable `x` holds a union (a normal one: ≥ 2 hashable non-union members, no duplicates), all
other variables hold hashable non-unions and the returned types are values `unite_values` leaves alone:
if the run does not fall in class `fallThrough` (a partially returning statement followed by more
statements) and no type test re-types a matching member (class `retyped`: an `Any` member or argument
matched with `exclude_any=False`), then the type the model of pyanalyze's evaluator computes is `==` (as
a union) to the union of the reference interpreter's results for the members of `x` evaluated
separately, and a `show_error` message fires iff it fires for some member. -/
theorem eval_union_distributes_partial (tbl : ClassTable) (ps : Positions) (vars : VarMap)
    (retAnn : Ty) (body : List Stmt) (x : String)
    (hwf : Stmt.wfL ps (Env.ofList vars) body = true)
    (hx : unionArgOK x vars = true) (ho : othersOK x vars = true) (hr : retsOK retAnn body = true)
    (h1 : D20_fallThrough tbl ps (Env.ofList vars) body = false)
    (h2 : D20_retyped tbl vars body = false) :
    Ty.beq (evaluate tbl ps (Env.ofList vars) retAnn body).1 (refUnion tbl ps vars retAnn body).1 = true ∧
    ∀ msg, msg ∈ (evaluate tbl ps (Env.ofList vars) retAnn body).2 ↔
      msg ∈ (refUnion tbl ps vars retAnn body).2 :=
  eval_union_core tbl ps vars retAnn body x hwf hx ho hr h1 h2

/-! ### Non-vacuity of `eval_union_distributes_partial`

`def f(x, y): if x == 1: show_error("E1"); return int` / `elif is_positional(x) and is_of_type(y, int):
return str` / `else: return bytes`, called as `f(v, 1)` with `v: Literal[1] | str` (`exPs`, `exVars`,
`exBody` in Proofs/C20Union.lean): every hypothesis holds, and the theorem yields `int | str`, `E1`. -/
example : Stmt.wfL exPs (Env.ofList exVars) exBody = true := by decide
example : othersOK "x" exVars = true := by decide
example : retsOK (.typed C.complex) exBody = true := by decide
example : unionArgOK "x" exVars = true := by
  simp [unionArgOK, oneUnionB, exVars, wU, goodMembers, isUnionVal, Ty.hashEq, Obj.hashable, Obj.same, Obj.tag,
    Obj.pyEq, hasDupMembers.dupIn, Ty.memBy, Ty.beq]
example : D20_retyped liveTable exVars exBody = false := ex_retyped
example : D20_fallThrough liveTable exPs (Env.ofList exVars) exBody = false := ex_fall
example :
    Ty.beq (evaluate liveTable exPs (Env.ofList exVars) (.typed C.complex) exBody).1
      (refUnion liveTable exPs exVars (.typed C.complex) exBody).1 = true :=
  (eval_union_distributes_partial liveTable exPs exVars (.typed C.complex) exBody "x" (by decide)
    (by simp [unionArgOK, oneUnionB, exVars, wU, goodMembers, isUnionVal, Ty.hashEq, Obj.hashable, Obj.same,
      Obj.tag, Obj.pyEq, hasDupMembers.dupIn, Ty.memBy, Ty.beq])
    (by decide) (by decide) ex_fall ex_retyped).1

/-- class `fallThrough`: `if x == 1: return int` / `if x == 1: return str else: return bytes` on
`x: Literal[1] | str` gives `int | str | bytes`; member-wise: `Literal[1]` → `int`, `str` → `bytes`. -/
theorem fallThrough_witness :
    (evaluate liveTable [] (Env.ofList [("x", wU)]) (.typed C.complex) wFallBody).1 =
      .union [.typed C.int, .typed C.str, .typed C.bytes] ∧
    (refUnion liveTable [] [("x", wU)] (.typed C.complex) wFallBody).1 =
      .union [.typed C.int, .typed C.bytes] := by
  rw [fallThrough_model, fallThrough_ref]; exact ⟨rfl, rfl⟩

/-- class `retyped` (a non-union argument): `if is_of_type(x, int, exclude_any=False):` /
`if is_of_type(x, int): return int else: return str` on `x: Any` gives `int`; the document: `str`. -/
theorem retyped_witness :
    (evaluate liveTable [] (Env.ofList [("x", .any)]) (.typed C.float) wRetBody).1 = .typed C.int ∧
    (refRun liveTable [] (Env.ofList [("x", .any)]) (.typed C.float) wRetBody).1 = .typed C.str := by
  rw [retyped_model, retyped_ref]; exact ⟨rfl, rfl⟩

/-! ### Regressions: the three classes repaired in /repo (faaff0c, 4713671, d1ebe72)

The former witnesses now give the documented result (they stay in corpus/C20.jsonl: a re-appearance is a
new violation). -/

/-- former class `overlapNarrow`: `if is_of_type(x, int): (if x == 1: return int else: return str) else:
return bytes` on `x: object | Literal[1]` gives `int | bytes`, as member-wise (`bytes | int`). -/
theorem overlapNarrow_repaired :
    (evaluate liveTable [] (Env.ofList [("x", wOvU)]) (.typed C.complex) wOvBody).1 =
      .union [.typed C.int, .typed C.bytes] ∧
    (refUnion liveTable [] [("x", wOvU)] (.typed C.complex) wOvBody).1 =
      .union [.typed C.bytes, .typed C.int] := by
  rw [overlapNarrow_model, overlapNarrow_ref]; exact ⟨rfl, rfl⟩

/-- former class `boolOpDrop`: `if is_of_type(x, int) or is_of_type(x, str): (if x == 0: return int else:
return str) else: return bytes` on `x: Literal[0] | str` gives `int | str`: the `Literal[0]` member set
aside by the first operand reaches the `if` branch. -/
theorem boolOpDrop_repaired :
    evaluate liveTable [] (Env.ofList [("x", wDropU)]) (.typed C.complex) wDropBody =
      refUnion liveTable [] [("x", wDropU)] (.typed C.complex) wDropBody := by
  rw [boolOpDrop_model, boolOpDrop_ref]

/-- former class `ellipsisDefault`: the document's `with_defaults` example, `def f(x: int = ...) -> bytes:
if is_of_type(x, int): return str` called as `f()`, gives `str` (x is `int`). -/
theorem ellipsisDefault_repaired :
    evalCall liveTable wEllCase = some (.typed C.str, []) ∧ refCall liveTable wEllCase = evalCall liveTable wEllCase := by
  rw [ellipsisDefault_model, ellipsisDefault_ref]; exact ⟨rfl, rfl⟩

/-- class `multiError`: of two executed `show_error`s only the first is reported. -/
theorem multiError_witness : reported ["E1", "E2"] = ["E1"] ∧ reported ["E1", "E2"] ≠ ["E1", "E2"] := by
  decide

/-- Hence the two full statements fail on the live table. -/
theorem evalNonunionEqRef_live_false : ¬ EvalNonunionEqRef liveTable := by
  intro h
  have := h [] [("x", .any)] (.typed C.float) wRetBody (by decide) (by decide)
  rw [retyped_model, retyped_ref] at this
  simp [C.int, C.str] at this

theorem evalUnionDistributes_live_false : ¬ EvalUnionDistributes liveTable := by
  intro h
  have := (h [] [("x", wU)] (.typed C.complex) wFallBody (by decide)).1
  rw [fallThrough_model, fallThrough_ref] at this
  simp [Ty.beq, Ty.beqList, Ty.subsetH, Ty.memH, Ty.hashEq, C.int, C.str, C.bytes] at this

end Pya.C20
