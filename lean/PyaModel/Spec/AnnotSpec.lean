import PyaModel.Core.Annot
/-!
# Spec/AnnotSpec — the external systems C13's routes are compared through, and the exception classes

* `tnorm` — what **`typing`** (CPython 3.12) itself does to an annotation expression when it is
  evaluated to an object: `Optional[X]` → `Union[X, None]`; `Union` / `|` flatten nested unions,
  drop later arguments that are `==` to an earlier one and collapse to the single argument;
  `Literal` de-duplicates by (value, type); nested `Annotated` merge; string arguments stay strings
  (or `ForwardRef`s) and are *not* looked into. `teq` models `==` of the resulting objects.
  This is a modelled parameter of the property, validated against the real `typing` on every run
  (correspondence stream `typing`).
* `inspectOf` — what **`inspect.signature`** reports for a `def` header (CPython's
  `_signature_from_function`: defaults aligned to the *tail* of the positional parameters by index,
  keyword-only defaults by name). Validated against the real `inspect` (stream `inspect`).
* `Supported` — the fragment of the annotation vocabulary the theorems quantify over.
* Exception class (finding) `D13_starUnpack` and the representation-only classes
  `R13_typingDedup`, `R13_unannotated`. (The former classes `asyncGenInferred` — repaired by c03851a; a header-level regression case of the harness —, `finalQuoted` and `dunderPosOnly` were
  repaired in /repo by d560eeb and 96446dc; model and theorems now cover them, their witnesses are
  regression theorems in Props/C13.lean.)
-/
namespace Pya.C13

/-! ## structural equality and `typing`'s `==` -/

mutual
/-- structural equality of expressions (equality of the source text) -/
def AnnExpr.beq : AnnExpr → AnnExpr → Bool
  | .cls c, .cls d => c == d
  | .none, .none => true
  | .anyT, .anyT => true
  | .newtype n c, .newtype m d => n == m && c == d
  | .bare c, .bare d => c == d
  | .gen o c as, .gen o' d bs => o == o' && c == d && AnnExpr.beqL as bs
  | .tup o as, .tup o' bs => o == o' && AnnExpr.beqL as bs
  | .tupE o, .tupE o' => o == o'
  | .tupV o a, .tupV o' b => o == o' && AnnExpr.beq a b
  | .unpack a, .unpack b => AnnExpr.beq a b
  | .star a, .star b => AnnExpr.beq a b
  | .lit os, .lit os' => os == os'
  | .typ o a, .typ o' b => o == o' && AnnExpr.beq a b
  | .ann a k, .ann b k' => k == k' && AnnExpr.beq a b
  | .final a, .final b => AnnExpr.beq a b
  | .classVar a, .classVar b => AnnExpr.beq a b
  | .opt a, .opt b => AnnExpr.beq a b
  | .union as, .union bs => AnnExpr.beqL as bs
  | .bor a a', .bor b b' => AnnExpr.beq a b && AnnExpr.beq a' b'
  | .str a, .str b => AnnExpr.beq a b
  | .name n, .name m => n == m
  | .dotted n p, .dotted m q => n == m && p == q
  | _, _ => false
def AnnExpr.beqL : List AnnExpr → List AnnExpr → Bool
  | [], [] => true
  | a :: as, b :: bs => AnnExpr.beq a b && AnnExpr.beqL as bs
  | _, _ => false
end

mutual
/-- `==` of two objects built by `typing` (normal forms): `typing.List[int] != list[int]`,
`Union` / `Literal` compare as sets, `Annotated` compares origin and metadata, strings /
`ForwardRef`s compare their text. -/
def teq : AnnExpr → AnnExpr → Bool
  | .cls c, .cls d => c == d
  | .none, .none => true
  | .anyT, .anyT => true
  | .newtype n _, .newtype m _ => n == m
  | .bare c, .bare d => c == d
  | .gen o c as, .gen o' d bs => o == o' && c == d && teqL as bs
  | .tup o as, .tup o' bs => o == o' && teqL as bs
  | .tupE o, .tupE o' => o == o'
  | .tupV o a, .tupV o' b => o == o' && teq a b
  | .unpack a, .unpack b => teq a b
  | .star a, .star b => teq a b
  | .lit os, .lit os' => os.all (fun o => os'.contains o) && os'.all (fun o => os.contains o)
  | .typ o a, .typ o' b => o == o' && teq a b
  | .ann a k, .ann b k' => k == k' && teq a b
  | .final a, .final b => teq a b
  | .classVar a, .classVar b => teq a b
  | .union as, .union bs => teqSub as bs && teqSub bs as
  | .str a, .str b => AnnExpr.beq a b
  | _, _ => false
termination_by a b => sizeOf a + sizeOf b
def teqL : List AnnExpr → List AnnExpr → Bool
  | [], [] => true
  | a :: as, b :: bs => teq a b && teqL as bs
  | _, _ => false
termination_by a b => sizeOf a + sizeOf b
def teqSub : List AnnExpr → List AnnExpr → Bool
  | [], _ => true
  | a :: as, bs => teqMem a bs && teqSub as bs
termination_by a b => sizeOf a + sizeOf b
def teqMem : AnnExpr → List AnnExpr → Bool
  | _, [] => false
  | a, b :: bs => teq a b || teqMem a bs
termination_by a b => sizeOf a + sizeOf b
end

/-! ## `typing`'s normalisation -/

/-- `typing._deduplicate`: keep the first of `==` arguments. -/
def tdedupGo : List AnnExpr → List AnnExpr → List AnnExpr
  | acc, [] => acc
  | acc, x :: xs => if teqMem x acc then tdedupGo acc xs else tdedupGo (acc ++ [x]) xs
def tdedup (xs : List AnnExpr) : List AnnExpr := tdedupGo [] xs

/-- the arguments a `Union` / `X | Y` contributes when it is itself an argument of a union -/
def unionArgs : AnnExpr → List AnnExpr
  | .union xs => xs
  | e => [e]

/-- `Union[args]` / `a | b` on already built arguments: flatten, de-duplicate, collapse a single
argument (`typing._remove_dups_flatten`, `_UnionGenericAlias`, `types.UnionType`). -/
def mkTUnion (args : List AnnExpr) : AnnExpr :=
  match tdedup (args.flatMap unionArgs) with
  | [x] => x
  | xs => .union xs

/-- `Literal[...]` de-duplicates its arguments by (value, type). -/
def dedupObjsGo : List LitObj → List LitObj → List LitObj
  | acc, [] => acc
  | acc, o :: os => if acc.contains o then dedupObjsGo acc os else dedupObjsGo (acc ++ [o]) os
def dedupObjs (os : List LitObj) : List LitObj := dedupObjsGo [] os

mutual
/-- the object `typing` builds for the expression, written as an expression in normal form -/
def tnorm : AnnExpr → AnnExpr
  | .gen o c args => .gen o c (tnormL args)
  | .tup o ms => .tup o (tnormL ms)
  | .tupV o e => .tupV o (tnorm e)
  | .unpack e => .unpack (tnorm e)
  | .star e =>                       -- `*typing.Tuple[...]` is `Unpack[Tuple[...]]`; `*tuple[...]` stays a starred alias
    match tnorm e with
    | .tup true ms => .unpack (.tup true ms)
    | .tupV true x => .unpack (.tupV true x)
    | .tupE true => .unpack (.tupE true)
    | e' => .star e'
  | .lit os => .lit (dedupObjs os)
  | .typ o e => .typ o (tnorm e)
  | .ann e k =>
    match tnorm e with
    | .ann e' k' => .ann e' (k' + k)
    | e' => .ann e' k
  | .final e => .final (tnorm e)
  | .classVar e => .classVar (tnorm e)
  | .opt e => mkTUnion [tnorm e, .none]
  | .union es => mkTUnion (tnormL es)
  | .bor a b => mkTUnion [tnorm a, tnorm b]
  | e => e
def tnormL : List AnnExpr → List AnnExpr
  | [] => []
  | e :: es => tnorm e :: tnormL es
end

mutual
/-- `Optional[X]` rewritten as `Union[None, X]` — the order in which the AST route unites the two
(annotations.py:790), as opposed to `typing`'s `Union[X, None]`. -/
def swapOpt : AnnExpr → AnnExpr
  | .gen o c args => .gen o c (swapOptL args)
  | .tup o ms => .tup o (swapOptL ms)
  | .tupV o e => .tupV o (swapOpt e)
  | .unpack e => .unpack (swapOpt e)
  | .star e => .star (swapOpt e)
  | .typ o e => .typ o (swapOpt e)
  | .ann e k => .ann (swapOpt e) k
  | .final e => .final (swapOpt e)
  | .classVar e => .classVar (swapOpt e)
  | .opt e => .union [.none, swapOpt e]
  | .union es => .union (swapOptL es)
  | .bor a b => .bor (swapOpt a) (swapOpt b)
  | e => e
def swapOptL : List AnnExpr → List AnnExpr
  | [] => []
  | e :: es => swapOpt e :: swapOptL es
end

mutual
/-- an `Optional[...]` outside string constants -/
def AnnExpr.hasOpt : AnnExpr → Bool
  | .opt _ => true
  | .gen _ _ args => AnnExpr.hasOptL args
  | .tup _ ms => AnnExpr.hasOptL ms
  | .tupV _ e => e.hasOpt
  | .unpack e => e.hasOpt
  | .star e => e.hasOpt
  | .typ _ e => e.hasOpt
  | .ann e _ => e.hasOpt
  | .final e => e.hasOpt
  | .classVar e => e.hasOpt
  | .union es => AnnExpr.hasOptL es
  | .bor a b => a.hasOpt || b.hasOpt
  | _ => false
def AnnExpr.hasOptL : List AnnExpr → Bool
  | [] => false
  | e :: es => e.hasOpt || AnnExpr.hasOptL es
end

/-! ## the supported fragment -/

def isTupleForm : AnnExpr → Bool
  | .tup _ _ => true | .tupE _ => true | .tupV _ _ => true
  | _ => false

mutual
/-- arguments of `type[...]` whose `SubclassValue` is a `Ty`: classes, `Any`, `None`, literals and
unions of those (possibly quoted) -/
def typArgOk : AnnExpr → Bool
  | .cls _ => true | .anyT => true | .none => true | .lit _ => true | .name _ => true | .dotted _ _ => true
  | .opt e => typArgOk e
  | .union es => typArgOkL es
  | .bor a b => typArgOk a && typArgOk b
  | .str e => typArgOk e
  | _ => false
def typArgOkL : List AnnExpr → Bool
  | [] => true
  | e :: es => typArgOk e && typArgOkL es
end

mutual
/-- `supp mem e`: `e` is in the supported vocabulary; `mem` = `e` stands directly as a member of a
`tuple[...]` (the only place `Unpack[...]` / `*...` may appear). -/
def supp (mem : Bool) : AnnExpr → Bool
  | .gen _ c args => !args.isEmpty && c != C.tuple && c != C.type && suppL args
  | .tup o ms => !ms.isEmpty && suppM ms && (!o || !ms.any AnnExpr.isStar)
  | .tupV _ e => supp false e
  | .unpack e => mem && isTupleForm e && supp false e
  | .star e => mem && isTupleForm e && supp false e
  | .lit os => !os.isEmpty
  | .typ _ e => typArgOk e && supp false e
  | .ann e k => k != 0 && supp false e
  | .final e => supp false e
  | .classVar e => supp false e
  | .opt e => supp false e
  | .union es => !es.isEmpty && suppL es
  | .bor a b => supp false a && supp false b
  | .str e => supp false e
  | _ => true
def suppL : List AnnExpr → Bool
  | [] => true
  | e :: es => supp false e && suppL es
def suppM : List AnnExpr → Bool
  | [] => true
  | e :: es => supp true e && suppM es
end

/-- the supported annotation vocabulary -/
def Supported (e : AnnExpr) : Bool := supp false e

/-! ## exception classes -/

mutual
/-- a starred member somewhere, strings included -/
def AnnExpr.hasStar : AnnExpr → Bool
  | .star _ => true
  | .gen _ _ args => AnnExpr.hasStarL args
  | .tup _ ms => AnnExpr.hasStarL ms
  | .tupV _ e => e.hasStar
  | .unpack e => e.hasStar
  | .typ _ e => e.hasStar
  | .ann e _ => e.hasStar
  | .final e => e.hasStar
  | .classVar e => e.hasStar
  | .opt e => e.hasStar
  | .union es => AnnExpr.hasStarL es
  | .bor a b => a.hasStar || b.hasStar
  | .str e => e.hasStar
  | _ => false
def AnnExpr.hasStarL : List AnnExpr → Bool
  | [] => false
  | e :: es => e.hasStar || AnnExpr.hasStarL es
end

/-- **D13.starUnpack**: the expression contains `*tuple[...]` (PEP 646 star syntax). `_Visitor` has
no `visit_Starred` (the AST / string route reports "Unsupported syntax in annotation: Starred" and
reads the member as `Any[error]`; before 9c1e869 it raised), the runtime route ignores
`__unpacked__` (nested tuple), the in-source route falls back to `tuple[Any]`. -/
def D13_starUnpack (e : AnnExpr) : Bool := e.hasStar

mutual
/-- structural equality of objects (decides `=`, see `Proofs/C13.lean : Obj.eqb_eq`) -/
def Obj.eqb : Obj → Obj → Bool
  | .int a, .int b => a == b
  | .bool a, .bool b => a == b
  | .str a, .str b => a == b
  | .bytes a, .bytes b => a == b
  | .none, .none => true
  | .flt a, .flt b => a == b
  | .cplx a, .cplx b => a == b
  | .inst c i, .inst d j => c == d && i == j
  | .cls c, .cls d => c == d
  | .tuple xs, .tuple ys => Obj.eqbL xs ys
  | .list xs, .list ys => Obj.eqbL xs ys
  | .set xs, .set ys => Obj.eqbL xs ys
  | .fset xs, .fset ys => Obj.eqbL xs ys
  | .dict ks vs, .dict ks' vs' => Obj.eqbL ks ks' && Obj.eqbL vs vs'
  | _, _ => false
def Obj.eqbL : List Obj → List Obj → Bool
  | [], [] => true
  | x :: xs, y :: ys => Obj.eqb x y && Obj.eqbL xs ys
  | _, _ => false
end

mutual
/-- structural equality of value terms (decides `=`, see `Proofs/C13.lean : Ty.eqb_eq`) -/
def Ty.eqb : Ty → Ty → Bool
  | .any, .any => true
  | .known a, .known b => Obj.eqb a b
  | .typed c, .typed d => c == d
  | .newtype n c, .newtype m d => n == m && c == d
  | .generic c as, .generic d bs => c == d && Ty.eqbL as bs
  | .seq c as, .seq d bs => c == d && Ty.eqbL as bs
  | .many a, .many b => Ty.eqb a b
  | .union as, .union bs => Ty.eqbL as bs
  | .subclass c, .subclass d => c == d
  | .annotated a, .annotated b => Ty.eqb a b
  | .tvar i, .tvar j => i == j
  | _, _ => false
def Ty.eqbL : List Ty → List Ty → Bool
  | [], [] => true
  | a :: as, b :: bs => Ty.eqb a b && Ty.eqbL as bs
  | _, _ => false
end

def Res.same (a b : Res) : Bool := Ty.eqb a.ty b.ty && a.errs == b.errs && a.unp == b.unp
def optResSame : Option Res → Option Res → Bool
  | none, none => true
  | some a, some b => Res.same a b
  | _, _ => false

/-- the runtime route on `Union[args]` as written, without anything `typing` does to a union -/
def rtUnionOf (look : Lookup) (args : List AnnExpr) : Option Res :=
  (rtEvalL look args).map fun (ts, n) => ⟨unite ts, n, false⟩

/-- at one union node with (normalised) arguments `args`: does what `typing` does to the union
(flattening nested unions, dropping `==` arguments, collapsing a single argument) change what the
runtime route computes? Flattening and collapsing never do (`unite_values` flattens and collapses
itself); dropping an argument does when pyanalyze's values for the two `==` arguments differ. -/
def normMatters (look : Lookup) (args : List AnnExpr) : Bool :=
  !(optResSame (rtEval look false (mkTUnion args)) (rtUnionOf look args) &&
    optResSame (rtEval look true (mkTUnion args)) (rtUnionOf look args))

/-- at a `Literal[...]` node: does `typing`'s de-duplication of the arguments change the result?
(It never does: `unite_values` drops the same duplicates.) -/
def litMatters (look : Lookup) (os : List LitObj) : Bool :=
  !optResSame (rtEval look false (.lit (dedupObjs os))) (astEval look false (.lit os))

mutual
/-- **R13.typingDedup** (representation only). Defined node by node and semantically: at some
`Union[...]` / `|` / `Optional[...]` / `Literal[...]` of the expression, evaluating the object
`typing` builds (flattened, `==` arguments dropped, a single argument collapsed) with the runtime
route gives something else than evaluating the union / literal as written (`normMatters`,
`litMatters`). In practice this happens exactly when `typing` drops a union argument that is `==` to
an earlier one although pyanalyze's values for the two differ — unions nested in generics in
different orders (`Union[List[int | str], List[str | int]]`: `typing` keeps one argument,
`unite_values`, which compares hashes, keeps both); flattening, collapsing and `Literal`
de-duplication are repeated by `unite_values` itself (`plainUnions` is a syntactic sufficient
condition for the class to be empty, `Proofs/C13.lean : plain_R13`). -/
def R13_typingDedup (look : Lookup) : AnnExpr → Bool
  | .gen _ _ args => R13_typingDedupL look args
  | .tup _ ms => R13_typingDedupL look ms
  | .tupV _ e => R13_typingDedup look e
  | .unpack e => R13_typingDedup look e
  | .star e => R13_typingDedup look e
  | .typ _ e => R13_typingDedup look e
  | .ann e _ => R13_typingDedup look e
  | .final e => R13_typingDedup look e
  | .classVar e => R13_typingDedup look e
  | .opt e => R13_typingDedup look e || normMatters look [tnorm e, .none]
  | .union es => R13_typingDedupL look es || normMatters look (tnormL es)
  | .bor a b => R13_typingDedup look a || R13_typingDedup look b || normMatters look [tnorm a, tnorm b]
  | .lit os => litMatters look os
  | _ => false
def R13_typingDedupL (look : Lookup) : List AnnExpr → Bool
  | [] => false
  | e :: es => R13_typingDedup look e || R13_typingDedupL look es
end

mutual
/-- a purely syntactic sufficient condition for `R13_typingDedup look e = false`: `typing` has nothing to
do to any union or `Literal` of `e` — every `Literal[...]` has pairwise distinct arguments and every
`Union[...]` / `|` / `Optional[...]` has (after normalising its arguments) at least two arguments,
none of them a union, no two of them `==`. -/
def plainUnions : AnnExpr → Bool
  | .gen _ _ args => plainUnionsL args
  | .tup _ ms => plainUnionsL ms
  | .tupV _ e => plainUnions e
  | .unpack e => plainUnions e
  | .star e => plainUnions e
  | .typ _ e => plainUnions e
  | .ann e _ => plainUnions e
  | .final e => plainUnions e
  | .classVar e => plainUnions e
  | .opt e => plainUnions e && AnnExpr.beq (mkTUnion [tnorm e, .none]) (.union [tnorm e, .none])
  | .union es => plainUnionsL es && AnnExpr.beq (mkTUnion (tnormL es)) (.union (tnormL es))
  | .bor a b => plainUnions a && plainUnions b && AnnExpr.beq (mkTUnion [tnorm a, tnorm b]) (.union [tnorm a, tnorm b])
  | .lit os => decide os.Nodup
  | _ => true
def plainUnionsL : List AnnExpr → Bool
  | [] => true
  | e :: es => plainUnions e && plainUnionsL es
end

/-! ## `inspect.signature` of a def header -/

/-- **CPython** evaluating a name of the annotation expression when the `def` statement is executed:
the module globals bound so far, then the builtins (else `NameError`: the module cannot be
imported; such headers are outside `DefArgs.Supported`). -/
def pyLookup (env : NameEnv) : Lookup := withAttrs env.attrs fun n =>
  match env.early.get n with
  | some t => some t
  | none => env.builtins.get n

mutual
/-- the names of the expression outside string constants (the ones evaluating the expression looks up) -/
def AnnExpr.outerNames : AnnExpr → List Nat
  | .name n => [n]
  | .dotted n _ => [n]
  | .gen _ _ args => AnnExpr.outerNamesL args
  | .tup _ ms => AnnExpr.outerNamesL ms
  | .tupV _ e => e.outerNames
  | .unpack e => e.outerNames
  | .star e => e.outerNames
  | .typ _ e => e.outerNames
  | .ann e _ => e.outerNames
  | .final e => e.outerNames
  | .classVar e => e.outerNames
  | .opt e => e.outerNames
  | .union es => AnnExpr.outerNamesL es
  | .bor a b => a.outerNames ++ b.outerNames
  | _ => []
def AnnExpr.outerNamesL : List AnnExpr → List Nat
  | [] => []
  | e :: es => e.outerNames ++ AnnExpr.outerNamesL es
end

/-- every name the expression looks up when it is evaluated is bound to the same object when the
`def` statement runs (what CPython puts into `__annotations__`) and when the module has been
executed (what the visitor's module scope holds): it is not (re)bound after the `def`. -/
def stableNames (env : NameEnv) (e : AnnExpr) : Bool :=
  e.outerNames.all fun n => decide (pyLookup env n = visLookup env n)

/-- the annotation object `inspect` reports: the evaluated expression (names replaced by the objects
they were bound to at that moment, then whatever `typing` does), or — under
`from __future__ import annotations` — the source text -/
def annObject (env : NameEnv) (future : Bool) (a : AnnExpr) : AnnExpr :=
  if future then .str a else tnorm (resolveV (pyLookup env) a)

/-- default of the `i`-th positional parameter (CPython: `defaults[i - (pos_count - len(defaults))]`) -/
def posDefault (nPos : Nat) (defaults : List Dflt) (i : Nat) : Option Dflt :=
  if i < nPos - defaults.length then none else defaults[i - (nPos - defaults.length)]?

def inspPositional (env : NameEnv) (future : Bool) (nPos nPosOnly : Nat) (defaults : List Dflt) :
    Nat → List PArg → List IParam
  | _, [] => []
  | i, a :: as =>
    ⟨a.name, if i < nPosOnly then .posOnly else .posOrKw, posDefault nPos defaults i,
      a.ann.map (annObject env future)⟩ :: inspPositional env future nPos nPosOnly defaults (i + 1) as

def inspKwonly (env : NameEnv) (future : Bool) : List PArg → List (Option Dflt) → List IParam
  | [], _ => []
  | a :: as, ds => ⟨a.name, .kwOnly, (ds.headD none), a.ann.map (annObject env future)⟩ :: inspKwonly env future as ds.tail

/-- `inspect.signature(f)` for `def f(<d>)` (CPython `inspect._signature_from_function`). -/
def inspectOf (env : NameEnv) (d : DefArgs) : ISig :=
  let pos := d.posonly ++ d.args
  { params :=
      inspPositional env d.future pos.length d.posonly.length d.defaults 0 pos ++
      (match d.vararg with
        | some a => [⟨a.name, .varPos, none, a.ann.map (annObject env d.future)⟩]
        | none => []) ++
      inspKwonly env d.future d.kwonly d.kwDefaults ++
      (match d.kwarg with
        | some a => [⟨a.name, .varKw, none, a.ann.map (annObject env d.future)⟩]
        | none => []),
    returns := d.returns.map (annObject env d.future),
    methodOf := d.methodOf,
    -- CPython sets CO_COROUTINE exactly for an `async def` without `yield`
    isAsync := d.kind == .coro }

/-! ## header-level classes -/

def DefArgs.allArgs (d : DefArgs) : List PArg :=
  d.posonly ++ d.args ++ d.vararg.toList ++ d.kwonly ++ d.kwarg.toList

/-- a header CPython compiles: no more positional defaults than positional parameters, one
keyword-only default slot per keyword-only parameter -/
def DefArgs.WF (d : DefArgs) : Bool :=
  d.defaults.length ≤ d.posonly.length + d.args.length && d.kwDefaults.length == d.kwonly.length

/-- **R13.unannotated** (representation only): an unannotated parameter that has a default, or is
`*args` / `**kwargs`: the def route records `Any | <default>` / `tuple[Any, ...]` /
`dict[str, Any]`, the inspect route plain `Any` (arg_spec.py:574 returns before
`translate_vararg_type`). -/
def R13_unannotated (d : DefArgs) : Bool :=
  (inspectOf default d).params.any fun p => p.ann.isNone && (p.dflt.isSome || p.kind == .varPos || p.kind == .varKw)

/-- what the property compares of a default: presence, and the literal if it is one -/
def DVal.erase : DVal → Option Obj
  | .known o => some o
  | _ => none

/-- what the property compares of a parameter: name, kind, default (presence / literal),
annotation value, errors shown -/
def SigParam.core (p : SigParam) : String × Kind × Option (Option Obj) × Ty × Nat :=
  (p.name, p.kind, p.dflt.map DVal.erase, p.ann, p.errs)

def SigOut.core (s : SigOut) : List (String × Kind × Option (Option Obj) × Ty × Nat) × Ty × Bool × Nat :=
  (s.params.map SigParam.core, s.ret, s.hasRet, s.retErrs)

def PArg.annAll (p : AnnExpr → Bool) (a : PArg) : Bool :=
  match a.ann with
  | some e => p e
  | none => true

def DefArgs.annAll (d : DefArgs) (p : AnnExpr → Bool) : Bool :=
  d.allArgs.all (PArg.annAll p) && (match d.returns with | some e => p e | none => true)

/-- **D13.reboundName**: without `from __future__ import annotations`, an annotation looks up
(outside strings) a name that the module binds differently — or only — after the `def` statement:
the function object carries the object the name was bound to when the `def` ran, the visitor
evaluates the expression in the module's final scope (`K = A; def f(x: K): ...; K = B`). -/
def D13_reboundName (env : NameEnv) (d : DefArgs) : Bool :=
  !d.future && !d.annAll (stableNames env)

def isUnpackTop : AnnExpr → Bool
  | .unpack _ => true
  | .str e => isUnpackTop e
  | .ann e _ => isUnpackTop e
  | _ => false

/-- supported headers: CPython-well-formed, supported annotations, no `Unpack[...]` as the
annotation of `*args` / `**kwargs` -/
def DefArgs.Supported (d : DefArgs) : Bool :=
  d.WF && d.annAll (fun e => C13.Supported e && !isUnpackTop e)

/-! ## the per-Checker caches the model accounts for -/

/-- The containers of the signature route that can outlive one function, as accounted for by the
model (`Core/AnnotRoutes.lean : CheckerSt`): `known_argspecs` is keyed by the function object,
`generic_bases_cache` by the class (class-level facts, shared table), `_GET_OVERLOADS` is a constant
list of overload getters, `_being_evaluated` is the recursion guard of one evaluation. Compared with
the regenerated `Generated/ArgSpecCaches.lean` by `Props/C13.lean : argspec_caches_registered`: a
new cache, or a cache stored under another key expression, breaks that obligation. -/
def registeredCaches : List (String × String × String × String) := [
  ("pyanalyze/arg_spec.py", "<module>._GET_OVERLOADS", "list", ""),
  ("pyanalyze/arg_spec.py", "ArgSpecCache.generic_bases_cache", "dict", "typ"),
  ("pyanalyze/arg_spec.py", "ArgSpecCache.known_argspecs", "dict", "obj"),
  ("pyanalyze/annotations.py", "Context._being_evaluated", "set", "")]

/-- Where the two signature routes assign the return type, as the model follows it
(`Core/Annot.lean : fromDefWith`, `fromInspect`): in `from_signature` the coroutine wrapper is applied
under `is_async` alone — for an annotated and for an unannotated function alike —, in
`compute_value_of_function` under "async def without yield". Compared with the regenerated
`Generated/ArgSpecCaches.lean : returnBranches` by `Props/C13.lean : return_branches_registered`. -/
def registeredReturnBranches : List (String × String × String) := [
  ("from_signature", "(not (returns is not None)) and (is_wrapped or sig.return_annotation is inspect.Signature.empty)", "AnyValue"),
  ("from_signature", "(not (returns is not None)) and (not (is_wrapped or sig.return_annotation is inspect.Signature.empty))", "type_from_runtime"),
  ("from_signature", "(not (returns is not None)) and (is_async)", "make_coro_type"),
  ("compute_value_of_function", "(result is None)", "Attribute"),
  ("compute_value_of_function", "(result is None)", "AnyValue"),
  ("compute_value_of_function", "(isinstance(info.node, ast.AsyncFunctionDef)) and (not visitor.is_generator)", "make_coro_type")]

/-- The attribute-resolution primitives on the annotation routes, as the model accounts for them: a dotted
name inside a string annotation is resolved by `Context.get_attribute` with plain `getattr` (the model's
`withAttrs` / `chain`); names fall back to `builtins` with `hasattr` / `getattr`; an unquoted annotation goes
through the visitor's `get_attribute`. Compared with the regenerated `attrPrimitives` by
`Props/C13.lean : annotation_attr_primitives_registered`: a switched primitive (e.g. `getattr_static`)
breaks that obligation. -/
def registeredAttrPrimitives : List (String × String × String × String) := [
  ("pyanalyze/annotations.py", "Context.get_attribute", "getattr", "1"),
  ("pyanalyze/annotations.py", "Context.get_name_from_globals", "getattr", "1"),
  ("pyanalyze/annotations.py", "Context.get_name_from_globals", "hasattr", "1"),
  ("pyanalyze/annotations.py", "_DefaultContext.get_name", "getattr", "1"),
  ("pyanalyze/annotations.py", "_DefaultContext.get_name", "hasattr", "1"),
  ("pyanalyze/annotations.py", "_Visitor.visit_Attribute", "get_attribute", "1"),
  ("pyanalyze/annotations.py", "_make_type_var_value", "getattr", "2"),
  ("pyanalyze/annotations.py", "_make_type_var_value", "hasattr", "1"),
  ("pyanalyze/annotations.py", "_type_from_runtime", "getattr", "3"),
  ("pyanalyze/annotations.py", "_type_from_runtime", "hasattr", "6"),
  ("pyanalyze/name_check_visitor.py", "NameCheckVisitor.composite_from_attribute", "get_attribute", "1"),
  ("pyanalyze/name_check_visitor.py", "NameCheckVisitor.get_attribute", "_get_attribute_fallback", "2"),
  ("pyanalyze/name_check_visitor.py", "NameCheckVisitor.get_attribute", "get_attribute", "2")]

/-- **The flag-threading the model relies on**: every call of the annotation evaluators inside
`annotations.py` / `arg_spec.py` with the `allow_unpack` / `is_typeddict` keywords it passes, whether the
enclosing function has an `allow_unpack` parameter of its own, and the number of such calls. The model
threads `au` through `.str` (`rtEval look au (.str e) = astEval look au e`, i.e. `_type_from_runtime`'s
`str` branch passes `allow_unpack=allow_unpack` to `_eval_forward_ref`) and resets it to `False` below
every other constructor except `Annotated` and tuple members. Compared with the regenerated `flagCalls`
by `Props/C13.lean : unpack_flag_threaded`: a call that drops (or adds) the keyword breaks the obligation. -/
def registeredFlagCalls : List (String × String × String × String × String × String) := [
  ("pyanalyze/annotations.py", "_Visitor.visit_Call", "_type_from_value", "", "-", "3"),
  ("pyanalyze/annotations.py", "_args_from_concatenate", "_type_from_runtime", "", "-", "1"),
  ("pyanalyze/annotations.py", "_callable_args_from_runtime", "_type_from_runtime", "", "-", "1"),
  ("pyanalyze/annotations.py", "_eval_forward_ref", "_type_from_ast", "allow_unpack=allow_unpack,is_typeddict=is_typeddict", "flag", "1"),
  ("pyanalyze/annotations.py", "_get_typeddict_value", "_type_from_runtime", "is_typeddict=True", "-", "1"),
  ("pyanalyze/annotations.py", "_make_annotated", "_type_from_runtime", "", "-", "4"),
  ("pyanalyze/annotations.py", "_make_callable_from_value", "_type_from_value", "", "-", "3"),
  ("pyanalyze/annotations.py", "_make_type_var_value", "_type_from_runtime", "", "-", "3"),
  ("pyanalyze/annotations.py", "_type_from_ast", "_type_from_value", "allow_unpack=allow_unpack,is_typeddict=is_typeddict", "flag", "1"),
  ("pyanalyze/annotations.py", "_type_from_runtime", "_eval_forward_ref", "allow_unpack=allow_unpack,is_typeddict=is_typeddict", "flag", "1"),
  ("pyanalyze/annotations.py", "_type_from_runtime", "_eval_forward_ref", "is_typeddict=is_typeddict", "flag", "1"),
  ("pyanalyze/annotations.py", "_type_from_runtime", "_type_from_runtime", "", "flag", "3"),
  ("pyanalyze/annotations.py", "_type_from_runtime", "_type_from_runtime", "is_typeddict=True", "flag", "3"),
  ("pyanalyze/annotations.py", "_type_from_runtime", "type_from_runtime", "", "flag", "2"),
  ("pyanalyze/annotations.py", "_type_from_subscripted_value", "_type_from_value", "", "flag", "16"),
  ("pyanalyze/annotations.py", "_type_from_subscripted_value", "_type_from_value", "allow_unpack=True", "flag", "1"),
  ("pyanalyze/annotations.py", "_type_from_subscripted_value", "_type_from_value", "is_typeddict=True", "flag", "3"),
  ("pyanalyze/annotations.py", "_type_from_value", "_type_from_runtime", "allow_unpack=allow_unpack,is_typeddict=is_typeddict", "flag", "1"),
  ("pyanalyze/annotations.py", "_type_from_value", "_type_from_value", "", "flag", "1"),
  ("pyanalyze/annotations.py", "_type_from_value", "_type_from_value", "allow_unpack=allow_unpack,is_typeddict=is_typeddict", "flag", "1"),
  ("pyanalyze/annotations.py", "_value_of_origin_args", "_type_from_runtime", "", "flag", "11"),
  ("pyanalyze/annotations.py", "_value_of_origin_args", "_type_from_runtime", "allow_unpack=True", "flag", "1"),
  ("pyanalyze/annotations.py", "_value_of_origin_args", "_type_from_runtime", "allow_unpack=allow_unpack,is_typeddict=is_typeddict", "flag", "1"),
  ("pyanalyze/annotations.py", "_value_of_origin_args", "_type_from_runtime", "is_typeddict=True", "flag", "3"),
  ("pyanalyze/annotations.py", "_value_of_origin_args", "type_from_runtime", "", "flag", "1"),
  ("pyanalyze/annotations.py", "type_from_annotations", "type_from_runtime", "", "-", "1"),
  ("pyanalyze/annotations.py", "type_from_ast", "_type_from_ast", "", "-", "1"),
  ("pyanalyze/annotations.py", "type_from_runtime", "_type_from_runtime", "allow_unpack=allow_unpack", "flag", "1"),
  ("pyanalyze/annotations.py", "type_from_value", "_type_from_value", "allow_unpack=allow_unpack,is_typeddict=is_typeddict", "flag", "1"),
  ("pyanalyze/arg_spec.py", "ArgSpecCache._get_generic_bases_cached", "type_from_runtime", "", "-", "1"),
  ("pyanalyze/arg_spec.py", "ArgSpecCache._get_type_for_parameter", "type_from_runtime", "allow_unpack=kind.allow_unpack()", "-", "1"),
  ("pyanalyze/arg_spec.py", "ArgSpecCache._uncached_get_argspec", "type_from_runtime", "", "-", "2"),
  ("pyanalyze/arg_spec.py", "ArgSpecCache.from_signature", "type_from_runtime", "", "-", "1")]

end Pya.C13
