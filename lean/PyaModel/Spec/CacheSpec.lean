import PyaModel.Core.Cache
/-!
# Spec/CacheSpec — what C10 compares the model with, and the exception classes `D10_*`

* Order sites: the property wants the output of a site to be a function of the *set* alone:
  `OrderFree site := ∀ o₁ o₂, o₁ ~ o₂ → site o₁ = site o₂` (`List.Perm`: the two iteration orders
  of one set). The executable side of this is `isPermOf` (is the observed order an order of the
  expected set?) and `canonical` outputs (site applied to the insertion order).
* History: the answer of a query — verdict *and bounds map* — must equal the answer of a fresh
  checker (`answerFresh`), and the structural meaning of protocol compatibility: `semB` / `sem`
  (direct recursion, no cache, no guard — for
  worlds whose nested checks are well-founded) and `gfpCompat` (greatest fixed point of the
  structural operator over the listed pairs — for recursive protocols).
* Exception classes (decidable, executable; printed by `Driver/C10.lean`).
-/
namespace Pya.C10

/-! ## Order -/

/-- The property for one site: the output does not depend on the iteration order of the set. -/
def OrderFree {α β : Type} (site : List α → β) : Prop :=
  ∀ o₁ o₂ : List α, o₁.Perm o₂ → site o₁ = site o₂

/-- The weaker reading where the output itself is a set. -/
def OrderFreeAsSet {α β : Type} (site : List α → List β) : Prop :=
  ∀ o₁ o₂ : List α, o₁.Perm o₂ → ∀ y, y ∈ site o₁ ↔ y ∈ site o₂

/-- `a` is a reordering of `b` (multiset equality), executable. -/
def isPermOf {α : Type} [BEq α] (a b : List α) : Bool :=
  a.length == b.length && a.all (fun x => a.count x == b.count x)

/-- Exception class of the sites that let the order through (`siteTryDefNodes`, `siteDefNodes`,
`siteOrBound`, `siteDisallowedKinds`): the set has two or more elements. -/
def D10_twoOrMore {α : Type} (elems : List α) : Bool := decide (2 ≤ elems.length)

/-- Exception class of `siteFirstSuccess`: two or more bases succeed. -/
def D10_twoSucceed {α β : Type} (attempt : α → Option β) (bases : List α) : Bool :=
  decide (2 ≤ (bases.filter fun b => (attempt b).isSome).length)

/-! ### The registry of modelled sites

One row per set-iteration site of the anchored files: (file, function, fingerprint of the scan,
the site function of `Core/Cache.lean` that models it, exception class or `-`). The five sites
repaired in /repo no longer iterate a set in an order-revealing way: `bind_arguments`,
`accept_mapping_args_no_mvv` and `OrConstraint.apply` have no row any more, the two protocol sites
are `sorted(...)` rows. The obligation
`sites_registered` (Proofs/C10.lean) says every site the scan finds in the live tree is listed. -/

inductive SiteKind
  | join | firstSuccess | defNodes | tryDefNodes | orBound | printSeq | payloadIter -- order can show
  | anyAll | setBuild | lookupMap | singleton | sortedJoin | sortedFirstFail | emit | closure
  deriving DecidableEq, Repr

def modelledSites : List (String × String × String × SiteKind × String) := [
  ("pyanalyze/checker.py", "Checker._build_type_object", "anyall:bases", .anyAll, "-"),
  ("pyanalyze/checker.py", "Checker._build_type_object", "passed-to-_get_protocol_members:bases", .setBuild, "-"),
  ("pyanalyze/checker.py", "Checker._build_type_object", "passed-to-_get_protocol_members:typeshed_bases", .setBuild, "-"),
  ("pyanalyze/checker.py", "Checker._build_type_object", "setbuild:bases", .setBuild, "-"),
  ("pyanalyze/checker.py", "Checker._get_recursive_typeshed_bases", "pop:to_do", .closure, "-"),
  ("pyanalyze/format_strings.py", "_parse_replacement_field", "sorted:allowed_specials", .sortedJoin, "-"),
  ("pyanalyze/format_strings.py", "_parse_replacement_field", "sorted:allowed_specials#1", .sortedJoin, "-"),
  -- prints `Unused method: …` lines to stdout in set order (only with --find-unused-attributes; not a diagnostic)
  ("pyanalyze/name_check_visitor.py", "ClassAttributeChecker.check_unused_attributes", "for:existing_attrs - attrs_read - ignored", .printSeq, "unusedAttributeListing"),
  ("pyanalyze/name_check_visitor.py", "ClassAttributeChecker.check_unused_attributes", "passed-to-_add_attrs:attr_names_read", .setBuild, "-"),
  ("pyanalyze/name_check_visitor.py", "NameCheckVisitor._check_function_unused_vars", "anyall:scope.name_to_all_definition_nodes[unused.id]", .anyAll, "-"),
  ("pyanalyze/name_check_visitor.py", "NameCheckVisitor._check_function_unused_vars", "for:all_unused_nodes", .emit, "-"),
  ("pyanalyze/name_check_visitor.py", "NameCheckVisitor._check_function_unused_vars", "passed-to-_all_names_unused:all_unused_nodes", .anyAll, "-"),
  ("pyanalyze/name_check_visitor.py", "NameCheckVisitor._check_function_unused_vars", "passed-to-_all_names_unused:all_unused_nodes#1", .anyAll, "-"),
  ("pyanalyze/name_check_visitor.py", "NameCheckVisitor._constraint_from_compare_op", "next-iter:predicate_types", .singleton, "-"),
  -- `x in <container literal>`: the payload of the container's KnownValue; a set payload is sorted first
  -- (c06bd97), any other payload is a sequence; only the types of the members are looked at here
  ("pyanalyze/name_check_visitor.py", "NameCheckVisitor._constraint_from_compare_op", "payload-iter:other_val", .setBuild, "-"),
  ("pyanalyze/name_check_visitor.py", "NameCheckVisitor._maybe_show_missing_f_error", "anyall:names", .anyAll, "-"),
  ("pyanalyze/name_check_visitor.py", "NameCheckVisitor.constraint_from_condition", "passed-to-_check_boolability:disabled", .anyAll, "-"),
  -- … and here the members become the narrowed union: a sorted list when the payload was a set (`siteInSet`)
  ("pyanalyze/predicates.py", "InPredicate.__call__", "payload-iter:self.pattern_vals", .sortedJoin, "-"),
  ("pyanalyze/signature.py", "Signature.check_call_with_bound_args", "passed-to-resolve_bounds_map:self.all_typevars", .lookupMap, "-"),
  ("pyanalyze/signature.py", "Signature.get_default_return", "dictbuild:self.all_typevars", .lookupMap, "-"),
  -- text of an InvalidSignature exception; no source program reaches it
  ("pyanalyze/signature.py", "Signature.validate", "join:disallowed_previous", .join, "joinDisallowedKinds"),
  ("pyanalyze/signature.py", "preprocess_args", "passed-to-ActualArguments:pok_indices", .anyAll, "-"),
  ("pyanalyze/stacked_scopes.py", "FunctionScope._resolve_origin", "pop:pending", .closure, "-"),
  ("pyanalyze/stacked_scopes.py", "FunctionScope._resolve_value", "passed-to-_get_value_from_nodes:val.definition_nodes", .defNodes, "defNodeSetOrder"),
  ("pyanalyze/stacked_scopes.py", "FunctionScope.get_combined_scope", "dictbuild:all_variables", .lookupMap, "-"),
  ("pyanalyze/stacked_scopes.py", "FunctionScope.get_local", "passed-to-_get_value_from_nodes:definers", .defNodes, "defNodeSetOrder"),
  ("pyanalyze/stacked_scopes.py", "FunctionScope.get_local", "passed-to-_resolve_origin:definers", .closure, "-"),
  ("pyanalyze/stacked_scopes.py", "FunctionScope.get_origin", "passed-to-_resolve_origin:definers", .closure, "-"),
  ("pyanalyze/stacked_scopes.py", "FunctionScope.set", "for:self.name_to_composites[varname]", .lookupMap, "-"),
  ("pyanalyze/stacked_scopes.py", "FunctionScope.suppressing_subscope", "dictbuild:all_keys", .lookupMap, "-"),
  ("pyanalyze/stacked_scopes.py", "FunctionScope.suppressing_subscope", "list:nodes - old_defn_nodes.get(key, set())", .tryDefNodes, "tryDefNodeOrder"),
  ("pyanalyze/type_object.py", "TypeObject.__str__", "sorted:self.protocol_members", .sortedJoin, "-"),
  ("pyanalyze/type_object.py", "TypeObject._is_compatible_with_protocol", "sorted:self.protocol_members", .sortedFirstFail, "-"),
  ("pyanalyze/type_object.py", "TypeObject.can_assign", "for:other.artificial_bases", .firstSuccess, "artificialBaseChoice"),
  ("pyanalyze/type_object.py", "TypeObject.can_assign", "for:other.base_classes", .anyAll, "-"),
  ("pyanalyze/type_object.py", "TypeObject.has_attribute", "for:self.base_classes", .anyAll, "-"),
  ("pyanalyze/type_object.py", "TypeObject.is_assignable_to_type", "for:self.base_classes", .anyAll, "-"),
  ("pyanalyze/value.py", "CanAssignError.get_error_code", "next-iter:errors", .singleton, "-"),
  ("pyanalyze/value.py", "intersect_bounds_maps", "next-iter:bound_lists", .singleton, "-"),
  ("pyanalyze/value.py", "intersect_bounds_maps", "tuple:bound_lists", .orBound, "orBoundOrder")
]

/-- Every scanned site has a row. -/
def sitesRegistered (scanned : List (String × String × String)) : Bool :=
  scanned.all fun s => modelledSites.any fun m => m.1 == s.1 && m.2.1 == s.2.1 && m.2.2.1 == s.2.2

/-! ### The registry of per-Checker containers ("mutable cached value" sites)

One row per container attribute (dict / list / set) of the classes whose instances live as long as
a `Checker` (scan of checker.py, arg_spec.py, type_object.py, typeshed.py, reexport.py,
suggested_type.py; `Generated/CacheSites.lean`). The kind says what the property allows:

* `memo`: a memo table — entries are never changed after insertion (model: `memoStep`); the harness
  snapshots every entry after each program of a history and compares;
* `protoCache`: `_protocol_positive_cache` (model: `check`; theorem `cache_entries_immutable`);
  snapshotted likewise;
* `cachedField`: a container inside a cached value (part of the snapshot of that value);
* `transient`: must be empty between top-level checks;
* `config`: filled once from the options when the object is built;
* `accumulator`: grows across modules by design and is reported by `perform_final_checks`
  (not read while checking a module). -/

inductive CacheKind | memo | protoCache | cachedField | transient | config | accumulator
  deriving DecidableEq, Repr

def CacheKind.name : CacheKind → String
  | .memo => "memo" | .protoCache => "protoCache" | .cachedField => "cachedField"
  | .transient => "transient" | .config => "config" | .accumulator => "accumulator"

def modelledCaches : List (String × String × String × CacheKind) := [
  ("pyanalyze/checker.py", "Checker", "type_object_cache", .memo),
  ("pyanalyze/checker.py", "Checker", "assumed_compatibilities", .transient),
  ("pyanalyze/checker.py", "Checker", "vnv_map", .config),
  ("pyanalyze/checker.py", "Checker", "type_alias_cache", .memo),
  -- class-level defaults of option classes
  ("pyanalyze/arg_spec.py", "ClassesSafeToInstantiate", "default_value", .config),
  ("pyanalyze/arg_spec.py", "FunctionsSafeToCall", "default_value", .config),
  ("pyanalyze/arg_spec.py", "IgnoredCallees", "default_value", .config),
  ("pyanalyze/arg_spec.py", "KnownSignatures", "default_value", .config),
  ("pyanalyze/arg_spec.py", "ArgSpecCache", "known_argspecs", .memo),
  ("pyanalyze/arg_spec.py", "ArgSpecCache", "generic_bases_cache", .memo),
  ("pyanalyze/type_object.py", "TypeObject", "base_classes", .cachedField),
  ("pyanalyze/type_object.py", "TypeObject", "protocol_members", .cachedField),
  ("pyanalyze/type_object.py", "TypeObject", "artificial_bases", .cachedField),
  ("pyanalyze/type_object.py", "TypeObject", "_protocol_positive_cache", .protoCache),
  ("pyanalyze/typeshed.py", "TypeshedFinder", "_assignment_cache", .memo),
  ("pyanalyze/typeshed.py", "TypeshedFinder", "_attribute_cache", .memo),
  ("pyanalyze/typeshed.py", "TypeshedFinder", "_active_infos", .transient),
  -- a class-level list shared by all instances; only ever appended to by a context that discards errors
  ("pyanalyze/typeshed.py", "_DummyErrorContext", "all_failures", .accumulator),
  ("pyanalyze/reexport.py", "ImplicitReexportTracker", "completed_modules", .accumulator),
  ("pyanalyze/reexport.py", "ImplicitReexportTracker", "module_to_reexports", .accumulator),
  ("pyanalyze/reexport.py", "ImplicitReexportTracker", "used_reexports", .accumulator),
  ("pyanalyze/suggested_type.py", "CallableData", "calls", .accumulator),
  ("pyanalyze/suggested_type.py", "CallableTracker", "callable_to_data", .accumulator),
  ("pyanalyze/suggested_type.py", "CallableTracker", "callable_to_calls", .accumulator)
]

/-- Every scanned container attribute has a row. -/
def cachesRegistered (scanned : List (String × String × String)) : Bool :=
  scanned.all fun s => modelledCaches.any fun m => m.1 == s.1 && m.2.1 == s.2.1 && m.2.2.1 == s.2.2

/-! ### The registry of process-level state

One row per module-level name bound to a mutable container or to an instance of a class with
container fields, per class-level mutable attribute and per `lru_cache` / `cache` /
`cached_per_instance` function of pyanalyze (scan of every non-test module;
`Generated/CacheSites.lean`, `scannedProcState`). Kinds:

* `constTable` / `config`: written at import time only — the harness requires the whole container
  to render the same after every program;
* `memo`: a process-level memo table — entries immutable after insertion, keys must be values or
  objects the entry keeps alive (the harness checks that an address-like key component still
  belongs to a live object);
* `memoFunction`: a memoising decorator (keyed by argument values);
* `registry`: filled by decorators / class definitions while a module is imported, keyed by
  qualified names;
* `accumulator`: collects output. -/

inductive ProcKind | constTable | config | memo | memoFunction | registry | accumulator
  deriving DecidableEq, Repr

def modelledProcState : List (String × String × ProcKind) := [
  ("pyanalyze/annotations.py", "_CONTEXT_MANAGER_TYPES", .constTable),
  ("pyanalyze/arg_spec.py", "_GET_OVERLOADS", .constTable),
  ("pyanalyze/arg_spec.py", "TYPING_OBJECTS_SAFE_TO_CALL", .constTable),
  ("pyanalyze/arg_spec.py", "_BUILTIN_KNOWN_SIGNATURES", .constTable),
  ("pyanalyze/arg_spec.py", "IgnoredCallees.default_value", .config),
  ("pyanalyze/arg_spec.py", "ClassesSafeToInstantiate.default_value", .config),
  ("pyanalyze/arg_spec.py", "FunctionsSafeToCall.default_value", .config),
  ("pyanalyze/arg_spec.py", "KnownSignatures.default_value", .config),
  ("pyanalyze/asynq_checker.py", "NonAsynqModules.default_value", .config),
  ("pyanalyze/attributes.py", "TreatClassAttributeAsAny.default_value", .config),
  ("pyanalyze/attributes.py", "ClassAttributeTransformer.default_value", .config),
  ("pyanalyze/attributes.py", "KnownAttributeHook.default_value", .config),
  ("pyanalyze/boolability.py", "_TRUE_BOOLABILITIES", .constTable),
  ("pyanalyze/boolability.py", "_FALSE_BOOLABILITIES", .constTable),
  ("pyanalyze/checker.py", "EXCLUDED_PROTOCOL_MEMBERS", .constTable),
  ("pyanalyze/error_code.py", "ErrorCode", .registry),
  ("pyanalyze/error_code.py", "DISABLED_IN_TESTS", .constTable),
  ("pyanalyze/error_code.py", "DISABLED_BY_DEFAULT", .constTable),
  -- filled by @overload / @evaluated while a checked module is imported; keyed by qualified name
  ("pyanalyze/extensions.py", "_overloads", .registry),
  ("pyanalyze/extensions.py", "_type_evaluations", .registry),
  ("pyanalyze/find_unused.py", "_used_objects", .registry),
  ("pyanalyze/find_unused.py", "_test_helper_objects", .registry),
  ("pyanalyze/format_strings.py", "_NUMERIC_CONVERSION_TYPES", .constTable),
  ("pyanalyze/format_strings.py", "_FORMAT_STRING_CONVERSIONS", .constTable),
  ("pyanalyze/functions.py", "_safe_decorators", .constTable),
  ("pyanalyze/functions.py", "AsynqDecorators.default_value", .config),
  ("pyanalyze/functions.py", "AsyncProxyDecorators.default_value", .config),
  ("pyanalyze/importer.py", "directory_has_init", .memoFunction),
  ("pyanalyze/name_check_visitor.py", "BINARY_OPERATION_TO_DESCRIPTION_AND_METHOD", .constTable),
  ("pyanalyze/name_check_visitor.py", "METHODS_ALLOWING_NOTIMPLEMENTED", .constTable),
  ("pyanalyze/name_check_visitor.py", "UNARY_OPERATION_TO_DESCRIPTION_AND_METHOD", .constTable),
  ("pyanalyze/name_check_visitor.py", "COMPARATOR_TO_OPERATOR", .constTable),
  ("pyanalyze/name_check_visitor.py", "_NEG_OPERATOR_TO_AST", .constTable),
  ("pyanalyze/name_check_visitor.py", "AST_TO_REVERSE", .constTable),
  ("pyanalyze/name_check_visitor.py", "_MIRRORED_COMPARATOR", .constTable),
  ("pyanalyze/name_check_visitor.py", "SAFE_DECORATORS_FOR_ARGSPEC_TO_RETVAL", .constTable),
  ("pyanalyze/name_check_visitor.py", "UnimportableModules.default_value", .config),
  ("pyanalyze/name_check_visitor.py", "ExtraBuiltins.default_value", .config),
  ("pyanalyze/name_check_visitor.py", "IgnoredEndOfReference.default_value", .config),
  ("pyanalyze/name_check_visitor.py", "IgnoredForIncompatibleOverride.default_value", .config),
  ("pyanalyze/name_check_visitor.py", "IgnoredUnusedAttributes.default_value", .config),
  ("pyanalyze/name_check_visitor.py", "IgnoredUnusedClassAttributes.default_value", .config),
  ("pyanalyze/name_check_visitor.py", "CheckForDuplicateValues.default_value", .config),
  ("pyanalyze/name_check_visitor.py", "AllowDuplicateValues.default_value", .config),
  ("pyanalyze/name_check_visitor.py", "TransformGlobals.default_value", .config),
  ("pyanalyze/name_check_visitor.py", "IgnoredTypesForAttributeChecking.default_value", .config),
  ("pyanalyze/node_visitor.py", "_lines", .memoFunction),
  ("pyanalyze/node_visitor.py", "has_file_level_ignore", .memoFunction),
  ("pyanalyze/node_visitor.py", "BaseNodeVisitor._changes_for_fixer", .accumulator),
  ("pyanalyze/options.py", "get_all_error_codes", .memoFunction),
  ("pyanalyze/options.py", "ConfigOption.registry", .registry),
  ("pyanalyze/options.py", "StringSequenceOption.default_value", .config),
  ("pyanalyze/patma.py", "_SPECIAL_CLASS_PATTERN_TYPES", .constTable),
  ("pyanalyze/predicates.py", "_OPERATOR", .constTable),
  ("pyanalyze/runtime.py", "_get_checker", .memoFunction),
  ("pyanalyze/safe.py", "_typing_name_cache", .memo),
  ("pyanalyze/signature.py", "KIND_TO_ALLOWED_PREVIOUS", .constTable),
  ("pyanalyze/signature.py", "CAN_HAVE_DEFAULT", .constTable),
  -- the singleton whose `resolution_cache` every FunctionScope of the process shares; keyed by the
  -- `_LookupContext` (variable name, AST node object, visitor state): the node is held by the key
  ("pyanalyze/stacked_scopes.py", "_empty_constrained", .memo),
  ("pyanalyze/type_evaluation.py", "_OP_TO_DATA", .constTable),
  ("pyanalyze/typeshed.py", "PROPERTY_LIKE", .constTable),
  ("pyanalyze/typeshed.py", "_TYPING_ALIASES", .constTable),
  ("pyanalyze/typeshed.py", "_get_info_for_name", .memoFunction),
  ("pyanalyze/typeshed.py", "_DummyErrorContext.all_failures", .accumulator)
]

def procStateRegistered (scanned : List (String × String × String)) : Bool :=
  scanned.all fun s => modelledProcState.any fun m => m.1 == s.1 && m.2.1 == s.2.1

/-! ### The registry of identity keys

Every expression that uses `id(…)` (an address) as, or inside, a key / hash / membership test. An
address identifies an object only while the object is alive; each row says why that holds:

* `holdsObject`: the entry (or the container the key goes into) holds the object itself;
* `transient`: the table lives only during one call in which the object is alive;
* `identityHash`: `__hash__` of an object hashed by identity (the object is the key).

A process- or Checker-level table keyed by the address of an object it does not hold is the defect
`address_key_stale_witness` (Props/C10.lean) exhibits; the hypothesis "keys are values" of
`process_history_independent_partial` is what this registry stands for. -/

inductive IdKeyKind | holdsObject | transient | identityHash
  deriving DecidableEq, Repr

def modelledIdKeys : List (String × String × String × IdKeyKind) := [
  -- the set is filled and emptied around one evaluation, during which `obj` is alive
  ("pyanalyze/annotations.py", "Context.add_evaluation", "obj_id = id(obj)", .transient),
  ("pyanalyze/annotations.py", "Context.is_being_evaluted", "id(obj) in self._being_evaluated", .transient),
  -- per-visitor table; the entry is `(return_value, sig)` and a hit is accepted only if `sig is saved_sig`
  ("pyanalyze/name_check_visitor.py", "NameCheckVisitor._set_argspec_to_retval", "self._argspec_to_retval[id(sig)]", .holdsObject),
  ("pyanalyze/name_check_visitor.py", "NameCheckVisitor.get_local_return_value", "self._argspec_to_retval.get(id(sig), (None, None))", .holdsObject),
  -- `processed` is a local dict of one call of `make`; it maps the address to the constraint itself
  ("pyanalyze/stacked_scopes.py", "AndConstraint.make", "id(subcons) in processed", .transient),
  ("pyanalyze/stacked_scopes.py", "AndConstraint.make", "processed[id(cons)]", .holdsObject),
  ("pyanalyze/stacked_scopes.py", "AndConstraint.make", "processed[id(subcons)]", .holdsObject),
  ("pyanalyze/stacked_scopes.py", "EquivalentConstraint.make", "processed[id(cons)]", .holdsObject),
  ("pyanalyze/stacked_scopes.py", "EquivalentConstraint.make", "processed[id(subcons)]", .holdsObject),
  ("pyanalyze/stacked_scopes.py", "OrConstraint.make", "id(subcons) in processed", .transient),
  ("pyanalyze/stacked_scopes.py", "OrConstraint.make", "inverted = id(constraint.invert())", .transient),
  ("pyanalyze/stacked_scopes.py", "OrConstraint.make", "processed[id(cons)]", .holdsObject),
  ("pyanalyze/stacked_scopes.py", "OrConstraint.make", "processed[id(subcons)]", .holdsObject),
  ("pyanalyze/value.py", "CallValue.__hash__", "return id(self)", .identityHash),
  ("pyanalyze/value.py", "ConstraintExtension.__hash__", "return id(self)", .identityHash),
  -- hash of a KnownValue whose payload is unhashable: the value object holds the payload
  ("pyanalyze/value.py", "KnownValue.__hash__", "hash((type(self.val), id(self.val)))", .holdsObject),
  ("pyanalyze/value.py", "NoReturnConstraintExtension.__hash__", "return id(self)", .identityHash)
]

def idKeysRegistered (scanned : List (String × String × String)) : Bool :=
  scanned.all fun s => modelledIdKeys.any fun m => m.1 == s.1 && m.2.1 == s.2.1 && m.2.2.1 == s.2.2

/-! ### Memo keys cover the parameters of the memoised computation

`Generated/CacheKeys.lean` lists every store `<memo table>[key] = value` of pyanalyze with the
parameters of the enclosing function the stored value is computed from (syntactically: reachable
from the value expression through local assignments) and the parameters that occur in the key (or
in the container expression, e.g. `val.resolution_cache`). A parameter the value depends on but the
key omits is what `memo_key_must_determine` exhibits in the model: the table replays the answer of
the first variant. The waivers are the omissions of the pinned tree, each with the reason why the
parameter cannot change the stored value for the lookups pyanalyze makes. -/

/-- (file, function, memo table, parameter) -/
def memoKeyWaivers : List (String × String × String × String) := [
  -- the evaluator closures belong to the alias statement the key identifies (one alias object: one pair of closures)
  ("pyanalyze/annotations.py", "_DefaultContext.get_type_alias", "type_alias_cache", "evaluator"),
  ("pyanalyze/annotations.py", "_DefaultContext.get_type_alias", "type_alias_cache", "evaluate_type_params"),
  -- `impl`: only `with_implementation` (a test helper) and the default argspecs pass one, for objects nobody else
  -- looks up with another; `is_asynq`: only for `.asynq` attributes of asynq functions; `in_overload_resolution`:
  -- only for the per-overload function objects taken from the overload registry. Hazards of the pinned tree,
  -- outside the generated programs (see ASSUMPTIONS of harness/props/c10.py).
  ("pyanalyze/arg_spec.py", "ArgSpecCache._cached_get_argspec", "known_argspecs", "impl"),
  ("pyanalyze/arg_spec.py", "ArgSpecCache._cached_get_argspec", "known_argspecs", "is_asynq"),
  ("pyanalyze/arg_spec.py", "ArgSpecCache._cached_get_argspec", "known_argspecs", "in_overload_resolution"),
  -- a copy of the default table inside the `with_implementation` context manager (test helper)
  ("pyanalyze/arg_spec.py", "with_implementation", "known_argspecs", "implementation_fn")
]

/-- Every parameter the stored value is computed from occurs in the key, or is waived. -/
def memoKeysCover (scanned : List (String × String × String × String × List String × List String)) : Bool :=
  scanned.all fun r => r.2.2.2.2.1.all fun p =>
    r.2.2.2.2.2.contains p || memoKeyWaivers.contains (r.1, r.2.1, r.2.2.1, p)

/-! ### The registry of interpreter-global state the checker reads

pyanalyze's own caches are not the only state that outlives a check: the interpreter's `sys.modules`,
`sys.path`, `os.environ` do too. One row per place where pyanalyze reads such state (`sys.<attr>`,
`os.environ`) or imports a module (`__import__`, `import_module`, or a call of one of pyanalyze's
own importing functions, e.g. `visit_Import`'s `self._try_to_import(alias.name)`), with its kind:
`sysModules` (a read of the module table: sound only next to an import of the same name —
`importCall` / `importerCall` rows of the same function), `sysPath`, `environ`, `sysOther`
(`sys.version_info`, `sys.exc_info`, …: not mutated by checks). The obligation is an *equality*: a new
read is unregistered, and a removed import call (the name is then looked up in `sys.modules`, which
an earlier program may or may not have filled) leaves a registered row without a site. -/

def modelledInterpreterReads : List (String × String × String × String) := [
  ("pyanalyze/__main__.py", "main", "sys.exit", "sysOther"),
  ("pyanalyze/analysis_lib.py", "make_module", "sys.modules", "sysModules"),
  ("pyanalyze/arg_spec.py", "<module>", "sys.version_info", "sysOther"),
  ("pyanalyze/arg_spec.py", "ArgSpecCache._get_type_for_parameter", "sys.modules", "sysModules"),
  ("pyanalyze/arg_spec.py", "ArgSpecCache._get_type_for_parameter", "sys.modules#1", "sysModules"),
  ("pyanalyze/ast_annotator.py", "annotate_file", "load_module_from_file(filename, verbose=verbose)", "importerCall"),
  ("pyanalyze/attributes.py", "AnnotationsContext.get_name", "sys.modules", "sysModules"),
  ("pyanalyze/attributes.py", "_get_attribute_from_mro", "sys.version_info", "sysOther"),
  ("pyanalyze/checker.py", "_extract_protocol_members", "sys.version_info", "sysOther"),
  ("pyanalyze/functions.py", "<module>", "sys.version_info", "sysOther"),
  ("pyanalyze/importer.py", "import_module", "sys.modules", "sysModules"),
  ("pyanalyze/importer.py", "load_module_from_file", "import_module(module_path, abspath)", "importCall"),
  ("pyanalyze/importer.py", "load_module_from_file", "import_module(str(abspath), abspath)", "importCall"),
  ("pyanalyze/importer.py", "load_module_from_file", "importlib.import_module(parent_module_path)", "importCall"),
  ("pyanalyze/importer.py", "load_module_from_file", "sys.modules", "sysModules"),
  ("pyanalyze/importer.py", "load_module_from_file", "sys.modules#1", "sysModules"),
  ("pyanalyze/importer.py", "load_module_from_file", "sys.path", "sysPath"),
  ("pyanalyze/name_check_visitor.py", "<module>", "sys.version_info", "sysOther"),
  ("pyanalyze/name_check_visitor.py", "<module>", "sys.version_info#1", "sysOther"),
  ("pyanalyze/name_check_visitor.py", "ClassAttributeChecker.check_attribute_reads", "self.unserialize_type(serialized)", "importerCall"),
  ("pyanalyze/name_check_visitor.py", "ClassAttributeChecker.check_unused_attributes", "self.unserialize_type(serialized)", "importerCall"),
  ("pyanalyze/name_check_visitor.py", "ClassAttributeChecker.serialize_type", "sys.modules", "sysModules"),
  ("pyanalyze/name_check_visitor.py", "ClassAttributeChecker.serialize_type", "sys.modules#1", "sysModules"),
  ("pyanalyze/name_check_visitor.py", "ClassAttributeChecker.unserialize_type", "__import__(module)", "importCall"),
  ("pyanalyze/name_check_visitor.py", "ClassAttributeChecker.unserialize_type", "sys.modules", "sysModules"),
  ("pyanalyze/name_check_visitor.py", "ClassAttributeChecker.unserialize_type", "sys.modules#1", "sysModules"),
  ("pyanalyze/name_check_visitor.py", "NameCheckVisitor", "sys.version_info", "sysOther"),
  ("pyanalyze/name_check_visitor.py", "NameCheckVisitor", "sys.version_info#1", "sysOther"),
  ("pyanalyze/name_check_visitor.py", "NameCheckVisitor", "sys.version_info#2", "sysOther"),
  ("pyanalyze/name_check_visitor.py", "NameCheckVisitor._extract_exception_types", "sys.version_info", "sysOther"),
  ("pyanalyze/name_check_visitor.py", "NameCheckVisitor._get_import_from_value", "self._try_to_import(name)", "importerCall"),
  ("pyanalyze/name_check_visitor.py", "NameCheckVisitor._get_module", "self._try_to_import(name)", "importerCall"),
  ("pyanalyze/name_check_visitor.py", "NameCheckVisitor._get_module", "sys.modules", "sysModules"),
  ("pyanalyze/name_check_visitor.py", "NameCheckVisitor._get_module", "sys.modules#1", "sysModules"),
  ("pyanalyze/name_check_visitor.py", "NameCheckVisitor._get_module", "sys.modules#2", "sysModules"),
  ("pyanalyze/name_check_visitor.py", "NameCheckVisitor._get_module", "sys.modules#3", "sysModules"),
  ("pyanalyze/name_check_visitor.py", "NameCheckVisitor._load_module", "importer.load_module_from_file(self.filename, import_paths=[str(p) for p in impo", "importerCall"),
  ("pyanalyze/name_check_visitor.py", "NameCheckVisitor._maybe_record_usages_from_import", "__import__(module_name)", "importCall"),
  ("pyanalyze/name_check_visitor.py", "NameCheckVisitor._maybe_record_usages_from_import", "sys.modules", "sysModules"),
  ("pyanalyze/name_check_visitor.py", "NameCheckVisitor._set_alias_in_scope", "sys.version_info", "sysOther"),
  ("pyanalyze/name_check_visitor.py", "NameCheckVisitor._try_to_import", "__import__(module_name)", "importCall"),
  ("pyanalyze/name_check_visitor.py", "NameCheckVisitor._visit_single_compare", "sys.platform", "sysOther"),
  ("pyanalyze/name_check_visitor.py", "NameCheckVisitor._visit_single_compare", "sys.version_info", "sysOther"),
  ("pyanalyze/name_check_visitor.py", "NameCheckVisitor.compute_function_info", "sys.version_info", "sysOther"),
  ("pyanalyze/name_check_visitor.py", "NameCheckVisitor.compute_function_info", "sys.version_info#1", "sysOther"),
  ("pyanalyze/name_check_visitor.py", "NameCheckVisitor.compute_function_info", "sys.version_info#2", "sysOther"),
  ("pyanalyze/name_check_visitor.py", "NameCheckVisitor.prepare_constructor_kwargs", "sys.exit", "sysOther"),
  ("pyanalyze/name_check_visitor.py", "NameCheckVisitor.prepare_constructor_kwargs", "sys.modules", "sysModules"),
  ("pyanalyze/name_check_visitor.py", "NameCheckVisitor.visit_ClassDef", "sys.version_info", "sysOther"),
  ("pyanalyze/name_check_visitor.py", "NameCheckVisitor.visit_ClassDef", "sys.version_info#1", "sysOther"),
  ("pyanalyze/name_check_visitor.py", "NameCheckVisitor.visit_ExceptHandler", "sys.version_info", "sysOther"),
  ("pyanalyze/name_check_visitor.py", "NameCheckVisitor.visit_Import", "self._try_to_import(alias.name)", "importerCall"),
  ("pyanalyze/name_check_visitor.py", "NameCheckVisitor.visit_ImportFrom", "self._maybe_record_usages_from_import(node)", "importerCall"),
  ("pyanalyze/name_check_visitor.py", "NameCheckVisitor.visit_ImportFrom", "sys.version_info", "sysOther"),
  ("pyanalyze/name_check_visitor.py", "NameCheckVisitor.visit_TypeVar", "sys.version_info", "sysOther"),
  ("pyanalyze/node_visitor.py", "BaseNodeVisitor._check_file_single_arg", "sys.modules", "sysModules"),
  ("pyanalyze/node_visitor.py", "BaseNodeVisitor._check_file_single_arg", "sys.modules#1", "sysModules"),
  ("pyanalyze/node_visitor.py", "BaseNodeVisitor._get_all_python_files", "sys.modules", "sysModules"),
  ("pyanalyze/node_visitor.py", "BaseNodeVisitor._run_on_code", "sys.exit", "sysOther"),
  ("pyanalyze/node_visitor.py", "BaseNodeVisitor._run_on_code", "sys.stderr", "sysOther"),
  ("pyanalyze/node_visitor.py", "BaseNodeVisitor.show_error", "sys.stderr", "sysOther"),
  ("pyanalyze/node_visitor.py", "BaseNodeVisitor.show_error", "sys.stderr#1", "sysOther"),
  ("pyanalyze/node_visitor.py", "get_files_to_check_from_environ", "os.environ", "environ"),
  ("pyanalyze/node_visitor.py", "get_files_to_check_from_environ", "os.environ#1", "environ"),
  ("pyanalyze/options.py", "<module>", "sys.version_info", "sysOther"),
  ("pyanalyze/safe.py", "<module>", "sys.version_info", "sysOther"),
  ("pyanalyze/type_evaluation.py", "ConditionEvaluator.visit_Compare", "sys.platform", "sysOther"),
  ("pyanalyze/type_evaluation.py", "ConditionEvaluator.visit_Compare", "sys.platform#1", "sysOther"),
  ("pyanalyze/type_evaluation.py", "ConditionEvaluator.visit_Compare", "sys.version_info", "sysOther"),
  ("pyanalyze/type_evaluation.py", "ConditionEvaluator.visit_Compare", "sys.version_info#1", "sysOther"),
  ("pyanalyze/typeshed.py", "<module>", "sys.version_info", "sysOther"),
  ("pyanalyze/typeshed.py", "TypeshedFinder._get_fq_name", "_obj_from_qualname_is(module_name, obj.__qualname__, obj)", "importerCall"),
  ("pyanalyze/typeshed.py", "TypeshedFinder._parse_call_assignment", "__import__(module)", "importCall"),
  ("pyanalyze/typeshed.py", "TypeshedFinder._parse_call_assignment", "sys.modules", "sysModules"),
  ("pyanalyze/typeshed.py", "TypeshedFinder._value_from_info", "self._value_from_info_inner(info, module)", "importerCall"),
  ("pyanalyze/typeshed.py", "TypeshedFinder._value_from_info_inner", "__import__(module)", "importCall"),
  ("pyanalyze/typeshed.py", "TypeshedFinder._value_from_info_inner", "__import__(module_path)", "importCall"),
  ("pyanalyze/typeshed.py", "TypeshedFinder._value_from_info_inner", "self._parse_call_assignment(info, module)", "importerCall"),
  ("pyanalyze/typeshed.py", "TypeshedFinder._value_from_info_inner", "sys.modules", "sysModules"),
  ("pyanalyze/typeshed.py", "TypeshedFinder._value_from_info_inner", "sys.modules#1", "sysModules"),
  ("pyanalyze/typeshed.py", "_obj_from_qualname_is", "__import__(module_name)", "importCall"),
  ("pyanalyze/typeshed.py", "_obj_from_qualname_is", "sys.modules", "sysModules"),
  ("pyanalyze/typeshed.py", "_obj_from_qualname_is", "sys.modules#1", "sysModules"),
  ("pyanalyze/value.py", "<module>", "sys.version_info", "sysOther"),
  ("pyanalyze/value.py", "<module>", "sys.version_info#1", "sysOther")
]

def interpreterReadsRegistered (scanned : List (String × String × String × String)) : Bool :=
  scanned.all (fun s => modelledInterpreterReads.contains s) &&
  modelledInterpreterReads.all (fun m => scanned.contains m)

/-! ### Classifying a textual difference between two renderings of the same diagnostic

A message is cut into tokens at the separators of lists and unions; two renderings *differ by
order only* when they differ and their token lists are reorderings of each other. -/

def isSep (c : Char) : Bool :=
  c == ' ' || c == ',' || c == '|' || c == '\'' || c == '"' || c == '[' || c == ']' || c == '(' || c == ')' || c == '\n'

def tokensAux : List Char → List Char → List String → List String
  | [], cur, acc => (if cur.isEmpty then acc else String.ofList cur.reverse :: acc).reverse
  | c :: cs, cur, acc =>
    if isSep c then tokensAux cs [] (if cur.isEmpty then acc else String.ofList cur.reverse :: acc)
    else tokensAux cs (c :: cur) acc

def tokens (s : String) : List String := tokensAux s.toList [] []

/-- The two renderings differ, but only in the order of their tokens. -/
def D10_orderOnly (a b : String) : Bool := a != b && isPermOf (tokens a) (tokens b)

def hasSub (s pat : String) : Bool := (s.splitOn pat).length > 1

/-- The site class a purely order-related difference belongs to. `hint` is the feature of the
generated program the diagnostic stems from (`try`, `defnodes`, `bounds`); only the order classes whose repair
was not applied remain — an order-only difference anywhere else is outside every class. -/
def orderClass (hint a b : String) : String :=
  if !D10_orderOnly a b then "-"
  else if hint == "try" then "tryDefNodeOrder"
  else if hint == "defnodes" then "defNodeSetOrder"
  else if hint == "bounds" then "cyclicBoundsOrder"
  else "-"

/-! ## History -/

/-- `mapM` in `Option`, left to right, stopping at the first `none`. -/
def optMapM {α β : Type} (f : α → Option β) : List α → Option (List β)
  | [] => some []
  | a :: l =>
    match f a with
    | none => none
    | some b => (optMapM f l).map (b :: ·)

/-- Structural meaning of protocol compatibility in mode `ex` *with its bounds map*, by direct
recursion (no cache, no guard): the members' maps, each the unification of its slots' maps, unified.
The fuel bounds the nesting depth; for well-founded worlds the value is stable once the fuel exceeds
the rank (`Proofs/C10.lean`, `semB_stable`). -/
def semB (W : World) (ex : Bool) : Nat → Pid → Nat → Vid → Ans
  | 0, _, _, _ => none
  | n + 1, p, a, v =>
    (optMapM (fun m =>
      (optMapM (fun atm =>
        match atm with
        | .const b => if b then some [] else none
        | .anyOk => if ex then none else some []
        | .bound tv b => some [(tv, [b])]
        | .sub p' a' v' => semB W ex n p' a' v') m).map unifyBM) (W.req p a v)).map unifyBM

/-- The verdict alone. -/
def sem (W : World) (ex : Bool) (n : Nat) (p : Pid) (a : Nat) (v : Vid) : Bool :=
  (semB W ex n p a v).isSome

/-- A rank on (protocol, TypeObject) pairs. -/
abbrev Rank := Pid → Nat → Nat

def rankOf (rk : List ((Pid × Nat) × Nat)) : Rank := fun p t => (rk.lookup (p, t)).getD 0

/-- Every nested check listed in the world goes to a pair of strictly smaller rank: the recursion
guard can never fire. -/
def rankOK (W : World) (rk : Rank) : Bool :=
  W.reqs.all fun e => e.2.all fun m => m.all fun atm =>
    match atm with
    | .sub p' _ v' => decide (rk p' (W.tobj v') < rk e.1.1 (W.tobj e.1.2.2))
    | _ => true

/-- Exception class: the protocols of the world are recursive w.r.t. the given rank. -/
def D10_cyclic (W : World) (rk : Rank) : Bool := !rankOK W rk

/-- The fuel exceeds the rank of every top-level query (Python has no fuel: it recurses until the
guard fires, which for well-founded worlds is after at most `rank` nested calls). -/
def fuelOK (W : World) (rk : Rank) (fuel : Nat) (qs : List Query) : Bool :=
  qs.all fun q => decide (rk q.p (W.tobj q.v) < fuel)

/-- One step of the structural-compatibility operator over the listed pairs. -/
def gfpStep (W : World) (ex : Bool) (s : List (Pid × Nat × Vid)) : List (Pid × Nat × Vid) :=
  s.filter fun pv =>
    (W.req pv.1 pv.2.1 pv.2.2).all fun m => m.all fun atm =>
      match atm with
      | .const b => b
      | .anyOk => !ex
      | .bound _ _ => true
      | .sub p' a' v' => s.contains (p', a', v')

def iter {α : Type} (f : α → α) : Nat → α → α
  | 0, x => x
  | n + 1, x => iter f n (f x)

/-- Greatest fixed point of `gfpStep` below the set of listed pairs (Kleene iteration from the top;
`reqs.length` rounds suffice because every non-stationary round removes a pair). -/
def gfpCompat (W : World) (ex : Bool) : List (Pid × Nat × Vid) :=
  iter (gfpStep W ex) W.reqs.length (W.reqs.map (·.1))

/-- The verdict of the recursion-guard algorithm *without any cache*, with the assumptions `S` in
force: what a fresh checker computes. (In a recursive world `semB` is not the reference: there the
guard decides.) -/
def guardVerdict (W : World) (ex : Bool) : Nat → List (Pid × Nat) → Pid → Nat → Vid → Bool
  | 0, _, _, _, _ => false
  | n + 1, S, p, a, v =>
    if S.contains (p, W.tobj v) then true
    else (W.req p a v).all fun m => m.all fun atm =>
      match atm with
      | .const b => b
      | .anyOk => !ex
      | .bound _ _ => true
      | .sub p' a' v' => guardVerdict W ex n (S ++ [(p, W.tobj v)]) p' a' v'

/-- The class of a history dependence `(h, q)` in world `W`, or `-`. One is left: in a recursive world
(`D10_cyclic`) the verdict is the fresh one but the bounds map lists its bounds differently — the
recursion guard answers `{}` for the pair under way where a cache hit answers the stored map
(`cyclic_bounds_map_depends_on_history_witness`). A verdict that depends on the history is outside
every class. -/
def historyClass (W : World) (rk : Rank) (fuel : Nat) (h : List Query) (q : Query) : String :=
  let after := answerAfter W fuel h q
  let fresh := answerFresh W fuel q
  if after == fresh then "-"
  else if after.isSome == fresh.isSome && D10_cyclic W rk then "cyclicBoundsOrder"
  else "-"

end Pya.C10
