import PyaModel.Core.Cache
/-!
# Spec/CacheSpec — what C10 compares the model with, and the exception classes `D10_*`

* Order sites: the property wants the output of a site to be a function of the *set* alone:
  `OrderFree site := ∀ o₁ o₂, o₁ ~ o₂ → site o₁ = site o₂` (`List.Perm`: the two iteration orders
  of one set). The executable side of this is `isPermOf` (is the observed order an order of the
  expected set?) and `canonical` outputs (site applied to the insertion order).
* History: the answer of a query must equal the answer of a fresh checker (`answerFresh`), and the
  structural meaning of protocol compatibility: `sem` (direct recursion, no cache, no guard — for
  worlds whose nested checks are well-founded) and `gfpCompat` (greatest fixed point of the
  structural operator over the listed pairs — for recursive protocols).
* Exception classes (decidable, executable; printed by `Driver/C10.lean`).
-/
namespace Pya.C10

/-! ## Order -/

/-- The property for one site: the output does not depend on the iteration order of the set. -/
def OrderFree {α β : Type} (site : List α → β) : Prop :=
  ∀ o₁ o₂ : List α, o₁.Perm o₂ → site o₁ = site o₂

/-- The weaker reading where the output itself is a set. -/
def OrderFreeAsSet {α β : Type} (site : List α → List β) : Prop :=
  ∀ o₁ o₂ : List α, o₁.Perm o₂ → ∀ y, y ∈ site o₁ ↔ y ∈ site o₂

/-- `a` is a reordering of `b` (multiset equality), executable. -/
def isPermOf {α : Type} [BEq α] (a b : List α) : Bool :=
  a.length == b.length && a.all (fun x => a.count x == b.count x)

/-- Exception class of every `join` site and of `siteOrBound`: the set has two or more elements. -/
def D10_twoOrMore {α : Type} (elems : List α) : Bool := decide (2 ≤ elems.length)

/-- Exception class of `siteProtocolFirstFail`: two or more members fail. -/
def D10_twoFailing (outcome : String → MemberOutcome) (members : List String) : Bool :=
  decide (2 ≤ (members.filter fun m => outcome m != .ok).length)

/-- Exception class of `siteFirstSuccess`: two or more bases succeed. -/
def D10_twoSucceed {α β : Type} (attempt : α → Option β) (bases : List α) : Bool :=
  decide (2 ≤ (bases.filter fun b => (attempt b).isSome).length)

/-- Exception class of `siteOrNarrow`: two or more constraints. -/
def D10_twoConstraints (order : List Nat) : Bool := decide (2 ≤ order.length)

/-! ### Classifying a textual difference between two renderings of the same diagnostic

A message is cut into tokens at the separators of lists and unions; two renderings *differ by
order only* when they differ and their token lists are reorderings of each other. Which site the
difference belongs to is read off the message template. -/

def isSep (c : Char) : Bool :=
  c == ' ' || c == ',' || c == '|' || c == '\'' || c == '"' || c == '[' || c == ']' || c == '(' || c == ')' || c == '\n'

def tokensAux : List Char → List Char → List String → List String
  | [], cur, acc => (if cur.isEmpty then acc else String.ofList cur.reverse :: acc).reverse
  | c :: cs, cur, acc =>
    if isSep c then tokensAux cs [] (if cur.isEmpty then acc else String.ofList cur.reverse :: acc)
    else tokensAux cs (c :: cur) acc

def tokens (s : String) : List String := tokensAux s.toList [] []

/-- The two renderings differ, but only in the order of their tokens. -/
def D10_orderOnly (a b : String) : Bool := a != b && isPermOf (tokens a) (tokens b)

def hasSub (s pat : String) : Bool := (s.splitOn pat).length > 1

/-- The site class a purely order-related difference belongs to, by message template. `hint` is the
feature of the generated program the diagnostic stems from (`or`, `try`, or empty). -/
def orderClass (hint a b : String) : String :=
  if !D10_orderOnly a b then "-"
  else if hasSub a "Got unexpected keyword arguments" then "joinExtraKwargs"
  else if hasSub a "No value specified for keys" then "joinKeysLeft"
  else if hasSub a "(Protocol with members" then
    -- the member list differs; the detail line (first failing member) may differ as well
    "protocolMembersOrder"
  else if hasSub a "Value of protocol member" || hasSub a "has no attribute" then "protocolMembersOrder"
  else if hint == "or" then "orConstraintOrder"
  else if hint == "try" then "tryDefNodeOrder"
  else "-"

/-! ## History -/

/-- Structural meaning of protocol compatibility in mode `ex`, by direct recursion (no cache, no
guard). The fuel bounds the nesting depth; for well-founded worlds the value is stable once the
fuel exceeds the rank (`Proofs/C10.lean`, `sem_stable`). -/
def sem (W : World) (ex : Bool) : Nat → Pid → Vid → Bool
  | 0, _, _ => false
  | n + 1, p, v =>
    (W.req p v).all fun m => m.all fun a =>
      match a with
      | .const b => b
      | .anyOk => !ex
      | .sub p' v' => sem W ex n p' v'

/-- A rank on (protocol, TypeObject) pairs. -/
abbrev Rank := Pid → Nat → Nat

def rankOf (rk : List ((Pid × Nat) × Nat)) : Rank := fun p t => (rk.lookup (p, t)).getD 0

/-- Every nested check listed in the world goes to a pair of strictly smaller rank: the recursion
guard can never fire. -/
def rankOK (W : World) (rk : Rank) : Bool :=
  W.reqs.all fun e => e.2.all fun m => m.all fun a =>
    match a with
    | .sub p' v' => decide (rk p' (W.tobj v') < rk e.1.1 (W.tobj e.1.2))
    | _ => true

/-- Exception class: the protocols of the world are recursive w.r.t. the given rank. -/
def D10_cyclic (W : World) (rk : Rank) : Bool := !rankOK W rk

/-- Exception class: the history (with the query) mixes the two modes. -/
def D10_modeMix (h : List Query) (q : Query) : Bool := h.any fun q' => q'.ex != q.ex

/-- One step of the structural-compatibility operator over the listed pairs. -/
def gfpStep (W : World) (ex : Bool) (s : List (Pid × Vid)) : List (Pid × Vid) :=
  s.filter fun pv =>
    (W.req pv.1 pv.2).all fun m => m.all fun a =>
      match a with
      | .const b => b
      | .anyOk => !ex
      | .sub p' v' => s.contains (p', v')

def iter {α : Type} (f : α → α) : Nat → α → α
  | 0, x => x
  | n + 1, x => iter f n (f x)

/-- Greatest fixed point of `gfpStep` below the set of listed pairs (Kleene iteration from the top;
`reqs.length` rounds suffice because every non-stationary round removes a pair). -/
def gfpCompat (W : World) (ex : Bool) : List (Pid × Vid) :=
  iter (gfpStep W ex) W.reqs.length (W.reqs.map (·.1))

/-- The class of a history dependence `(h, q)` in world `W`, or `-`. -/
def historyClass (W : World) (rk : Rank) (fuel : Nat) (h : List Query) (q : Query) : String :=
  let fresh := answerFresh W fuel q
  if answerAfter W fuel h q == fresh then "-"
  else if D10_modeMix h q && answerAfter2 W true false fuel h q == fresh then "cacheIgnoresMode"
  else if D10_cyclic W rk && answerAfter2 W false true fuel h q == fresh then "cacheUnderFailedAssumption"
  else if D10_modeMix h q && D10_cyclic W rk && answerAfter2 W true true fuel h q == fresh then
    "cacheIgnoresMode+cacheUnderFailedAssumption"
  else "-"

end Pya.C10
