import PyaModel.Core.Cache
/-!
# Spec/CacheSpec — what C10 compares the model with, and the exception classes `D10_*`

* Order sites: the property wants the output of a site to be a function of the *set* alone:
  `OrderFree site := ∀ o₁ o₂, o₁ ~ o₂ → site o₁ = site o₂` (`List.Perm`: the two iteration orders
  of one set). The executable side of this is `isPermOf` (is the observed order an order of the
  expected set?) and `canonical` outputs (site applied to the insertion order).
* History: the answer of a query — verdict *and bounds map* — must equal the answer of a fresh
  checker (`answerFresh`), and the structural meaning of protocol compatibility: `semB` / `sem`
  (direct recursion, no cache, no guard — for
  worlds whose nested checks are well-founded) and `gfpCompat` (greatest fixed point of the
  structural operator over the listed pairs — for recursive protocols).
* Exception classes (decidable, executable; printed by `Driver/C10.lean`).
-/
namespace Pya.C10

/-! ## Order -/

/-- The property for one site: the output does not depend on the iteration order of the set. -/
def OrderFree {α β : Type} (site : List α → β) : Prop :=
  ∀ o₁ o₂ : List α, o₁.Perm o₂ → site o₁ = site o₂

/-- The weaker reading where the output itself is a set. -/
def OrderFreeAsSet {α β : Type} (site : List α → List β) : Prop :=
  ∀ o₁ o₂ : List α, o₁.Perm o₂ → ∀ y, y ∈ site o₁ ↔ y ∈ site o₂

/-- `a` is a reordering of `b` (multiset equality), executable. -/
def isPermOf {α : Type} [BEq α] (a b : List α) : Bool :=
  a.length == b.length && a.all (fun x => a.count x == b.count x)

/-- Exception class of the sites that let the order through (`siteTryDefNodes`, `siteDefNodes`,
`siteOrBound`, `siteDisallowedKinds`): the set has two or more elements. -/
def D10_twoOrMore {α : Type} (elems : List α) : Bool := decide (2 ≤ elems.length)

/-- Exception class of `siteFirstSuccess`: two or more bases succeed. -/
def D10_twoSucceed {α β : Type} (attempt : α → Option β) (bases : List α) : Bool :=
  decide (2 ≤ (bases.filter fun b => (attempt b).isSome).length)

/-! ### The registry of modelled sites

One row per set-iteration site of the anchored files: (file, function, fingerprint of the scan,
the site function of `Core/Cache.lean` that models it, exception class or `-`). The five sites
repaired in /repo no longer iterate a set in an order-revealing way: `bind_arguments`,
`accept_mapping_args_no_mvv` and `OrConstraint.apply` have no row any more, the two protocol sites
are `sorted(...)` rows. The obligation
`sites_registered` (Proofs/C10.lean) says every site the scan finds in the live tree is listed. -/

inductive SiteKind
  | join | firstSuccess | defNodes | tryDefNodes | orBound | printSeq             -- order can show
  | anyAll | setBuild | lookupMap | singleton | sortedJoin | sortedFirstFail | emit | closure
  deriving DecidableEq, Repr

def modelledSites : List (String × String × String × SiteKind × String) := [
  ("pyanalyze/checker.py", "Checker._build_type_object", "anyall:bases", .anyAll, "-"),
  ("pyanalyze/checker.py", "Checker._build_type_object", "passed-to-_get_protocol_members:bases", .setBuild, "-"),
  ("pyanalyze/checker.py", "Checker._build_type_object", "passed-to-_get_protocol_members:typeshed_bases", .setBuild, "-"),
  ("pyanalyze/checker.py", "Checker._build_type_object", "setbuild:bases", .setBuild, "-"),
  ("pyanalyze/checker.py", "Checker._get_recursive_typeshed_bases", "pop:to_do", .closure, "-"),
  ("pyanalyze/format_strings.py", "_parse_replacement_field", "sorted:allowed_specials", .sortedJoin, "-"),
  ("pyanalyze/format_strings.py", "_parse_replacement_field", "sorted:allowed_specials#1", .sortedJoin, "-"),
  -- prints `Unused method: …` lines to stdout in set order (only with --find-unused-attributes; not a diagnostic)
  ("pyanalyze/name_check_visitor.py", "ClassAttributeChecker.check_unused_attributes", "for:existing_attrs - attrs_read - ignored", .printSeq, "unusedAttributeListing"),
  ("pyanalyze/name_check_visitor.py", "ClassAttributeChecker.check_unused_attributes", "passed-to-_add_attrs:attr_names_read", .setBuild, "-"),
  ("pyanalyze/name_check_visitor.py", "NameCheckVisitor._check_function_unused_vars", "anyall:scope.name_to_all_definition_nodes[unused.id]", .anyAll, "-"),
  ("pyanalyze/name_check_visitor.py", "NameCheckVisitor._check_function_unused_vars", "for:all_unused_nodes", .emit, "-"),
  ("pyanalyze/name_check_visitor.py", "NameCheckVisitor._check_function_unused_vars", "passed-to-_all_names_unused:all_unused_nodes", .anyAll, "-"),
  ("pyanalyze/name_check_visitor.py", "NameCheckVisitor._check_function_unused_vars", "passed-to-_all_names_unused:all_unused_nodes#1", .anyAll, "-"),
  ("pyanalyze/name_check_visitor.py", "NameCheckVisitor._constraint_from_compare_op", "next-iter:predicate_types", .singleton, "-"),
  ("pyanalyze/name_check_visitor.py", "NameCheckVisitor._maybe_show_missing_f_error", "anyall:names", .anyAll, "-"),
  ("pyanalyze/name_check_visitor.py", "NameCheckVisitor.constraint_from_condition", "passed-to-_check_boolability:disabled", .anyAll, "-"),
  ("pyanalyze/signature.py", "Signature.check_call_with_bound_args", "passed-to-resolve_bounds_map:self.all_typevars", .lookupMap, "-"),
  ("pyanalyze/signature.py", "Signature.get_default_return", "dictbuild:self.all_typevars", .lookupMap, "-"),
  -- text of an InvalidSignature exception; no source program reaches it
  ("pyanalyze/signature.py", "Signature.validate", "join:disallowed_previous", .join, "joinDisallowedKinds"),
  ("pyanalyze/signature.py", "preprocess_args", "passed-to-ActualArguments:pok_indices", .anyAll, "-"),
  ("pyanalyze/stacked_scopes.py", "FunctionScope._resolve_origin", "pop:pending", .closure, "-"),
  ("pyanalyze/stacked_scopes.py", "FunctionScope._resolve_value", "passed-to-_get_value_from_nodes:val.definition_nodes", .defNodes, "defNodeSetOrder"),
  ("pyanalyze/stacked_scopes.py", "FunctionScope.get_combined_scope", "dictbuild:all_variables", .lookupMap, "-"),
  ("pyanalyze/stacked_scopes.py", "FunctionScope.get_local", "passed-to-_get_value_from_nodes:definers", .defNodes, "defNodeSetOrder"),
  ("pyanalyze/stacked_scopes.py", "FunctionScope.get_local", "passed-to-_resolve_origin:definers", .closure, "-"),
  ("pyanalyze/stacked_scopes.py", "FunctionScope.get_origin", "passed-to-_resolve_origin:definers", .closure, "-"),
  ("pyanalyze/stacked_scopes.py", "FunctionScope.set", "for:self.name_to_composites[varname]", .lookupMap, "-"),
  ("pyanalyze/stacked_scopes.py", "FunctionScope.suppressing_subscope", "dictbuild:all_keys", .lookupMap, "-"),
  ("pyanalyze/stacked_scopes.py", "FunctionScope.suppressing_subscope", "list:nodes - old_defn_nodes.get(key, set())", .tryDefNodes, "tryDefNodeOrder"),
  ("pyanalyze/type_object.py", "TypeObject.__str__", "sorted:self.protocol_members", .sortedJoin, "-"),
  ("pyanalyze/type_object.py", "TypeObject._is_compatible_with_protocol", "sorted:self.protocol_members", .sortedFirstFail, "-"),
  ("pyanalyze/type_object.py", "TypeObject.can_assign", "for:other.artificial_bases", .firstSuccess, "artificialBaseChoice"),
  ("pyanalyze/type_object.py", "TypeObject.can_assign", "for:other.base_classes", .anyAll, "-"),
  ("pyanalyze/type_object.py", "TypeObject.has_attribute", "for:self.base_classes", .anyAll, "-"),
  ("pyanalyze/type_object.py", "TypeObject.is_assignable_to_type", "for:self.base_classes", .anyAll, "-"),
  ("pyanalyze/value.py", "CanAssignError.get_error_code", "next-iter:errors", .singleton, "-"),
  ("pyanalyze/value.py", "intersect_bounds_maps", "next-iter:bound_lists", .singleton, "-"),
  ("pyanalyze/value.py", "intersect_bounds_maps", "tuple:bound_lists", .orBound, "orBoundOrder")
]

/-- Every scanned site has a row. -/
def sitesRegistered (scanned : List (String × String × String)) : Bool :=
  scanned.all fun s => modelledSites.any fun m => m.1 == s.1 && m.2.1 == s.2.1 && m.2.2.1 == s.2.2

/-! ### The registry of per-Checker containers ("mutable cached value" sites)

One row per container attribute (dict / list / set) of the classes whose instances live as long as
a `Checker` (scan of checker.py, arg_spec.py, type_object.py, typeshed.py, reexport.py,
suggested_type.py; `Generated/CacheSites.lean`). The kind says what the property allows:

* `memo`: a memo table — entries are never changed after insertion (model: `memoStep`); the harness
  snapshots every entry after each program of a history and compares;
* `protoCache`: `_protocol_positive_cache` (model: `check`; theorem `cache_entries_immutable`);
  snapshotted likewise;
* `cachedField`: a container inside a cached value (part of the snapshot of that value);
* `transient`: must be empty between top-level checks;
* `config`: filled once from the options when the object is built;
* `accumulator`: grows across modules by design and is reported by `perform_final_checks`
  (not read while checking a module). -/

inductive CacheKind | memo | protoCache | cachedField | transient | config | accumulator
  deriving DecidableEq, Repr

def CacheKind.name : CacheKind → String
  | .memo => "memo" | .protoCache => "protoCache" | .cachedField => "cachedField"
  | .transient => "transient" | .config => "config" | .accumulator => "accumulator"

def modelledCaches : List (String × String × String × CacheKind) := [
  ("pyanalyze/checker.py", "Checker", "type_object_cache", .memo),
  ("pyanalyze/checker.py", "Checker", "assumed_compatibilities", .transient),
  ("pyanalyze/checker.py", "Checker", "vnv_map", .config),
  ("pyanalyze/checker.py", "Checker", "type_alias_cache", .memo),
  -- class-level defaults of option classes
  ("pyanalyze/arg_spec.py", "ClassesSafeToInstantiate", "default_value", .config),
  ("pyanalyze/arg_spec.py", "FunctionsSafeToCall", "default_value", .config),
  ("pyanalyze/arg_spec.py", "IgnoredCallees", "default_value", .config),
  ("pyanalyze/arg_spec.py", "KnownSignatures", "default_value", .config),
  ("pyanalyze/arg_spec.py", "ArgSpecCache", "known_argspecs", .memo),
  ("pyanalyze/arg_spec.py", "ArgSpecCache", "generic_bases_cache", .memo),
  ("pyanalyze/type_object.py", "TypeObject", "base_classes", .cachedField),
  ("pyanalyze/type_object.py", "TypeObject", "protocol_members", .cachedField),
  ("pyanalyze/type_object.py", "TypeObject", "artificial_bases", .cachedField),
  ("pyanalyze/type_object.py", "TypeObject", "_protocol_positive_cache", .protoCache),
  ("pyanalyze/typeshed.py", "TypeshedFinder", "_assignment_cache", .memo),
  ("pyanalyze/typeshed.py", "TypeshedFinder", "_attribute_cache", .memo),
  ("pyanalyze/typeshed.py", "TypeshedFinder", "_active_infos", .transient),
  -- a class-level list shared by all instances; only ever appended to by a context that discards errors
  ("pyanalyze/typeshed.py", "_DummyErrorContext", "all_failures", .accumulator),
  ("pyanalyze/reexport.py", "ImplicitReexportTracker", "completed_modules", .accumulator),
  ("pyanalyze/reexport.py", "ImplicitReexportTracker", "module_to_reexports", .accumulator),
  ("pyanalyze/reexport.py", "ImplicitReexportTracker", "used_reexports", .accumulator),
  ("pyanalyze/suggested_type.py", "CallableData", "calls", .accumulator),
  ("pyanalyze/suggested_type.py", "CallableTracker", "callable_to_data", .accumulator),
  ("pyanalyze/suggested_type.py", "CallableTracker", "callable_to_calls", .accumulator)
]

/-- Every scanned container attribute has a row. -/
def cachesRegistered (scanned : List (String × String × String)) : Bool :=
  scanned.all fun s => modelledCaches.any fun m => m.1 == s.1 && m.2.1 == s.2.1 && m.2.2.1 == s.2.2

/-! ### Classifying a textual difference between two renderings of the same diagnostic

A message is cut into tokens at the separators of lists and unions; two renderings *differ by
order only* when they differ and their token lists are reorderings of each other. -/

def isSep (c : Char) : Bool :=
  c == ' ' || c == ',' || c == '|' || c == '\'' || c == '"' || c == '[' || c == ']' || c == '(' || c == ')' || c == '\n'

def tokensAux : List Char → List Char → List String → List String
  | [], cur, acc => (if cur.isEmpty then acc else String.ofList cur.reverse :: acc).reverse
  | c :: cs, cur, acc =>
    if isSep c then tokensAux cs [] (if cur.isEmpty then acc else String.ofList cur.reverse :: acc)
    else tokensAux cs (c :: cur) acc

def tokens (s : String) : List String := tokensAux s.toList [] []

/-- The two renderings differ, but only in the order of their tokens. -/
def D10_orderOnly (a b : String) : Bool := a != b && isPermOf (tokens a) (tokens b)

def hasSub (s pat : String) : Bool := (s.splitOn pat).length > 1

/-- The site class a purely order-related difference belongs to. `hint` is the feature of the
generated program the diagnostic stems from (`try`, `defnodes`); only the two classes whose repair
was not applied remain — an order-only difference anywhere else is outside every class. -/
def orderClass (hint a b : String) : String :=
  if !D10_orderOnly a b then "-"
  else if hint == "try" then "tryDefNodeOrder"
  else if hint == "defnodes" then "defNodeSetOrder"
  else "-"

/-! ## History -/

/-- `mapM` in `Option`, left to right, stopping at the first `none`. -/
def optMapM {α β : Type} (f : α → Option β) : List α → Option (List β)
  | [] => some []
  | a :: l =>
    match f a with
    | none => none
    | some b => (optMapM f l).map (b :: ·)

/-- Structural meaning of protocol compatibility in mode `ex` *with its bounds map*, by direct
recursion (no cache, no guard): the members' maps, each the unification of its slots' maps, unified.
The fuel bounds the nesting depth; for well-founded worlds the value is stable once the fuel exceeds
the rank (`Proofs/C10.lean`, `semB_stable`). -/
def semB (W : World) (ex : Bool) : Nat → Pid → Nat → Vid → Ans
  | 0, _, _, _ => none
  | n + 1, p, a, v =>
    (optMapM (fun m =>
      (optMapM (fun atm =>
        match atm with
        | .const b => if b then some [] else none
        | .anyOk => if ex then none else some []
        | .bound tv b => some [(tv, [b])]
        | .sub p' a' v' => semB W ex n p' a' v') m).map unifyBM) (W.req p a v)).map unifyBM

/-- The verdict alone. -/
def sem (W : World) (ex : Bool) (n : Nat) (p : Pid) (a : Nat) (v : Vid) : Bool :=
  (semB W ex n p a v).isSome

/-- A rank on (protocol, TypeObject) pairs. -/
abbrev Rank := Pid → Nat → Nat

def rankOf (rk : List ((Pid × Nat) × Nat)) : Rank := fun p t => (rk.lookup (p, t)).getD 0

/-- Every nested check listed in the world goes to a pair of strictly smaller rank: the recursion
guard can never fire. -/
def rankOK (W : World) (rk : Rank) : Bool :=
  W.reqs.all fun e => e.2.all fun m => m.all fun atm =>
    match atm with
    | .sub p' _ v' => decide (rk p' (W.tobj v') < rk e.1.1 (W.tobj e.1.2.2))
    | _ => true

/-- Exception class: the protocols of the world are recursive w.r.t. the given rank. -/
def D10_cyclic (W : World) (rk : Rank) : Bool := !rankOK W rk

/-- The fuel exceeds the rank of every top-level query (Python has no fuel: it recurses until the
guard fires, which for well-founded worlds is after at most `rank` nested calls). -/
def fuelOK (W : World) (rk : Rank) (fuel : Nat) (qs : List Query) : Bool :=
  qs.all fun q => decide (rk q.p (W.tobj q.v) < fuel)

/-- One step of the structural-compatibility operator over the listed pairs. -/
def gfpStep (W : World) (ex : Bool) (s : List (Pid × Nat × Vid)) : List (Pid × Nat × Vid) :=
  s.filter fun pv =>
    (W.req pv.1 pv.2.1 pv.2.2).all fun m => m.all fun atm =>
      match atm with
      | .const b => b
      | .anyOk => !ex
      | .bound _ _ => true
      | .sub p' a' v' => s.contains (p', a', v')

def iter {α : Type} (f : α → α) : Nat → α → α
  | 0, x => x
  | n + 1, x => iter f n (f x)

/-- Greatest fixed point of `gfpStep` below the set of listed pairs (Kleene iteration from the top;
`reqs.length` rounds suffice because every non-stationary round removes a pair). -/
def gfpCompat (W : World) (ex : Bool) : List (Pid × Nat × Vid) :=
  iter (gfpStep W ex) W.reqs.length (W.reqs.map (·.1))

/-- The class of a history dependence `(h, q)` in world `W`, or `-`: the only cause left is a
positive answer cached under a recursion-guard assumption, which needs recursive protocols and
disappears when nothing is cached while an assumption is in force. -/
def historyClass (W : World) (rk : Rank) (fuel : Nat) (h : List Query) (q : Query) : String :=
  let fresh := (answerFresh W fuel q).isSome
  if (answerAfter W fuel h q).isSome == fresh then "-"
  else if D10_cyclic W rk && (answerAfter2 W true true true fuel h q).isSome == fresh then
    "cacheUnderFailedAssumption"
  else "-"

end Pya.C10
