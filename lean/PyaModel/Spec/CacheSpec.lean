import PyaModel.Core.Cache
/-!
# Spec/CacheSpec — what C10 compares the model with, and the exception classes `D10_*`

* Order sites: the property wants the output of a site to be a function of the *set* alone:
  `OrderFree site := ∀ o₁ o₂, o₁ ~ o₂ → site o₁ = site o₂` (`List.Perm`: the two iteration orders
  of one set). The executable side of this is `isPermOf` (is the observed order an order of the
  expected set?) and `canonical` outputs (site applied to the insertion order).
* History: the answer of a query must equal the answer of a fresh checker (`answerFresh`), and the
  structural meaning of protocol compatibility: `sem` (direct recursion, no cache, no guard — for
  worlds whose nested checks are well-founded) and `gfpCompat` (greatest fixed point of the
  structural operator over the listed pairs — for recursive protocols).
* Exception classes (decidable, executable; printed by `Driver/C10.lean`).
-/
namespace Pya.C10

/-! ## Order -/

/-- The property for one site: the output does not depend on the iteration order of the set. -/
def OrderFree {α β : Type} (site : List α → β) : Prop :=
  ∀ o₁ o₂ : List α, o₁.Perm o₂ → site o₁ = site o₂

/-- The weaker reading where the output itself is a set. -/
def OrderFreeAsSet {α β : Type} (site : List α → List β) : Prop :=
  ∀ o₁ o₂ : List α, o₁.Perm o₂ → ∀ y, y ∈ site o₁ ↔ y ∈ site o₂

/-- `a` is a reordering of `b` (multiset equality), executable. -/
def isPermOf {α : Type} [BEq α] (a b : List α) : Bool :=
  a.length == b.length && a.all (fun x => a.count x == b.count x)

/-- Exception class of every `join` site and of `siteOrBound`: the set has two or more elements. -/
def D10_twoOrMore {α : Type} (elems : List α) : Bool := decide (2 ≤ elems.length)

/-- Exception class of `siteProtocolFirstFail`: two or more members fail. -/
def D10_twoFailing (outcome : String → MemberOutcome) (members : List String) : Bool :=
  decide (2 ≤ (members.filter fun m => outcome m != .ok).length)

/-- Exception class of `siteFirstSuccess`: two or more bases succeed. -/
def D10_twoSucceed {α β : Type} (attempt : α → Option β) (bases : List α) : Bool :=
  decide (2 ≤ (bases.filter fun b => (attempt b).isSome).length)

/-- Exception class of `siteOrNarrow`: two or more constraints. -/
def D10_twoConstraints (order : List Nat) : Bool := decide (2 ≤ order.length)

/-! ### The registry of modelled sites

One row per set-iteration site of the anchored files: (file, function, fingerprint of the scan,
the site function of `Core/Cache.lean` that models it, exception class or `-`). The obligation
`sites_registered` (Proofs/C10.lean) says every site the scan finds in the live tree is listed. -/

inductive SiteKind
  | join | firstFail | firstSuccess | orNarrow | defNodes | tryDefNodes | orBound   -- order can show
  | anyAll | setBuild | lookupMap | singleton | sortedJoin | emit | closure | printSeq
  deriving DecidableEq, Repr

def modelledSites : List (String × String × String × SiteKind × String) := [
  ("pyanalyze/checker.py", "Checker._build_type_object", "anyall:bases", .anyAll, "-"),
  ("pyanalyze/checker.py", "Checker._build_type_object", "passed-to-_get_protocol_members:bases", .setBuild, "-"),
  ("pyanalyze/checker.py", "Checker._build_type_object", "passed-to-_get_protocol_members:typeshed_bases", .setBuild, "-"),
  ("pyanalyze/checker.py", "Checker._build_type_object", "setbuild:bases", .setBuild, "-"),
  ("pyanalyze/checker.py", "Checker._get_recursive_typeshed_bases", "pop:to_do", .closure, "-"),
  ("pyanalyze/format_strings.py", "PercentFormatString.accept_mapping_args_no_mvv", "join:keys_left", .join, "joinKeysLeft"),
  ("pyanalyze/format_strings.py", "PercentFormatString.accept_mapping_args_no_mvv", "setbuild:cs_map.keys() - seen_keys", .setBuild, "-"),
  ("pyanalyze/format_strings.py", "_parse_replacement_field", "sorted:allowed_specials", .sortedJoin, "-"),
  ("pyanalyze/format_strings.py", "_parse_replacement_field", "sorted:allowed_specials#1", .sortedJoin, "-"),
  -- prints `Unused method: …` lines to stdout in set order (only with --find-unused-attributes; not a diagnostic)
  ("pyanalyze/name_check_visitor.py", "ClassAttributeChecker.check_unused_attributes", "for:existing_attrs - attrs_read - ignored", .printSeq, "unusedAttributeListing"),
  ("pyanalyze/name_check_visitor.py", "ClassAttributeChecker.check_unused_attributes", "passed-to-_add_attrs:attr_names_read", .setBuild, "-"),
  ("pyanalyze/name_check_visitor.py", "NameCheckVisitor._check_function_unused_vars", "anyall:scope.name_to_all_definition_nodes[unused.id]", .anyAll, "-"),
  ("pyanalyze/name_check_visitor.py", "NameCheckVisitor._check_function_unused_vars", "for:all_unused_nodes", .emit, "-"),
  ("pyanalyze/name_check_visitor.py", "NameCheckVisitor._check_function_unused_vars", "passed-to-_all_names_unused:all_unused_nodes", .anyAll, "-"),
  ("pyanalyze/name_check_visitor.py", "NameCheckVisitor._check_function_unused_vars", "passed-to-_all_names_unused:all_unused_nodes#1", .anyAll, "-"),
  ("pyanalyze/name_check_visitor.py", "NameCheckVisitor._constraint_from_compare_op", "next-iter:predicate_types", .singleton, "-"),
  ("pyanalyze/name_check_visitor.py", "NameCheckVisitor._maybe_show_missing_f_error", "anyall:names", .anyAll, "-"),
  ("pyanalyze/name_check_visitor.py", "NameCheckVisitor.constraint_from_condition", "passed-to-_check_boolability:disabled", .anyAll, "-"),
  ("pyanalyze/signature.py", "Signature.bind_arguments", "join:extra_kwargs", .join, "joinExtraKwargs"),
  ("pyanalyze/signature.py", "Signature.check_call_with_bound_args", "passed-to-resolve_bounds_map:self.all_typevars", .lookupMap, "-"),
  ("pyanalyze/signature.py", "Signature.get_default_return", "dictbuild:self.all_typevars", .lookupMap, "-"),
  -- text of an InvalidSignature exception; no source program reaches it
  ("pyanalyze/signature.py", "Signature.validate", "join:disallowed_previous", .join, "joinDisallowedKinds"),
  ("pyanalyze/signature.py", "preprocess_args", "passed-to-ActualArguments:pok_indices", .anyAll, "-"),
  ("pyanalyze/stacked_scopes.py", "FunctionScope._resolve_origin", "pop:pending", .closure, "-"),
  ("pyanalyze/stacked_scopes.py", "FunctionScope._resolve_value", "passed-to-_get_value_from_nodes:val.definition_nodes", .defNodes, "defNodeSetOrder"),
  ("pyanalyze/stacked_scopes.py", "FunctionScope.get_combined_scope", "dictbuild:all_variables", .lookupMap, "-"),
  ("pyanalyze/stacked_scopes.py", "FunctionScope.get_local", "passed-to-_get_value_from_nodes:definers", .defNodes, "defNodeSetOrder"),
  ("pyanalyze/stacked_scopes.py", "FunctionScope.get_local", "passed-to-_resolve_origin:definers", .closure, "-"),
  ("pyanalyze/stacked_scopes.py", "FunctionScope.get_origin", "passed-to-_resolve_origin:definers", .closure, "-"),
  ("pyanalyze/stacked_scopes.py", "FunctionScope.set", "for:self.name_to_composites[varname]", .lookupMap, "-"),
  ("pyanalyze/stacked_scopes.py", "FunctionScope.suppressing_subscope", "dictbuild:all_keys", .lookupMap, "-"),
  ("pyanalyze/stacked_scopes.py", "FunctionScope.suppressing_subscope", "list:nodes - old_defn_nodes.get(key, set())", .tryDefNodes, "tryDefNodeOrder"),
  ("pyanalyze/stacked_scopes.py", "OrConstraint.apply", "list:set(constraints)", .orNarrow, "orConstraintOrder"),
  ("pyanalyze/type_object.py", "TypeObject.__str__", "join:self.protocol_members", .join, "protocolMembersOrder"),
  ("pyanalyze/type_object.py", "TypeObject._is_compatible_with_protocol", "for:self.protocol_members", .firstFail, "protocolMembersOrder"),
  -- the two rows a `sorted(self.protocol_members)` repair of the previous two sites produces
  ("pyanalyze/type_object.py", "TypeObject.__str__", "sorted:self.protocol_members", .sortedJoin, "-"),
  ("pyanalyze/type_object.py", "TypeObject._is_compatible_with_protocol", "sorted:self.protocol_members", .sortedJoin, "-"),
  ("pyanalyze/type_object.py", "TypeObject.can_assign", "for:other.artificial_bases", .firstSuccess, "artificialBaseChoice"),
  ("pyanalyze/type_object.py", "TypeObject.can_assign", "for:other.base_classes", .anyAll, "-"),
  ("pyanalyze/type_object.py", "TypeObject.has_attribute", "for:self.base_classes", .anyAll, "-"),
  ("pyanalyze/type_object.py", "TypeObject.is_assignable_to_type", "for:self.base_classes", .anyAll, "-"),
  ("pyanalyze/value.py", "CanAssignError.get_error_code", "next-iter:errors", .singleton, "-"),
  ("pyanalyze/value.py", "intersect_bounds_maps", "next-iter:bound_lists", .singleton, "-"),
  ("pyanalyze/value.py", "intersect_bounds_maps", "tuple:bound_lists", .orBound, "orBoundOrder")
]

/-- Every scanned site has a row. -/
def sitesRegistered (scanned : List (String × String × String)) : Bool :=
  scanned.all fun s => modelledSites.any fun m => m.1 == s.1 && m.2.1 == s.2.1 && m.2.2.1 == s.2.2

/-! ### Classifying a textual difference between two renderings of the same diagnostic

A message is cut into tokens at the separators of lists and unions; two renderings *differ by
order only* when they differ and their token lists are reorderings of each other. Which site the
difference belongs to is read off the message template. -/

def isSep (c : Char) : Bool :=
  c == ' ' || c == ',' || c == '|' || c == '\'' || c == '"' || c == '[' || c == ']' || c == '(' || c == ')' || c == '\n'

def tokensAux : List Char → List Char → List String → List String
  | [], cur, acc => (if cur.isEmpty then acc else String.ofList cur.reverse :: acc).reverse
  | c :: cs, cur, acc =>
    if isSep c then tokensAux cs [] (if cur.isEmpty then acc else String.ofList cur.reverse :: acc)
    else tokensAux cs (c :: cur) acc

def tokens (s : String) : List String := tokensAux s.toList [] []

/-- The two renderings differ, but only in the order of their tokens. -/
def D10_orderOnly (a b : String) : Bool := a != b && isPermOf (tokens a) (tokens b)

def hasSub (s pat : String) : Bool := (s.splitOn pat).length > 1

/-- The head of a rendered diagnostic: the text before ` (code: …)` (detail lines follow it). -/
def headOf (s : String) : String := (s.splitOn " (code: ").headD s

/-- The detail part of a rendered diagnostic (after the code). -/
def detailOf (s : String) : String := " (code: ".intercalate ((s.splitOn " (code: ").drop 1)

/-- Two renderings of a protocol incompatibility differ by member order only: the heads list the
same members in another order (or are equal), and the detail lines — which name the *first*
failing member of that order — are both protocol-member details (or equal). -/
def D10_protocolOrderOnly (a b : String) : Bool :=
  a != b && hasSub a "(Protocol with members" && hasSub b "(Protocol with members" &&
  (headOf a == headOf b || D10_orderOnly (headOf a) (headOf b)) &&
  (detailOf a == detailOf b ||
    ((hasSub (detailOf a) "Value of protocol member" || hasSub (detailOf a) "has no attribute") &&
     (hasSub (detailOf b) "Value of protocol member" || hasSub (detailOf b) "has no attribute")))

/-- The site class a purely order-related difference belongs to, by message template. `hint` is the
feature of the generated program the diagnostic stems from (`or`, `try`, `defnodes`, or empty). -/
def orderClass (hint a b : String) : String :=
  if D10_protocolOrderOnly a b then "protocolMembersOrder"
  else if !D10_orderOnly a b then "-"
  else if hasSub a "Got unexpected keyword arguments" then "joinExtraKwargs"
  else if hasSub a "No value specified for keys" then "joinKeysLeft"
  else if hint == "or" then "orConstraintOrder"
  else if hint == "try" then "tryDefNodeOrder"
  else if hint == "defnodes" then "defNodeSetOrder"
  else "-"

/-! ## History -/

/-- Structural meaning of protocol compatibility in mode `ex`, by direct recursion (no cache, no
guard). The fuel bounds the nesting depth; for well-founded worlds the value is stable once the
fuel exceeds the rank (`Proofs/C10.lean`, `sem_stable`). -/
def sem (W : World) (ex : Bool) : Nat → Pid → Nat → Vid → Bool
  | 0, _, _, _ => false
  | n + 1, p, a, v =>
    (W.req p a v).all fun m => m.all fun atm =>
      match atm with
      | .const b => b
      | .anyOk => !ex
      | .sub p' a' v' => sem W ex n p' a' v'

/-- A rank on (protocol, TypeObject) pairs. -/
abbrev Rank := Pid → Nat → Nat

def rankOf (rk : List ((Pid × Nat) × Nat)) : Rank := fun p t => (rk.lookup (p, t)).getD 0

/-- Every nested check listed in the world goes to a pair of strictly smaller rank: the recursion
guard can never fire. -/
def rankOK (W : World) (rk : Rank) : Bool :=
  W.reqs.all fun e => e.2.all fun m => m.all fun atm =>
    match atm with
    | .sub p' _ v' => decide (rk p' (W.tobj v') < rk e.1.1 (W.tobj e.1.2.2))
    | _ => true

/-- Exception class: the protocols of the world are recursive w.r.t. the given rank. -/
def D10_cyclic (W : World) (rk : Rank) : Bool := !rankOK W rk

/-- Exception class: the history (with the query) mixes the two modes. -/
def D10_modeMix (h : List Query) (q : Query) : Bool := h.any fun q' => q'.ex != q.ex

/-- No listed pair and no nested check of the world uses generic arguments other than variant 0. -/
def worldNoArgs (W : World) : Bool :=
  W.reqs.all fun e => e.1.2.1 == 0 && e.2.all fun m => m.all fun atm =>
    match atm with
    | .sub _ a' _ => a' == 0
    | _ => true

/-- Exception class: some protocol is used with generic arguments other than variant 0, in a query
or in a nested check of the world (the positive cache does not tell the variants apart). -/
def D10_selfArgs (W : World) (h : List Query) (q : Query) : Bool :=
  (q :: h).any (fun q' => q'.a != 0) || !worldNoArgs W

/-- The fuel exceeds the rank of every top-level query (Python has no fuel: it recurses until the
guard fires, which for well-founded worlds is after at most `rank` nested calls). -/
def fuelOK (W : World) (rk : Rank) (fuel : Nat) (qs : List Query) : Bool :=
  qs.all fun q => decide (rk q.p (W.tobj q.v) < fuel)

/-- One step of the structural-compatibility operator over the listed pairs. -/
def gfpStep (W : World) (ex : Bool) (s : List (Pid × Nat × Vid)) : List (Pid × Nat × Vid) :=
  s.filter fun pv =>
    (W.req pv.1 pv.2.1 pv.2.2).all fun m => m.all fun atm =>
      match atm with
      | .const b => b
      | .anyOk => !ex
      | .sub p' a' v' => s.contains (p', a', v')

def iter {α : Type} (f : α → α) : Nat → α → α
  | 0, x => x
  | n + 1, x => iter f n (f x)

/-- Greatest fixed point of `gfpStep` below the set of listed pairs (Kleene iteration from the top;
`reqs.length` rounds suffice because every non-stationary round removes a pair). -/
def gfpCompat (W : World) (ex : Bool) : List (Pid × Nat × Vid) :=
  iter (gfpStep W ex) W.reqs.length (W.reqs.map (·.1))

/-- The class of a history dependence `(h, q)` in world `W`, or `-`. -/
def historyClass (W : World) (rk : Rank) (fuel : Nat) (h : List Query) (q : Query) : String :=
  let fresh := answerFresh W fuel q
  if answerAfter W fuel h q == fresh then "-"
  else if D10_modeMix h q && answerAfter2 W true false false fuel h q == fresh then "cacheIgnoresMode"
  else if D10_selfArgs W h q && answerAfter2 W false true false fuel h q == fresh then "protoCacheKey"
  else if D10_cyclic W rk && answerAfter2 W false false true fuel h q == fresh then
    "cacheUnderFailedAssumption"
  else if (D10_modeMix h q || D10_selfArgs W h q || D10_cyclic W rk)
      && answerAfter2 W true true true fuel h q == fresh then "cacheSeveralCauses"
  else "-"

end Pya.C10
