import PyaModel.Core.Call
import PyaModel.Spec.CpyBind
import PyaModel.Spec.WF
/-!
# Spec/CallSpec — what a literal call does under CPython, and what C06 demands of its check

Independent of pyanalyze's binder and of `can_assign`:

* `SSig` — an annotated `def` header in the shape every Python `def` has (positional-only,
  positional-or-keyword, optional `*args: T`, keyword-only, optional `**kw: T`), the declared return
  type and the declarations (bound / constraints) of its type variables;
* `cpyLand s c` — **which argument lands on which parameter** when CPython binds the literal call
  `c` (positional slots left to right, the rest into `*args`; every keyword into the
  positional-or-keyword / keyword-only slot of its name, the rest into `**kw`; unfilled slots take
  their default): exactly the callee's `locals()` on entry. Validated against real calls by the C06
  harness (stream `spec-land`);
* `landedOk tbl l T` — every argument object that landed belongs to the declared type (`mem`,
  Spec/Mem.lean); a default is not an argument; `specDiag` — some landed argument does not belong;
* `Tmpl` / `runTmpl` — the template bodies of the result clause and the object they return;
* the decidable side conditions of the theorems (`sideOk`: C03's well-formedness conditions and
  exception classes for every (declared type, landed argument) pair) and the exception class
  `D06_equalLiteralArgs` of C06 itself.
-/
namespace Pya.C06

structure SP where
  name : String
  dflt : Option Obj
  ann : Ty
  deriving Inhabited

structure SSig where
  po : List SP
  pk : List SP
  vp : Option (String × Ty)
  ko : List SP
  vk : Option (String × Ty)
  ret : Ty
  tvs : TvDecls := []
  deriving Inhabited

def SP.toP (p : SP) : P := ⟨p.name, p.dflt.isSome⟩

/-- the header without annotations: what C05's `cpyBind` and `DefSig.WF` speak about -/
def SSig.defSig (s : SSig) : DefSig :=
  { po := s.po.map SP.toP, pk := s.pk.map SP.toP, vp := s.vp.map (·.1),
    ko := s.ko.map SP.toP, vk := s.vk.map (·.1) }

def SP.toA (k : Kind) (p : SP) : AParam := ⟨p.name, k, p.dflt, p.ann⟩

def SSig.aparams (s : SSig) : List AParam :=
  s.po.map (SP.toA .posOnly) ++ s.pk.map (SP.toA .posOrKw) ++
  (s.vp.toList.map fun nt => ⟨nt.1, .varPos, none, nt.2⟩) ++
  s.ko.map (SP.toA .kwOnly) ++
  (s.vk.toList.map fun nt => ⟨nt.1, .varKw, none, nt.2⟩)

/-- the `Signature` pyanalyze derives from the header -/
def SSig.asig (s : SSig) : ASig := { params := s.aparams, ret := s.ret, tvs := s.tvs }

def SSig.generic (s : SSig) : Bool := !s.asig.allTvs.isEmpty

def LCall.kwNames (c : LCall) : List String := c.kws.map (·.1)
def LCall.ccall (c : LCall) : CCall := ⟨c.pos.length, c.kwNames⟩

/-! ### landing -/

inductive Landed where
  | one (o : Obj)                       -- a single argument
  | star (os : List Obj)                -- the tuple collected by `*args`
  | dstar (kvs : List (String × Obj))   -- the dict collected by `**kw`
  | dflt                                -- not supplied: the parameter holds its default
  deriving Inhabited

/-- a parameter on entry to the callee: declared type as written, default, what it received -/
structure Slot where
  name : String
  ann : Ty
  dflt : Option Obj
  got : Landed
  deriving Inhabited

def landSeg (c : LCall) (byKw : Bool) : Nat → List SP → List Slot
  | _, [] => []
  | off, p :: ps =>
    { name := p.name, ann := p.ann, dflt := p.dflt,
      got := if off < c.pos.length then .one (c.pos.getD off .none)
        else if byKw then (match lookupKw c.kws p.name with | some o => .one o | none => .dflt)
        else .dflt } :: landSeg c byKw (off + 1) ps

def landKo (c : LCall) (ps : List SP) : List Slot :=
  ps.map fun p =>
    { name := p.name, ann := p.ann, dflt := p.dflt,
      got := match lookupKw c.kws p.name with | some o => .one o | none => .dflt }

/-- names a keyword argument can fill directly -/
def SSig.kwSlotNames (s : SSig) : List String := (s.pk ++ s.ko).map (·.name)

def cpyLand (s : SSig) (c : LCall) : List Slot :=
  landSeg c false 0 s.po ++ landSeg c true s.po.length s.pk ++
  (s.vp.toList.map fun nt =>
    { name := nt.1, ann := nt.2, dflt := none, got := .star (c.pos.drop (s.po.length + s.pk.length)) }) ++
  landKo c s.ko ++
  (s.vk.toList.map fun nt =>
    { name := nt.1, ann := nt.2, dflt := none,
      got := .dstar (c.kws.filter fun kv => !(s.kwSlotNames.contains kv.1)) })

/-- the argument objects a slot received -/
def Landed.objs : Landed → List Obj
  | .one o => [o]
  | .star os => os
  | .dstar kvs => kvs.map (·.2)
  | .dflt => []

/-- every argument that landed in the slot belongs to the type `t` -/
def landedOk (tbl : ClassTable) (l : Landed) (t : Ty) : Bool := l.objs.all fun o => mem tbl o t

/-- **the right-hand side of C06's first clause**: some statically known argument value does not
belong to the declared type of the parameter it binds to -/
def specDiag (tbl : ClassTable) (s : SSig) (c : LCall) : Bool :=
  (cpyLand s c).any fun sl => !landedOk tbl sl.got sl.ann

/-- third clause: every landed argument belongs to the declared type with the solution substituted -/
def specAccepts (tbl : ClassTable) (sol : TvMap) (s : SSig) (c : LCall) : Bool :=
  (cpyLand s c).all fun sl => landedOk tbl sl.got (applySol sol sl.ann)

/-! ### template bodies (result clause) -/

inductive Tmpl where
  | retParam (p : String)     -- `return p`
  | retElem (p : String)      -- `return p[0]`  (`p` a list / tuple parameter, or `*args`)
  | retConst (k : Obj)        -- `return <literal>`
  deriving Inhabited

/-- the object a slot holds on entry -/
def Slot.obj (sl : Slot) : Option Obj :=
  match sl.got with
  | .one o => some o
  | .star os => some (.tuple os)
  | .dstar kvs => some (.dict (kvs.map fun kv => .str kv.1) (kvs.map (·.2)))
  | .dflt => sl.dflt

def findSlot (ls : List Slot) (p : String) : Option Slot := ls.find? (·.name == p)

/-- the value the body returns (`none`: it raises, or the template does not apply) -/
def runTmpl (s : SSig) (c : LCall) : Tmpl → Option Obj
  | .retParam p => (findSlot (cpyLand s c) p).bind Slot.obj
  | .retElem p =>
    match (findSlot (cpyLand s c) p).bind Slot.obj with
    | some (.list (x :: _)) => some x
    | some (.tuple (x :: _)) => some x
    | _ => none
  | .retConst k => some k

/-- the declared type of the parameter as the body sees it (`*args: T` is a `tuple[T, ...]`,
`**kw: T` a `dict[str, T]`) -/
def Slot.declTy (sl : Slot) : Ty :=
  match sl.got with
  | .star _ => .generic C.tuple [sl.ann]
  | .dstar _ => .generic C.dict [.typed C.str, sl.ann]
  | _ => sl.ann

def elemTy : Ty → Option Ty
  | .generic c [t] => if c == C.list || c == C.tuple then some t else none
  | _ => none

/-- the return annotation that makes the template body well typed (`retConst`: any type containing
the constant, supplied by the caller) -/
def Tmpl.retTy (s : SSig) (c : LCall) : Tmpl → Option Ty
  | .retParam p => (findSlot (cpyLand s c) p).map Slot.declTy
  | .retElem p => ((findSlot (cpyLand s c) p).map Slot.declTy).bind elemTy
  | .retConst _ => none

/-- every default that is actually used belongs to the declared type of its parameter (with the
solution substituted): the function itself is well typed. pyanalyze reports an ill-typed default at
the `def` (`incompatible_default`), never at the call. -/
def usedDefaultsOk (tbl : ClassTable) (sol : TvMap) (s : SSig) (c : LCall) : Bool :=
  (cpyLand s c).all fun sl =>
    match sl.got, sl.dflt with
    | .dflt, some d => mem tbl d (applySol sol sl.ann)
    | _, _ => true

/-! ### side conditions and exception classes -/

/-- C03's hypotheses for one (declared type, object) pair -/
def pairOk (tbl : ClassTable) (t : Ty) (o : Obj) : Bool :=
  t.wf tbl && o.wf tbl && !t.hasMany && !o.hasFset && !strVsGeneric t o && !protoClassObj tbl t o

/-- two arguments collected by the same `*args` / `**kw` are equal as `KnownValue`s
(`type(a) is type(b) and a == b`, e.g. `(True,)` and `(1,)`) but only one of them belongs to `t`:
`unite_values` keeps the first and drops the other before the check. -/
def eqLitsIn (tbl : ClassTable) (os : List Obj) (t : Ty) : Bool :=
  os.any fun a => os.any fun b => Obj.same a b && (mem tbl a t != mem tbl b t)

/-- exception class `equalLiteralArgs` of C06 -/
def D06_equalLiteralArgs (tbl : ClassTable) (sol : TvMap) (s : SSig) (c : LCall) : Bool :=
  (cpyLand s c).any fun sl =>
    match sl.got with
    | .star os => eqLitsIn tbl os (applySol sol sl.ann)
    | .dstar kvs => eqLitsIn tbl (kvs.map (·.2)) (applySol sol sl.ann)
    | _ => false

/-- the side conditions of the first clause: C03's hypotheses for every landed pair, and the call is
outside `equalLiteralArgs` -/
def sideOk (tbl : ClassTable) (sol : TvMap) (s : SSig) (c : LCall) : Bool :=
  ((cpyLand s c).all fun sl => sl.got.objs.all fun o => pairOk tbl (applySol sol sl.ann) o) &&
  !D06_equalLiteralArgs tbl sol s c

/-- the table facts the call model relies on beyond `tableOk` (checked for the live table by
`decide`): `tuple` / `dict` seen as themselves pass their parameters through, `str` accepts `str`. -/
def callTableOk (tbl : ClassTable) : Bool :=
  (match tbl.gbase C.tuple C.tuple with | some [.param 0] => true | _ => false) &&
  (match tbl.gbase C.dict C.dict with | some [.param 0, .param 1] => true | _ => false) &&
  tbl.nominal false C.str C.str

/-- the classes a call falls in, as printed by the driver (C03's classes are inherited: an argument
or declared type in `variadicTuple` / `frozensetLiteral` / `protoClassObj` is that known class) -/
def d06Classes (tbl : ClassTable) (sol : TvMap) (s : SSig) (c : LCall) : List String :=
  let pairs := (cpyLand s c).flatMap fun sl => sl.got.objs.map fun o => (applySol sol sl.ann, o)
  (if pairs.any (fun p => p.1.hasMany) then ["variadicTuple"] else []) ++
  (if pairs.any (fun p => p.2.hasFset) then ["frozensetLiteral"] else []) ++
  (if pairs.any (fun p => protoClassObj tbl p.1 p.2) then ["protoClassObj"] else []) ++
  (if D06_equalLiteralArgs tbl sol s c then ["equalLiteralArgs"] else [])

/-! ### how an annotation is written (spelling) versus the type it denotes

The declared type of a parameter enters everything above as a `Ty`. In the source it can be written
in several ways; `Spell` lists the ones the harness generates, `Spell.resolve` is the type each
denotes. The model's verdict is a function of the resolved header only
(`Props/C06.lean: call_verdict_of_resolved`); the `spelling` stream of the harness ties the
implementation to that statement. -/

inductive Spell where
  | plain (t : Ty)            -- `Optional[A]`
  | quoted (t : Ty)           -- `"Optional[A]"`
  | partialQ (t : Ty)         -- `Optional["A"]`: every class name inside a construct quoted
  | late (t : Ty)             -- the names are defined after the function (forward references proper)
  | alias (n : Nat) (t : Ty)  -- `Alias = Optional["A"]`, annotation `Alias`
  | strTv (t : Ty)            -- type variables whose bound / constraints are given as strings
  | future (t : Ty)           -- `from __future__ import annotations`
  deriving Inhabited

def Spell.resolve : Spell → Ty
  | .plain t | .quoted t | .partialQ t | .late t | .alias _ t | .strTv t | .future t => t

structure SpelledP where
  name : String
  dflt : Option Obj
  ann : Spell

/-- a header as written -/
structure SpelledSig where
  po : List SpelledP
  pk : List SpelledP
  vp : Option (String × Spell)
  ko : List SpelledP
  vk : Option (String × Spell)
  ret : Spell
  tvs : TvDecls := []

def SpelledP.resolve (p : SpelledP) : SP := ⟨p.name, p.dflt, p.ann.resolve⟩

/-- the header the annotations denote -/
def SpelledSig.resolve (s : SpelledSig) : SSig :=
  { po := s.po.map SpelledP.resolve, pk := s.pk.map SpelledP.resolve,
    vp := s.vp.map fun nt => (nt.1, nt.2.resolve), ko := s.ko.map SpelledP.resolve,
    vk := s.vk.map fun nt => (nt.1, nt.2.resolve), ret := s.ret.resolve, tvs := s.tvs }

/-! ### where pyanalyze converts annotations of runtime signatures (arg_spec.py)

The registered sites: every `type_from_runtime(...)` call of arg_spec.py with the context it is
given, and every `AnnotationsContext(...)` construction with the globals it gets. The live lists are
regenerated from the source on every run (`Generated/AnnotCtx.lean`); `Props/C06.lean:
annotation_contexts_registered` demands that nothing unregistered appears and that the two sites
converting parameter and return annotations use a context carrying the function's globals (a
context without globals turns every embedded forward reference into `Any`). -/

def registeredTypeFromRuntime : List (String × String) :=
  [("ArgSpecCache._get_generic_bases_cached", "default"),        -- typeshed / runtime bases: no user names
   ("ArgSpecCache._get_type_for_parameter", "globals:func_globals"),
   ("ArgSpecCache._uncached_get_argspec", "default"),            -- NewType supertype
   ("ArgSpecCache._uncached_get_argspec", "none"),               -- a TypedDict class object
   ("ArgSpecCache.from_signature", "globals:func_globals")]

def registeredAnnotCtxCtors : List (String × String) :=
  [("ArgSpecCache.__init__", "noglobals"),                        -- `self.default_context`
   ("ArgSpecCache._get_type_for_parameter", "globals:func_globals"),
   ("ArgSpecCache.from_signature", "globals:func_globals")]

/-- the functions that convert the annotations of a signature -/
def signatureAnnotFns : List String :=
  ["ArgSpecCache._get_type_for_parameter", "ArgSpecCache.from_signature"]

def annotSitesOk (ctors calls : List (String × String)) : Bool :=
  calls.all (fun c => registeredTypeFromRuntime.contains c) &&
  ctors.all (fun c => registeredAnnotCtxCtors.contains c) &&
  -- every signature-annotation site is present and is given the function's globals, only
  signatureAnnotFns.all (fun f =>
    calls.any (fun c => c.1 == f) &&
    calls.all (fun c => c.1 != f || c.2 == "globals:func_globals"))

end Pya.C06
