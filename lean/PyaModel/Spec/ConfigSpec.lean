import PyaModel.Core.Options
/-!
# Spec/ConfigSpec — the documented precedence of configuration layers, as a specification

Written from the sentence of property C18, not from `options.py`:

> The effective value of every option for a module is the command-line value if given, otherwise
> the value from the most specific matching module override of the main configuration file,
> otherwise its top-level value, otherwise the same lookup in extended configuration files in order
> of inclusion, otherwise the default; list-valued options concatenate in that order. Unknown keys,
> wrong value types, nested overrides and recursive inclusion are rejected.

The spec reads the decoded TOML tables itself (`specRead`, `specSectionValue`, `specOverrides`); it
shares with the model only the data types, `lookupKey` and the registry.  `disable_all = true` in a
section means: every error code the section does not mention is set to `false` *in that section*.

The exception classes `D18_*` (decidable predicates on the input) are defined at the end.
-/
namespace Pya

/-- The spec's typing of option values: booleans for boolean options, integers (not booleans) for
integer options, arrays of strings for the two list kinds. -/
def specRead (k : OptKind) (v : TV) : Option Val :=
  match k, v with
  | .bool, .bool b => some (.bool b)
  | .int, .int n => some (.int n)
  | .strSeq, .arr xs => (allStr xs).map .strs
  | .pathSeq, .arr xs => (allStr xs).map .paths
  | _, _ => none

/-- The value one section (top level of a file, or one override) gives to option `d`. -/
def specSectionValue (d : OptDecl) (kvs : Table) : Option Val :=
  match lookupKey kvs d.name with
  | some v => specRead d.kind v
  | none =>
    match lookupKey kvs "disable_all" with
    | some (.bool true) => if d.isCode then some (.bool false) else none
    | _ => none

/-- An override that matches module path `mod` (its `module`, split at dots, is a prefix of `mod`)
and sets `d`: (specificity = number of components, value). -/
def overrideEntry (d : OptDecl) (mod : List String) (ov : TV) : Option (Nat × Val) :=
  match ov with
  | .tbl kvs =>
    match lookupKey kvs "module" with
    | some (.str m) =>
      let p := pySplit m
      if p.isPrefixOf mod then (specSectionValue d kvs).map (fun v => (p.length, v)) else none
    | _ => none
  | _ => none

def specOverrides (d : OptDecl) (body : Table) (mod : List String) : List (Nat × Val) :=
  match lookupKey body "overrides" with
  | some (.arr ovs) => ovs.filterMap (overrideEntry d mod)
  | _ => []

/-- The most specific entry; among equally specific ones the first in file order. -/
def mostSpecific : List (Nat × Val) → Option (Nat × Val)
  | [] => none
  | e :: r =>
    match mostSpecific r with
    | none => some e
    | some b => if e.1 < b.1 then some b else some e

/-- Entries ordered most specific first (file order among equally specific ones): the buckets of
specificity `n`, `n - 1`, …, `0`. -/
def bucketsDown (es : List (Nat × Val)) : Nat → List (Nat × Val)
  | 0 => es.filter (·.1 == 0)
  | n + 1 => es.filter (·.1 == n + 1) ++ bucketsDown es n

/-- "the most specific matching override of the file, otherwise its top-level value". -/
def specFileFirst (d : OptDecl) (mod : List String) (body : Table) : Option Val :=
  match mostSpecific (specOverrides d body mod) with
  | some e => some e.2
  | none => specSectionValue d body

/-- All values the file gives, in precedence order. -/
def specFileAll (d : OptDecl) (mod : List String) (body : Table) : List Val :=
  (bucketsDown (specOverrides d body mod) mod.length).map (·.2) ++ (specSectionValue d body).toList

def cliValue (cli : List (String × Val)) (n : String) : Option Val :=
  (cli.find? (·.1 == n)).map (·.2)

/-- First of: command line; for each file of the stack in inclusion order its most specific matching
override, then its top level; the default. -/
def specFirst (d : OptDecl) (cli : List (String × Val)) (stack : List Table) (mod : List String) : Val :=
  match cliValue cli d.name with
  | some v => v
  | none => (stack.findSome? (specFileFirst d mod)).getD d.dflt

/-- List-valued options: the concatenation in the same order, the default last (once). -/
def specConcatList (d : OptDecl) (cli : List (String × Val)) (stack : List Table) (mod : List String) :
    List String :=
  (match cliValue cli d.name with | some v => v.asStrs | none => []) ++
  stack.flatMap (fun b => (specFileAll d mod b).flatMap (·.asStrs)) ++ d.dflt.asStrs

def OptKind.isList : OptKind → Bool
  | .strSeq | .pathSeq => true
  | _ => false

/-- The effective value the property prescribes for a valid stack. -/
def specValue (d : OptDecl) (cli : List (String × Val)) (stack : List Table) (mod : List String) : Val :=
  match d.kind with
  | .strSeq => .strs (specConcatList d cli stack mod)
  | .pathSeq => .paths (specConcatList d cli stack mod)
  | _ => specFirst d cli stack mod

/-! ### Validity (what must be rejected) -/

def TV.isStr : TV → Bool | .str _ => true | _ => false
def TV.isBool : TV → Bool | .bool _ => true | _ => false

/-- A key/value of a section other than the structural keys: known option, well-typed value. -/
def specValidSetting (reg : Registry) (k : String) (v : TV) : Bool :=
  match reg.find k with
  | some d => (specRead d.kind v).isSome
  | none => false

/-- An element of `overrides`: a table with a string `module`, `disable_all` a boolean, every other
key a well-typed known option; no nested `overrides` (and no `extend_config`). -/
def specValidOverride (reg : Registry) (ov : TV) : Bool :=
  match ov with
  | .tbl kvs =>
    (match lookupKey kvs "module" with | some (.str _) => true | _ => false) &&
    kvs.all fun (k, v) =>
      if k == "module" then v.isStr
      else if k == "disable_all" then v.isBool
      else if k == "overrides" || k == "extend_config" then false
      else specValidSetting reg k v
  | _ => false

/-- The `tool.pyanalyze` table of one file. -/
def specValidBody (reg : Registry) (body : Table) : Bool :=
  body.all fun (k, v) =>
    if k == "module" then false
    else if k == "extend_config" then v.isStr
    else if k == "overrides" then (match v with | .arr ovs => ovs.all (specValidOverride reg) | _ => false)
    else if k == "disable_all" then v.isBool
    else specValidSetting reg k v

/-- The stack of files in inclusion order (main file first), `none` if a file does not exist, is
included recursively, or `extend_config` is not a string. -/
def specStack (fs : FS) : Nat → String → List String → Option (List Table)
  | 0, _, _ => none
  | fuel + 1, p, seen =>
    if seen.contains p then none else
    match fs.get p with
    | none => none
    | some body =>
      match lookupKey body "extend_config" with
      | none => some [body]
      | some (.str t) => (specStack fs fuel t (p :: seen)).map (body :: ·)
      | some _ => none

/-- The whole property as a function: `none` = the configuration must be rejected. -/
def specEffective (reg : Registry) (fs : FS) (main : String) (cli : List (String × Val))
    (d : OptDecl) (mod : List String) : Option Val :=
  match specStack fs (fs.length + 1) main [] with
  | none => none
  | some stack => if stack.all (specValidBody reg) then some (specValue d cli stack mod) else none

/-! ### Domain predicates (hypotheses of the theorems that are not about pyanalyze) -/

/-- The four keys `_parse_config_section` treats structurally. -/
def isStructural (k : String) : Bool :=
  k == "module" || k == "extend_config" || k == "overrides" || k == "disable_all"

/-- The registry is well-formed: distinct names, no option named like a structural key, error
codes are boolean options. Checked by `decide` on the regenerated live registry. -/
def Registry.wf (reg : Registry) : Bool :=
  decide (reg.map (·.name)).Nodup && decide reg.codes.Nodup &&
  reg.all (fun d => !isStructural d.name && (!d.isCode || d.kind == .bool))

/-- A decoded TOML table has distinct keys. -/
def keysNodup (t : Table) : Prop := (t.map (·.1)).Nodup

instance (t : Table) : Decidable (keysNodup t) := by unfold keysNodup; infer_instance

/-- Distinct keys in the `tool.pyanalyze` table and in every table of an array value (TOML
guarantees this for every table it decodes). -/
def tableNodup (body : Table) : Bool :=
  decide (keysNodup body) && body.all (fun kv =>
    match kv.2 with
    | .arr ovs => ovs.all (fun ov => match ov with | .tbl kvs => decide (keysNodup kvs) | _ => true)
    | _ => true)

/-! ### Exception classes (hypotheses of the `_partial` theorems in Props/C18.lean) -/

/-- The part of a file's top-level table written before / after its `extend_config` key. -/
def beforeExt : Table → Table
  | [] => []
  | kv :: r => if kv.1 == "extend_config" then [] else kv :: beforeExt r

def afterExt : Table → Table
  | [] => []
  | kv :: r => if kv.1 == "extend_config" then r else afterExt r

/-- Specificities of the applicable settings of `d` for `mod` contributed by one top-level item:
the option's own key (specificity 0) or the matching overrides. -/
def itemSpecs (d : OptDecl) (mod : List String) (kv : String × TV) : List Nat :=
  if kv.1 == "overrides" then
    (match kv.2 with
      | .arr ovs => (ovs.filterMap (overrideEntry d mod)).map (·.1)
      | _ => [])
  else if kv.1 == d.name then [0]
  else []

/-- The `False` that `disable_all = true` yields at top level (emitted after the loop, hence
always after the instances of the extended file). -/
def disableSpec (d : OptDecl) (body : Table) : List Nat :=
  match lookupKey body "disable_all" with
  | some (.bool true) =>
    (match lookupKey body d.name with
      | some (.bool true) => []
      | _ => if d.isCode then [0] else [])
  | _ => []

def specsBefore (d : OptDecl) (mod : List String) (body : Table) : List Nat :=
  (beforeExt body).flatMap (itemSpecs d mod)

def specsAfter (d : OptDecl) (mod : List String) (body : Table) : List Nat :=
  (afterExt body).flatMap (itemSpecs d mod) ++ disableSpec d body

def ownSpecs (d : OptDecl) (mod : List String) (body : Table) : List Nat :=
  specsBefore d mod body ++ specsAfter d mod body

def maxNat : List Nat → Option Nat
  | [] => none
  | x :: xs => match maxNat xs with
    | none => some x
    | some m => some (if x < m then m else x)

/-- Concatenated options: some applicable setting of a *later* file is strictly more specific than
one of an earlier file's applicable settings, or equally specific while the earlier file's setting
is written after its `extend_config` key (or comes from `disable_all`) — the concatenation order
then differs from the documented one. -/
def D18_lostPriorityOrder (d : OptDecl) (mod : List String) : List Table → Bool
  | [] => false
  | b :: rest =>
    let later := rest.flatMap (ownSpecs d mod)
    (specsBefore d mod b).any (fun e => later.any (fun r => decide (e < r))) ||
    (specsAfter d mod b).any (fun e => later.any (fun r => decide (e ≤ r))) ||
    D18_lostPriorityOrder d mod rest

/-- First-match options: for some file of the stack, the most specific applicable setting of the
*later* files is strictly more specific than the file's own most specific one, or equally specific
while none of the file's most specific settings is written before its `extend_config` key. -/
def D18_lostPriorityFirst (d : OptDecl) (mod : List String) : List Table → Bool
  | [] => false
  | b :: rest =>
    (match maxNat (ownSpecs d mod b), maxNat (rest.flatMap (ownSpecs d mod)) with
      | some o, some r => decide (o < r) || (r == o && !(specsBefore d mod b).contains o)
      | _, _ => false) || D18_lostPriorityFirst d mod rest

/-- Class `lostPriority` (site: options.py:428/:434 — the `priority` argument is not passed on to
the instances, so extended files are *not* ranked below the including file; pyanalyze then ranks a
later file's setting first whenever it is more specific, or equally specific and met earlier). -/
def D18_lostPriority (d : OptDecl) (mod : List String) (stack : List Table) : Bool :=
  if d.kind == .strSeq then D18_lostPriorityOrder d mod stack else D18_lostPriorityFirst d mod stack

/-- Class `concatDefaultTwice` (options.py:177 + :299): a concatenated option with a non-empty
default gets the default appended twice. -/
def D18_concatDefaultTwice (d : OptDecl) : Bool := d.kind == .strSeq && !d.dflt.asStrs.isEmpty

/-- Class `pathListNoConcat` (options.py:204): `PathSequenceOption` is list-valued but derives from
the plain `ConfigOption`, so the first applicable instance wins instead of concatenating. -/
def D18_pathListNoConcat (d : OptDecl) : Bool := d.kind == .pathSeq

def sectionBoolAsInt (reg : Registry) (kvs : Table) : Bool :=
  kvs.any fun (k, v) => match reg.find k with
    | some d => d.kind == .int && v.isBool
    | none => false

def sectionsOf (body : Table) : List Table :=
  body :: (match lookupKey body "overrides" with
    | some (.arr ovs) => ovs.filterMap (fun | .tbl kvs => some kvs | _ => none)
    | _ => [])

/-- Class `boolAsInt` (options.py:150): an integer option is given a TOML boolean. -/
def D18_boolAsInt (reg : Registry) (stack : List Table) : Bool :=
  stack.any fun b => (sectionsOf b).any (sectionBoolAsInt reg)

/-- Class `disableAllNotBool` (options.py:420): `disable_all` is given a non-boolean value. -/
def D18_disableAllNotBool (stack : List Table) : Bool :=
  stack.any fun b => (sectionsOf b).any fun kvs =>
    match lookupKey kvs "disable_all" with
    | some v => !v.isBool
    | none => false

end Pya
