import PyaModel.Core.Options
/-!
# Spec/ConfigSpec — the documented precedence of configuration layers, as a specification

Written from the sentence of property C18, not from `options.py`:

> The effective value of every option for a module is the command-line value if given, otherwise
> the value from the most specific matching module override of the main configuration file,
> otherwise its top-level value, otherwise the same lookup in extended configuration files in order
> of inclusion, otherwise the default; list-valued options concatenate in that order. Unknown keys,
> wrong value types, nested overrides and recursive inclusion are rejected.

The spec reads the decoded TOML tables itself (`specRead`, `specSectionValue`, `specOverrides`); it
shares with the model only the data types, `lookupKey` and the registry.  `disable_all = true` in a
section means: every error code the section does not mention is set to `false` *in that section*.

The remaining exception class `D18_pathListNoConcat` is defined at the end.
-/
namespace Pya.C18

/-- The spec's typing of option values: booleans for boolean options, integers (not booleans) for
integer options, arrays of strings for the two list kinds. -/
def specRead (k : OptKind) (v : TV) : Option Val :=
  match k, v with
  | .bool, .bool b => some (.bool b)
  | .int, .int n => some (.int n)
  | .strSeq, .arr xs => (allStr xs).map .strs
  | .pathSeq, .arr xs => (allStr xs).map .paths
  | _, _ => none

/-- The value one section (top level of a file, or one override) gives to option `d`. -/
def specSectionValue (d : OptDecl) (kvs : Table) : Option Val :=
  match lookupKey kvs d.name with
  | some v => specRead d.kind v
  | none =>
    match lookupKey kvs "disable_all" with
    | some (.bool true) => if d.isCode then some (.bool false) else none
    | _ => none

/-- An override that matches module path `mod` (its `module`, split at dots, is a prefix of `mod`)
and sets `d`: (specificity = number of components, value). -/
def overrideEntry (d : OptDecl) (mod : List String) (ov : TV) : Option (Nat × Val) :=
  match ov with
  | .tbl kvs =>
    match lookupKey kvs "module" with
    | some (.str m) =>
      let p := pySplit m
      if p.isPrefixOf mod then (specSectionValue d kvs).map (fun v => (p.length, v)) else none
    | _ => none
  | _ => none

def specOverrides (d : OptDecl) (body : Table) (mod : List String) : List (Nat × Val) :=
  match lookupKey body "overrides" with
  | some (.arr ovs) => ovs.filterMap (overrideEntry d mod)
  | _ => []

/-- The most specific entry; among equally specific ones the first in file order. -/
def mostSpecific : List (Nat × Val) → Option (Nat × Val)
  | [] => none
  | e :: r =>
    match mostSpecific r with
    | none => some e
    | some b => if e.1 < b.1 then some b else some e

/-- Entries ordered most specific first (file order among equally specific ones): the buckets of
specificity `n`, `n - 1`, …, `0`. -/
def bucketsDown (es : List (Nat × Val)) : Nat → List (Nat × Val)
  | 0 => es.filter (·.1 == 0)
  | n + 1 => es.filter (·.1 == n + 1) ++ bucketsDown es n

/-- "the most specific matching override of the file, otherwise its top-level value". -/
def specFileFirst (d : OptDecl) (mod : List String) (body : Table) : Option Val :=
  match mostSpecific (specOverrides d body mod) with
  | some e => some e.2
  | none => specSectionValue d body

/-- All values the file gives, in precedence order. -/
def specFileAll (d : OptDecl) (mod : List String) (body : Table) : List Val :=
  (bucketsDown (specOverrides d body mod) mod.length).map (·.2) ++ (specSectionValue d body).toList

def cliValue (cli : List (String × Val)) (n : String) : Option Val :=
  (cli.find? (·.1 == n)).map (·.2)

/-- First of: command line; for each file of the stack in inclusion order its most specific matching
override, then its top level; the default. -/
def specFirst (d : OptDecl) (cli : List (String × Val)) (stack : List Table) (mod : List String) : Val :=
  match cliValue cli d.name with
  | some v => v
  | none => (stack.findSome? (specFileFirst d mod)).getD d.dflt

/-- List-valued options: the concatenation in the same order, the default last (once). -/
def specConcatList (d : OptDecl) (cli : List (String × Val)) (stack : List Table) (mod : List String) :
    List String :=
  (match cliValue cli d.name with | some v => v.asStrs | none => []) ++
  stack.flatMap (fun b => (specFileAll d mod b).flatMap (·.asStrs)) ++ d.dflt.asStrs

def OptKind.isList : OptKind → Bool
  | .strSeq | .pathSeq => true
  | _ => false

/-- The effective value the property prescribes for a valid stack. -/
def specValue (d : OptDecl) (cli : List (String × Val)) (stack : List Table) (mod : List String) : Val :=
  match d.kind with
  | .strSeq => .strs (specConcatList d cli stack mod)
  | .pathSeq => .paths (specConcatList d cli stack mod)
  | _ => specFirst d cli stack mod

/-! ### Validity (what must be rejected) -/

def TV.isStr : TV → Bool | .str _ => true | _ => false
def TV.isBool : TV → Bool | .bool _ => true | _ => false

/-- A key/value of a section other than the structural keys: known option, well-typed value. -/
def specValidSetting (reg : Registry) (k : String) (v : TV) : Bool :=
  match reg.find k with
  | some d => (specRead d.kind v).isSome
  | none => false

/-- An element of `overrides`: a table with a string `module`, `disable_all` a boolean, every other
key a well-typed known option; no nested `overrides` (and no `extend_config`). -/
def specValidOverride (reg : Registry) (ov : TV) : Bool :=
  match ov with
  | .tbl kvs =>
    (match lookupKey kvs "module" with | some (.str _) => true | _ => false) &&
    kvs.all fun (k, v) =>
      if k == "module" then v.isStr
      else if k == "disable_all" then v.isBool
      else if k == "overrides" || k == "extend_config" then false
      else specValidSetting reg k v
  | _ => false

/-- The `tool.pyanalyze` table of one file. -/
def specValidBody (reg : Registry) (body : Table) : Bool :=
  body.all fun (k, v) =>
    if k == "module" then false
    else if k == "extend_config" then v.isStr
    else if k == "overrides" then (match v with | .arr ovs => ovs.all (specValidOverride reg) | _ => false)
    else if k == "disable_all" then v.isBool
    else specValidSetting reg k v

/-- The stack of files in inclusion order (main file first), `none` if a file does not exist, is
included recursively, or `extend_config` is not a string. -/
def specStack (fs : FS) : Nat → String → List String → Option (List Table)
  | 0, _, _ => none
  | fuel + 1, p, seen =>
    if seen.contains p then none else
    match fs.get p with
    | none => none
    | some body =>
      match lookupKey body "extend_config" with
      | none => some [body]
      | some (.str t) => (specStack fs fuel t (p :: seen)).map (body :: ·)
      | some _ => none

/-- The whole property as a function: `none` = the configuration must be rejected. -/
def specEffective (reg : Registry) (fs : FS) (main : String) (cli : List (String × Val))
    (d : OptDecl) (mod : List String) : Option Val :=
  match specStack fs (fs.length + 1) main [] with
  | none => none
  | some stack => if stack.all (specValidBody reg) then some (specValue d cli stack mod) else none

/-! ### Domain predicates (hypotheses of the theorems that are not about pyanalyze) -/

/-- The four keys `_parse_config_section` treats structurally. -/
def isStructural (k : String) : Bool :=
  k == "module" || k == "extend_config" || k == "overrides" || k == "disable_all"

/-- The registry is well-formed: distinct names, no option named like a structural key, error
codes are boolean options. Checked by `decide` on the regenerated live registry. -/
def Registry.wf (reg : Registry) : Bool :=
  decide (reg.map (·.name)).Nodup && decide reg.codes.Nodup &&
  reg.all (fun d => !isStructural d.name && (!d.isCode || d.kind == .bool))

/-- A decoded TOML table has distinct keys. -/
def keysNodup (t : Table) : Prop := (t.map (·.1)).Nodup

instance (t : Table) : Decidable (keysNodup t) := by unfold keysNodup; infer_instance

/-- Distinct keys in the `tool.pyanalyze` table and in every table of an array value (TOML
guarantees this for every table it decodes). -/
def tableNodup (body : Table) : Bool :=
  decide (keysNodup body) && body.all (fun kv =>
    match kv.2 with
    | .arr ovs => ovs.all (fun ov => match ov with | .tbl kvs => decide (keysNodup kvs) | _ => true)
    | _ => true)

/-- The sections of a file: its top-level table and the tables of its `overrides` array. -/
def sectionsOf (body : Table) : List Table :=
  body :: (match lookupKey body "overrides" with
    | some (.arr ovs) => ovs.filterMap (fun | .tbl kvs => some kvs | _ => none)
    | _ => [])

/-- Domain predicate: some override table of the stack contains an `extend_config` key. The
property quantifies over files "each with top-level settings and overrides"; pyanalyze accepts the
key there, the spec does not speak about it. -/
def extendInOverride (stack : List Table) : Bool :=
  stack.any fun b => (sectionsOf b).tail.any (fun kvs => kvs.any (·.1 == "extend_config"))

/-! ### The kinds of bad input the property names -/

/-- One section shows an unknown key, a wrongly typed value (of an option or of `disable_all`), or
— inside an override — a nested `overrides`. -/
def sectionDefect (reg : Registry) (inOverride : Bool) (kvs : Table) : Bool :=
  kvs.any fun kv =>
    (!isStructural kv.1 && !specValidSetting reg kv.1 kv.2) ||
    (kv.1 == "disable_all" && !kv.2.isBool) ||
    (inOverride && kv.1 == "overrides")

/-- A file shows one of these defects at top level or in a table of an `overrides` array, or its
`overrides` value is not an array of tables. (Recursive inclusion, a missing file and a non-string
`extend_config` are `specStack … = none`.) -/
def namedDefect (reg : Registry) (body : Table) : Bool :=
  sectionDefect reg false body ||
  body.any fun kv => kv.1 == "overrides" &&
    (match kv.2 with
      | .arr ovs => ovs.any (fun ov => match ov with | .tbl kvs => sectionDefect reg true kvs | _ => true)
      | _ => true)

/-! ### Exception class (hypothesis of the `_partial` theorem in Props/C18.lean) -/

/-- Class `pathListNoConcat` (options.py `PathSequenceOption` derives from the plain
`ConfigOption`): a path-list option is list-valued but the first applicable instance wins instead
of concatenating. The only class left after the fix commits 67f91cf, 7e56ba6, df9545b, 4427783. -/
def D18_pathListNoConcat (d : OptDecl) : Bool := d.kind == .pathSeq

end Pya.C18
