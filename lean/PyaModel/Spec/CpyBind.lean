import PyaModel.Core.Sig
/-!
# Spec/CpyBind — CPython's argument binding, as a specification

`DefSig` is the shape every Python `def` header has (positional-only, then
positional-or-keyword, optional `*args`, keyword-only, optional `**kwargs`).
`cpyBind` follows the interpreter (`_PyEval_MakeFrameVector` / `initialize_locals`):
positional slots are filled left to right, overflow goes to `*args` or fails;
each keyword goes to the positional-or-keyword / keyword-only slot of that name
(failing if the slot is already filled) and otherwise to `**kwargs` or fails
(this covers positional-only names passed by keyword); finally every slot
without a default must be filled.  It is validated against real calls by the
C05 correspondence harness (stream `spec`).
-/
namespace Pya

structure P where
  name : String
  dflt : Bool
  deriving DecidableEq, Repr, Inhabited

structure DefSig where
  po : List P
  pk : List P
  vp : Option String
  ko : List P
  vk : Option String
  deriving Repr, Inhabited

def P.toParam (k : Kind) (p : P) : Param := ⟨p.name, k, p.dflt⟩

def DefSig.params (s : DefSig) : List Param :=
  s.po.map (P.toParam .posOnly) ++ s.pk.map (P.toParam .posOrKw) ++
  (s.vp.toList.map fun n => ⟨n, .varPos, false⟩) ++
  s.ko.map (P.toParam .kwOnly) ++
  (s.vk.toList.map fun n => ⟨n, .varKw, false⟩)

def DefSig.names (s : DefSig) : List String := s.params.map (·.name)

/-- Well-formed: parameter names are pairwise distinct (a `def` with a
duplicate name is a SyntaxError). -/
def DefSig.WF (s : DefSig) : Prop := s.names.Nodup

/-- A fully concrete call: `npos` positional arguments and the keyword names
(after `*`/`**` unpacking). -/
structure CCall where
  npos : Nat
  kws : List String
  deriving Repr, Inhabited

/-- Where keyword `k` lands among the positional-or-keyword parameters
(`some i` = absolute positional slot). -/
def pkSlot (off : Nat) : List P → String → Option Nat
  | [], _ => none
  | p :: ps, k => if p.name == k then some off else pkSlot (off + 1) ps k

/-- Keyword acceptance: CPython's keyword loop for one keyword. -/
def kwAccepted (s : DefSig) (npos : Nat) (k : String) : Bool :=
  match pkSlot s.po.length s.pk k with
  | some i => !(decide (i < npos))                -- "got multiple values for argument"
  | none => s.ko.any (·.name == k) || s.vk.isSome  -- else "unexpected keyword argument"

/-- Required-slot check for the positional parameters, `off` = absolute slot. -/
def posFilled (npos : Nat) (kws : List String) (byKw : Bool) : Nat → List P → Bool
  | _, [] => true
  | off, p :: ps =>
    (decide (off < npos) || (byKw && kws.contains p.name) || p.dflt) &&
      posFilled npos kws byKw (off + 1) ps

/-- `true` iff the call binds (no TypeError). Duplicate keyword names (possible
only through `**` unpacking) are a TypeError. -/
def cpyBind (s : DefSig) (c : CCall) : Bool :=
  decide c.kws.Nodup &&
  (decide (c.npos ≤ s.po.length + s.pk.length) || s.vp.isSome) &&
  c.kws.all (kwAccepted s c.npos) &&
  posFilled c.npos c.kws false 0 s.po &&
  posFilled c.npos c.kws true s.po.length s.pk &&
  s.ko.all (fun p => c.kws.contains p.name || p.dflt)

/-- Exception class of C05's star-argument clause (known finding `starThenKw`):
`*args` of unknown length is present and some keyword names a positional-or-keyword
parameter whose slot lies strictly after the first slot `*args` would fill. pyanalyze
rejects such calls ("may be filled from both *args and a keyword argument") although an
expansion of the right length binds. -/
def D05_starThenKw (sig : List Param) (a : Actual) : Bool :=
  let pos := sig.filter fun p => p.kind == .posOnly || p.kind == .posOrKw
  a.starArgs &&
    (pos.zipIdx.any fun (p, i) => p.kind == .posOrKw && decide (a.pos.length < i) && a.hasKw p.name)

end Pya
