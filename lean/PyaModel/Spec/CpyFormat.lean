import PyaModel.Core.Format
/-!
# Spec/CpyFormat — CPython's `%` formatter and `str.format`, as a specification

Granularity: *raises (any exception) or not; type of the result*.

`%` (str: `Objects/unicodeobject.c` `PyUnicode_Format` / `unicode_format_arg_parse` /
`unicode_format_arg_format`; bytes: `Objects/bytesobject.c` `_PyBytes_FormatEx`), CPython 3.12:
* `cpyTok`: the directive grammar — `%%` immediately after `%` is a literal; otherwise optional
  `(key)` with *nested parenthesis counting* (empty key allowed), flags `-+ #0`, width `*`|digits,
  `.` followed by `*`|digits|nothing (precision 0), one of `hlL`, then any character as the
  conversion; running out of text is "incomplete format (key)";
* `cpyRun`: argument consumption (`getnextarg`: a tuple is consumed element by element, any
  other object is the single argument; `ctx.dict` is set for every non-tuple, non-str object with
  `mp_subscript` — dict, list, bytes (not for bytes templates)), `(key)` lookups, `*` wants an
  int, width > `PY_SSIZE_T_MAX` / precision > `INT_MAX` are ValueErrors, per-conversion operand
  requirements, unsupported conversion characters (including `%` after any option), and the
  final "not all arguments converted" check (skipped when `ctx.dict` is set).
Raising is order-independent ("some step raises"), so tokenising first and running afterwards
gives the same raise/no-raise verdict as the interleaved C code.

`str.format` (`Objects/stringlib/unicode_format.h`): `MarkupIterator_next`, `parse_field`,
`field_name_split` (auto/manual numbering state), `get_field_object` (first lookup only),
`do_conversion`, recursive expansion of format specs with `recursion_depth = 2`.
Value-level operations — attribute / index lookups along the field path, `format(obj, spec)` —
are assumed to succeed: templates containing them are exception classes (`D17_fmtPath`,
`D17_fmtSpec`).

Both are validated against the real operators on every run (stream `spec`).
The exception-class predicates `D17_*` live at the end of this file.
-/
namespace Pya.C17

/-! ## `%` — tokeniser -/

/-- A parsed `%` directive (not `%%`). `wNum`/`pNum` are 0 when absent. -/
structure Dir where
  key : Option (List Char)
  wStar : Bool
  wNum : Nat
  pStar : Bool
  pNum : Nat
  conv : Char
  deriving DecidableEq, Repr, Inhabited

/-- The `(key)` loop with `pcount`: text after `(` → key and the text after the closing
parenthesis; `none` = "incomplete format key". -/
def cpyKeyAux : Nat → List Char → Option (List Char × List Char)
  | _, [] => none
  | depth, c :: r =>
    if c == ')' then
      match depth with
      | 0 => some ([], r)
      | d + 1 => (cpyKeyAux d r).map fun (k, rest) => (c :: k, rest)
    else if c == '(' then (cpyKeyAux (depth + 1) r).map fun (k, rest) => (c :: k, rest)
    else (cpyKeyAux depth r).map fun (k, rest) => (c :: k, rest)

def cpyKey (r : List Char) : Option (Option (List Char) × List Char) :=
  match r with
  | '(' :: r' => (cpyKeyAux 0 r').map fun (k, rest) => (some k, rest)
  | _ => some (none, r)

def cpyIsFlag (c : Char) : Bool := c == '-' || c == '+' || c == ' ' || c == '#' || c == '0'

/-- width: `*` | digits | nothing → (star?, number, rest) -/
def cpyWidth (r : List Char) : Bool × Nat × List Char :=
  match r with
  | '*' :: r' => (true, 0, r')
  | _ => (false, numOf (takeWhileC Char.isDigit r), dropWhileC Char.isDigit r)

/-- precision: `.` then `*` | digits | nothing (= precision 0). -/
def cpyPrec (r : List Char) : Bool × Nat × List Char :=
  match r with
  | '.' :: '*' :: r' => (true, 0, r')
  | '.' :: r' => (false, numOf (takeWhileC Char.isDigit r'), dropWhileC Char.isDigit r')
  | _ => (false, 0, r)

def cpyLen (r : List Char) : List Char :=
  match r with
  | c :: r' => if c == 'h' || c == 'l' || c == 'L' then r' else r
  | [] => []

/-- After the key: flags, width, precision, length modifier, then any character as conversion. -/
def cpyTail (key : Option (List Char)) (r1 : List Char) : Option (Dir × List Char) :=
  let w := cpyWidth (dropWhileC cpyIsFlag r1)
  let p := cpyPrec w.2.2
  match cpyLen p.2.2 with
  | c :: rest => some (⟨key, w.1, w.2.1, p.1, p.2.1, c⟩, rest)
  | [] => none                                   -- "incomplete format"

/-- One directive, text after the `%` (which is not followed by `%`). Result: the directive and
the text after it; `none` = ValueError (incomplete format / format key). -/
def cpyDirAt (r : List Char) : Option (Dir × List Char) :=
  match cpyKey r with
  | none => none
  | some (key, r1) => cpyTail key r1

/-- All directives of a template, `none` = the template itself is malformed. `skip`: characters
still belonging to the previous directive. -/
def cpyTokAux : Nat → List Char → Option (List Dir)
  | _, [] => some []
  | k + 1, _ :: r => cpyTokAux k r
  | 0, c :: r =>
    if c == '%' then
      match r with
      | '%' :: _ => cpyTokAux 1 r
      | _ =>
        match cpyDirAt r with
        | some (d, rest) => (cpyTokAux (r.length - rest.length) r).map (d :: ·)
        | none => none
    else cpyTokAux 0 r

def cpyTok (t : List Char) : Option (List Dir) := cpyTokAux 0 t

/-! ## `%` — running the directives against the argument -/

/-- `ctx.args` / `ctx.arglen` / `ctx.argidx`. -/
inductive ArgSt | tup (rest : List Elem) | one (e : Elem) (used : Bool)
  deriving DecidableEq, Repr, Inhabited

/-- `ctx.dict`: NULL, a real dict, or another object with `mp_subscript` (list, bytes) on which
a string-key lookup raises TypeError. -/
inductive MapSt | null | dict (kvs : List (Key × Elem)) | badMap
  deriving DecidableEq, Repr, Inhabited

def cpyInit (isBytes : Bool) : Arg → ArgSt × MapSt
  | .tup es => (.tup es, .null)
  | .dict kvs => (.one .dict false, .dict kvs)
  | .sc .list => (.one (.sc .list) false, .badMap)
  | .sc (.bytes n) => (.one (.sc (.bytes n)) false, if isBytes then .null else .badMap)
  | .sc s => (.one (.sc s) false, .null)

def getNextArg : ArgSt → Option (Elem × ArgSt)
  | .tup (e :: r) => some (e, .tup r)
  | .tup [] => none
  | .one e false => some (e, .one e true)
  | .one _ true => none

def lookupKey (isBytes : Bool) (k : List Char) : List (Key × Elem) → Option Elem
  | [] => none
  | (key, v) :: r =>
    if key == (if isBytes then Key.bytes k else Key.str k) then some v else lookupKey isBytes k r

def isIntLike : Elem → Bool
  | .sc (.int _) | .sc (.bool _) => true
  | _ => false
def isRealLike : Elem → Bool
  | .sc (.int _) | .sc (.bool _) | .sc .float => true
  | _ => false

/-- Operand requirement of one conversion; `false` also for unsupported conversion characters. -/
def cpyConvOk (isBytes : Bool) (c : Char) (e : Elem) : Bool :=
  if c == 'd' || c == 'i' || c == 'u' then isRealLike e
  else if c == 'o' || c == 'x' || c == 'X' then isIntLike e
  else if c == 'e' || c == 'E' || c == 'f' || c == 'F' || c == 'g' || c == 'G' then isRealLike e
  else if c == 'c' then
    match e with
    | .sc (.int v) => decide (0 ≤ v) && decide (v < (if isBytes then 256 else 0x110000))
    | .sc (.bool _) => true
    | .sc (.str n) => !isBytes && n == 1
    | .sc (.bytes n) => isBytes && n == 1
    | _ => false
  else if c == 'r' || c == 'a' then true
  else if c == 's' then (if isBytes then (match e with | .sc (.bytes _) => true | _ => false) else true)
  else if c == 'b' then (isBytes && (match e with | .sc (.bytes _) => true | _ => false))
  else false

def PY_SSIZE_T_MAX : Nat := 9223372036854775807
def INT_MAX : Nat := 2147483647

/-- `getnextarg` followed by a check of the operand; `none` = raises ("not enough arguments" or
the operand is rejected). -/
def popArg (p : Elem → Bool) (st : ArgSt) : Option ArgSt :=
  match getNextArg st with
  | some (e, st') => if p e then some st' else none
  | none => none

/-- The `(key)` part of a directive: "format requires a mapping", KeyError, or the value
becomes the current argument. -/
def cpyKeyStep (isBytes : Bool) (m : MapSt) (st : ArgSt) : Option (List Char) → Option ArgSt
  | none => some st
  | some k =>
    match m with
    | .dict kvs => (lookupKey isBytes k kvs).map fun v => ArgSt.one v false
    | _ => none                         -- "format requires a mapping" / TypeError from `[1]['a']`

def dirHuge (d : Dir) : Bool := decide (d.wNum > PY_SSIZE_T_MAX) || decide (d.pNum > INT_MAX)

/-- One directive; `none` = raises. -/
def cpyStep (isBytes : Bool) (m : MapSt) (st : ArgSt) (d : Dir) : Option ArgSt :=
  (cpyKeyStep isBytes m st d.key).bind fun st =>
  (if d.wStar then popArg isIntLike st else some st).bind fun st =>      -- "* wants int"
  if dirHuge d then none                                                 -- "width/precision too big"
  else
    (if d.pStar then popArg isIntLike st else some st).bind fun st =>
    popArg (cpyConvOk isBytes d.conv) st                                 -- operand / conversion check

def cpyRunAux (isBytes : Bool) (m : MapSt) : ArgSt → List Dir → Option ArgSt
  | st, [] => some st
  | st, d :: ds => (cpyStep isBytes m st d).bind fun st' => cpyRunAux isBytes m st' ds

/-- The final "not all arguments converted during string formatting" check. -/
def cpyFinish (m : MapSt) : ArgSt → Bool
  | .tup r => r.isEmpty
  | .one _ used => used || m != .null

/-- `true` = formatting completes. -/
def cpyRun (isBytes : Bool) (ds : List Dir) (a : Arg) : Bool :=
  let (st, m) := cpyInit isBytes a
  match cpyRunAux isBytes m st ds with
  | some st' => cpyFinish m st'
  | none => false

inductive Outcome | raises | ok (ty : RTy)
  deriving DecidableEq, Repr, Inhabited

/-- `template % arg` under CPython. -/
def cpyPercent (isBytes : Bool) (t : List Char) (a : Arg) : Outcome :=
  match cpyTok t with
  | none => .raises
  | some ds => if cpyRun isBytes ds a then .ok (if isBytes then .bytes else .str) else .raises

/-! ## `str.format` -/

/-- `parse_field`'s name loop: text after `{` → (name, terminator, characters consumed including
the terminator); `none` = ValueError. `inBr`: inside `[ … ]` (terminators are skipped). -/
def cpyNameLoop : Bool → List Char → Option (List Char × Char × Nat)
  | _, [] => none                                    -- "expected '}' before end of string"
  | true, c :: r =>
    if c == ']' then (cpyNameLoop false r).map fun (n, t, k) => (c :: n, t, k + 1)
    else (cpyNameLoop true r).map fun (n, t, k) => (c :: n, t, k + 1)
  | false, c :: r =>
    if c == '{' then none                            -- "unexpected '{' in field name"
    else if c == '}' || c == ':' || c == '!' then some ([], c, 1)
    else if c == '[' then (cpyNameLoop true r).map fun (n, t, k) => (c :: n, t, k + 1)
    else (cpyNameLoop false r).map fun (n, t, k) => (c :: n, t, k + 1)

/-- The format-spec scan with brace counting: → (spec text, needs expanding, consumed). -/
def cpySpecLoop : Nat → List Char → Option (List Char × Bool × Nat)
  | _, [] => none                                    -- "unmatched '{' in format spec"
  | count, c :: r =>
    if c == '{' then (cpySpecLoop (count + 1) r).map fun (s, _, k) => (c :: s, true, k + 1)
    else if c == '}' then
      match count with
      | 0 => some ([], false, 1)
      | n + 1 => (cpySpecLoop n r).map fun (s, e, k) => (c :: s, e, k + 1)
    else (cpySpecLoop count r).map fun (s, e, k) => (c :: s, e, k + 1)

structure CField where
  name : List Char
  conv : Option Char
  spec : List Char
  expand : Bool
  deriving DecidableEq, Repr, Inhabited

/-- `parse_field` on the text after `{`: the field and the characters consumed. -/
def cpyFieldAt (r : List Char) : Option (CField × Nat) :=
  match cpyNameLoop false r with
  | none => none
  | some (name, term, n1) =>
    if term == '}' then some (⟨name, none, [], false⟩, n1)
    else
      let r1 := r.drop n1
      -- conversion
      let convRes : Option (Option Char × Nat × Bool) :=   -- conv, consumed, finished
        if term == '!' then
          match r1 with
          | [] => none                               -- "end of string while looking for conversion"
          | cv :: r2 =>
            match r2 with
            | [] => some (some cv, 1, false)
            | c :: _ =>
              if c == '}' then some (some cv, 2, true)
              else if c == ':' then some (some cv, 2, false)
              else none                              -- "expected ':' after conversion specifier"
        else some (none, 0, false)
      match convRes with
      | none => none
      | some (conv, n2, true) => some (⟨name, conv, [], false⟩, n1 + n2)
      | some (conv, n2, false) =>
        match cpySpecLoop 0 (r1.drop n2) with
        | none => none
        | some (spec, ex, n3) => some (⟨name, conv, spec, ex⟩, n1 + n2 + n3)

/-- `AutoNumber`: state (0 = init, 1 = automatic, 2 = manual) and the next automatic index. -/
structure AutoSt where
  state : Nat := 0
  next : Nat := 0
  deriving DecidableEq, Repr, Inhabited

/-- Part of the field name before the first `.` or `[` (`field_name_split`). -/
def firstPart : List Char → List Char
  | [] => []
  | c :: r => if c == '.' || c == '[' then [] else c :: firstPart r

/-- `field_name_split` + first lookup of `get_field_object` + `do_conversion`. `none` = raises. -/
def cpyLookup (nargs : Nat) (kws : List (List Char)) (f : CField) (st : AutoSt) : Option AutoSt :=
  let first := firstPart f.name
  let empty := first.isEmpty
  let isIdx := !empty && first.all Char.isDigit
  let convOk := match f.conv with
    | some c => c == 'r' || c == 's' || c == 'a'
    | none => true
  if empty || isIdx then
    -- numeric indexing: numbering-mode consistency
    let st1 := if st.state == 0 then { st with state := if empty then 1 else 2 } else st
    if (st1.state == 2 && empty) || (st1.state == 1 && !empty) then none   -- "cannot switch …"
    else
      let idx := if empty then st1.next else numOf first
      let st2 := if empty then { st1 with next := st1.next + 1 } else st1
      if idx < nargs && convOk then some st2 else none                     -- IndexError
  else if kws.contains first && convOk then some st else none              -- KeyError

/-- One level of `build_string` (`MarkupIterator` loop) with `inner` handling format specs that
need expanding. `skip`: characters belonging to the field just processed. -/
def cpyLevelAux (inner : List Char → AutoSt → Option AutoSt) (nargs : Nat)
    (kws : List (List Char)) : Nat → List Char → AutoSt → Option AutoSt
  | _, [], st => some st
  | k + 1, _ :: r, st => cpyLevelAux inner nargs kws k r st
  | 0, c :: r, st =>
    if c == '{' then
      match r with
      | [] => none                                   -- "Single '{' encountered in format string"
      | '{' :: _ => cpyLevelAux inner nargs kws 1 r st
      | _ =>
        match cpyFieldAt r with
        | none => none
        | some (f, n) =>
          match cpyLookup nargs kws f st with
          | none => none
          | some st1 =>
            match (if f.expand then inner f.spec st1 else some st1) with
            | none => none
            | some st2 => cpyLevelAux inner nargs kws n r st2
    else if c == '}' then
      match r with
      | '}' :: _ => cpyLevelAux inner nargs kws 1 r st
      | _ => none                                    -- "Single '}' encountered in format string"
    else cpyLevelAux inner nargs kws 0 r st

/-- `build_string` with `recursion_depth = d`. -/
def cpyLevel (nargs : Nat) (kws : List (List Char)) : Nat → List Char → AutoSt → Option AutoSt
  | 0 => fun _ _ => none                             -- "Max string recursion exceeded"
  | d + 1 => fun t st => cpyLevelAux (cpyLevel nargs kws d) nargs kws 0 t st

/-- `template.format(*args, **kws)` with `nargs` positional arguments and keyword names `kws`,
assuming every value-level operation succeeds: `true` = completes. -/
def cpyFormat (t : List Char) (nargs : Nat) (kws : List (List Char)) : Bool :=
  (cpyLevel nargs kws 2 t {}).isSome

/-! ### `str.format`: the plain fragment and the name-level view of the lookups -/

def plainCh (c : Char) : Bool := !(c == ':' || c == '.' || c == '[' || c == '!')

/-- The fragment of the proved `str.format` theorems: no format specs, paths or conversions. -/
def fmtPlain (t : List Char) : Bool := t.all plainCh


/-- CPython's field lookup, on an already classified field name. -/
def lookupF (nargs : Nat) (kws : List (List Char)) (nm : ArgName) (a : AutoSt) : Option AutoSt :=
  match nm with
  | .auto =>
    let a1 := if a.state == 0 then { a with state := 1 } else a
    if a1.state == 2 then none
    else if a1.next < nargs then some { a1 with next := a1.next + 1 } else none
  | .idx i =>
    let a1 := if a.state == 0 then { a with state := 2 } else a
    if a1.state == 1 then none
    else if i < nargs then some a1 else none
  | .name s => if kws.contains s then some a else none

def lookupAll (nargs : Nat) (kws : List (List Char)) : AutoSt → List ArgName → Option AutoSt
  | a, [] => some a
  | a, f :: fs => (lookupF nargs kws f a).bind fun a' => lookupAll nargs kws a' fs

/-- A literal dict has pairwise distinct keys (as a Python value it cannot have anything else). -/
def Arg.wf : Arg → Bool
  | .dict kvs => decide (kvs.map (·.1)).Nodup
  | _ => true

/-! ## Exception classes of C17 (known findings) -/

/-- `some '%' that pyanalyze's scanner tries as a specifier start has property P of the text
after it`. -/
def anyPctAux (P : List Char → Bool) : Nat → List Char → Bool
  | _, [] => false
  | k + 1, _ :: r => anyPctAux P k r
  | 0, c :: r =>
    if c == '%' then
      P r || (match specAt r with
              | some (_, rest) => anyPctAux P (r.length - rest.length) r
              | none => anyPctAux P 0 r)
    else anyPctAux P 0 r
def anyPct (P : List Char → Bool) (t : List Char) : Bool := anyPctAux P 0 t

/-- `%()…`: empty mapping key (CPython accepts it, the regex needs one character). -/
def lexEmptyKey : List Char → Bool
  | '(' :: ')' :: _ => true
  | _ => false
/-- `%(a(b))…`: the key (up to the first `)`) contains `(` — CPython counts nested parentheses. -/
def lexParenKey : List Char → Bool
  | '(' :: r => (takeWhileC notRParen r).contains '('
  | _ => false
/-- `.` followed by something that is neither `*` nor a digit. -/
def dotHere : List Char → Bool
  | '.' :: c :: _ => !(c == '*' || c.isDigit)
  | _ => false
/-- … at the place where the precision group is tried. -/
def dotTail (r1 : List Char) : Bool := dotHere (reStarOrNum (dropWhileC isFlagCh r1)).2
/-- `%.f`, `%5.x`: `.` not followed by `*` or a digit (CPython: precision 0; regex: no match). -/
def lexDotNoDigits (r : List Char) : Bool := dotTail (reKey r).2
/-- width > `PY_SSIZE_T_MAX` or precision > `INT_MAX`. -/
def lexHugeWP (r : List Char) : Bool :=
  match specAt r with
  | some (s, _) =>
    (match s.width with | .num n => decide (n > PY_SSIZE_T_MAX) | _ => false) ||
    (match s.prec with | .num n => decide (n > INT_MAX) | _ => false)
  | none => false

def D17_emptyKey (t : List Char) : Bool := anyPct lexEmptyKey t
def D17_parenKey (t : List Char) : Bool := anyPct lexParenKey t
def D17_dotNoDigits (t : List Char) : Bool := anyPct lexDotNoDigits t
def D17_hugeWidthPrec (t : List Char) : Bool := anyPct lexHugeWP t

/-- The (specifier, element) pairs pyanalyze's `accept` looks at: tuple mode with matching
counts → position-wise; mapping mode with a dict → per string key. -/
def checkedPairs (ss : List CSpec) (a : Arg) : List (CSpec × Elem) :=
  if needsMapping ss then
    match a with
    | .dict kvs => kvs.flatMap fun kv =>
        match kv.1.strVal with
        | some ks => (specsForKey ss ks).map fun s => (s, kv.2)
        | none => []
    | _ => []
  else
    let ser := serialOf ss
    if a.allArgs.length == ser.length then
      (ser.zip a.allArgs).filterMap fun (s, e) => match s with | .cs c => some (c, e) | .star => none
    else []

/-- `'%c' % 300`: str template, `%c`, int in `range(256, 0x110000)` — reported, CPython accepts. -/
def D17_cRangeStr (isBytes : Bool) (t : List Char) (a : Arg) : Bool :=
  !isBytes && (checkedPairs (specsOf (scan t)) a).any fun (s, e) =>
    s.conv == 'c' && (match e with | .sc (.int v) => decide (256 ≤ v) && decide (v < 0x110000) | _ => false)

/-- bytes template with mapping keys and a dict argument: keys are compared as `str`. -/
def D17_bytesMapping (isBytes : Bool) (t : List Char) (a : Arg) : Bool :=
  isBytes && needsMapping (specsOf (scan t)) && (match a with | .dict _ => true | _ => false)

/-- str template with mapping keys and a dict literal with a non-`str` key: "missing key" is
never reported (`non_literals`). -/
def D17_nonStrKey (isBytes : Bool) (t : List Char) (a : Arg) : Bool :=
  !isBytes && needsMapping (specsOf (scan t)) &&
    (match a with
     | .dict kvs => hasNonLiteralKey kvs
     | _ => false)

/-- `'%%' % {'a': 1}`: only `%%` specifiers and a non-tuple argument that CPython treats as a
mapping (no "not all arguments converted" check) → "too many arguments". -/
def D17_pctOnlyMapping (isBytes : Bool) (t : List Char) (a : Arg) : Bool :=
  let ss := specsOf (scan t)
  !ss.isEmpty && (serialOf ss).isEmpty && !needsMapping ss && (cpyInit isBytes a).2 != .null

/-- `str.format`: automatic and manual numbering both occur (pyanalyze has no such check). -/
def D17_fmtAutoManual (t : List Char) : Bool :=
  let fs := (parseFormat t).1
  fs.any (·.name == .auto) && fs.any (fun f => match f.name with | .idx _ => true | _ => false)
/-- `str.format`: some field has an attribute / index path ("TODO validate … attributes"). -/
def D17_fmtPath (t : List Char) : Bool := (parseFormat t).1.any (·.path > 0)
/-- `str.format`: some field has a non-empty format spec (validity per operand type, nesting
depth, brace counting inside specs are not checked). -/
def D17_fmtSpec (t : List Char) : Bool := (parseFormat t).1.any (·.hasSpec)

end Pya.C17
