/-!
# Spec/D01 — exception classes of C01 for the full generated grammar (decidable, on a skeleton)

The direct execution search of C01 (harness/props/c01.py) judges programs far outside the mini-language of
`Core/MiniPy.lean`. When the FIRST failing evaluation of an execution is a read of a variable `v`, the harness
abstracts the function into a skeleton *about `v`* and the driver evaluates the predicates below on it; a
failure is attributed to a known class only if the program lies in that class. The classes are those of the
component properties (`C09:*`: reaching definitions, `C02:promote`: narrowing) plus two found by C01 itself.

Skeleton: `a0`/`a1` assignment to `v` (`a1`: the assigned value depends on `v`'s previous value, directly or
through names assigned in the same loop), `o f` another simple statement (with the test flag of its expressions), `u f` the failing evaluation
(test flag `f` = 1: an `isinstance(v, float|complex)` test occurs in the same statement / condition; `f` = 2: the
condition is the truth value of another variable `w` that was assigned from an expression containing a test on `v`;
`f` = 3: the condition is `v in s` / `v not in s` with `s` a str literal or a name; `f` = 4: some other test on `v` —
a comparison, isinstance, `not`, or `v` itself as a condition — occurs in the statement),
`br`, `co`, `ret`, `rs`,
`ite f B E`, `loop always f B E` (`while`/`for`; `always`: `while True`), `try B Hs E F`,
`mt irrefutable f Cs` (`match`; `irrefutable`: the last case is a wildcard / capture without guard).

Every class has the same shape: some statement `s` satisfies the class's local predicate and the failing
evaluation lies inside `s` or is executed after `s` (later in the same block, later in an enclosing block, or
anywhere in an enclosing loop).
-/
namespace Pya.C01

inductive Sk where
  | a0 | a1 | br | co | ret | rs
  | o (f : Nat)
  | u (f : Nat)
  | ite (f : Nat) (b e : List Sk)
  | loop (always : Bool) (f : Nat) (b e : List Sk)
  | try_ (b : List Sk) (hs : List (List Sk)) (e f : List Sk)
  | mt (irref : Bool) (f : Nat) (cs : List (List Sk))
  deriving Repr, Inhabited

mutual
/-- does some statement (at any depth, the statement itself included) satisfy `q`? -/
def Sk.anyS (q : Sk → Bool) : Sk → Bool
  | .ite f b e => q (.ite f b e) || Sk.anyL q b || Sk.anyL q e
  | .loop a f b e => q (.loop a f b e) || Sk.anyL q b || Sk.anyL q e
  | .try_ b hs e f => q (.try_ b hs e f) || Sk.anyL q b || Sk.anyLL q hs || Sk.anyL q e || Sk.anyL q f
  | .mt i f cs => q (.mt i f cs) || Sk.anyLL q cs
  | s => q s
def Sk.anyL (q : Sk → Bool) : List Sk → Bool
  | [] => false
  | s :: ss => Sk.anyS q s || Sk.anyL q ss
def Sk.anyLL (q : Sk → Bool) : List (List Sk) → Bool
  | [] => false
  | b :: bs => Sk.anyL q b || Sk.anyLL q bs
end

def Sk.isU : Sk → Bool
  | .u _ => true
  | _ => false
def Sk.isA : Sk → Bool
  | .a0 => true | .a1 => true | _ => false
def Sk.isA1 : Sk → Bool
  | .a1 => true | _ => false
def Sk.isLoop : Sk → Bool
  | .loop .. => true | _ => false
def Sk.isJump (withRet : Bool) : Sk → Bool
  | .br => true | .co => true | .ret => withRet | _ => false

def Sk.hasU (s : Sk) : Bool := Sk.anyS Sk.isU s
def Sk.hasA (s : Sk) : Bool := Sk.anyS Sk.isA s

mutual
/-- a `break` of THIS loop (not of a nested loop) in the block -/
def Sk.brkHere : Sk → Bool
  | .br => true
  | .ite _ b e => Sk.brkHereL b || Sk.brkHereL e
  | .try_ b hs e f => Sk.brkHereL b || Sk.brkHereLL hs || Sk.brkHereL e || Sk.brkHereL f
  | .mt _ _ cs => Sk.brkHereLL cs
  | _ => false
def Sk.brkHereL : List Sk → Bool
  | [] => false
  | s :: ss => Sk.brkHere s || Sk.brkHereL ss
def Sk.brkHereLL : List (List Sk) → Bool
  | [] => false
  | b :: bs => Sk.brkHereL b || Sk.brkHereLL bs
end

/-- the sub-blocks of a compound statement -/
def Sk.blocks : Sk → List (List Sk)
  | .ite _ b e => [b, e]
  | .loop _ _ b e => [b, e]
  | .try_ b hs e f => [b] ++ hs ++ [e, f]
  | .mt _ _ cs => cs
  | _ => []

mutual
/-- `scan P later ss`: some statement `s` among `ss` (at any depth) has `P s` and the failing evaluation is
inside `s` or executed after it (`later`: it occurs later in an enclosing block / enclosing loop). -/
def scanS (P : Sk → Bool) (later : Bool) : Sk → Bool
  | .ite f b e => (P (.ite f b e) && (Sk.hasU (.ite f b e) || later)) || scanL P later b || scanL P later e
  | .loop a f b e =>
    let me := Sk.loop a f b e
    (P me && (me.hasU || later)) || scanL P (later || me.hasU) b || scanL P (later || me.hasU) e
  | .try_ b hs e f =>
    let me := Sk.try_ b hs e f
    (P me && (me.hasU || later)) || scanL P later b || scanLL P later hs || scanL P later e || scanL P later f
  | .mt i f cs => (P (.mt i f cs) && (Sk.hasU (.mt i f cs) || later)) || scanLL P later cs
  | s => P s && (s.hasU || later)
def scanL (P : Sk → Bool) (later : Bool) : List Sk → Bool
  | [] => false
  | s :: ss => scanS P (later || Sk.anyL Sk.isU ss) s || scanL P later ss
def scanLL (P : Sk → Bool) (later : Bool) : List (List Sk) → Bool
  | [] => false
  | b :: bs => scanL P later b || scanLL P later bs
end

/-! ### the local predicates -/

/-- own class: a loop assigns `v` from `v` (`n += 1`, `t = (t, x)`): pyanalyze evaluates the update on the
values of at most two passes instead of iterating to a fixed point, so literal arithmetic is wrong from the third
iteration on. -/
def P_loopCarriedLiteral (s : Sk) : Bool := s.isLoop && Sk.anyS Sk.isA1 s
/-- C09 `loopElse`: the `else` of a loop is visited from the pre-loop state -/
def P_loopElse : Sk → Bool
  | .loop a f b e => !e.isEmpty && (Sk.loop a f b e).hasA
  | _ => false
/-- C09 `secondVisitSeed`: `while True` -/
def P_secondVisitSeed : Sk → Bool
  | .loop a f b e => a && (Sk.loop a f b e).hasA
  | _ => false
/-- C09 `loopBreak` -/
def P_loopBreak : Sk → Bool
  | .loop a f b e => Sk.brkHereL b && (Sk.loop a f b e).hasA
  | _ => false
/-- C09 `jumpThroughFinally` / `jumpOutOfFinally`: a jump inside a try statement that has a finally block -/
def P_jumpThroughFinally : Sk → Bool
  | .try_ b hs e f => !f.isEmpty && Sk.anyS (Sk.isJump true) (.try_ b hs e f) && (Sk.try_ b hs e f).hasA
  | _ => false
/-- C09 `loopJumpInSuppressing`: break / continue inside a try body -/
def P_loopJumpInSuppressing : Sk → Bool
  | .try_ b hs e f => Sk.anyL (Sk.isJump false) b && (Sk.try_ b hs e f).hasA
  | _ => false
/-- C09 `nestedLoopJump`: a jump in a loop nested in a loop -/
def P_nestedLoopJump : Sk → Bool
  | .loop a f b e =>
    (Sk.anyL (fun y => y.isLoop && Sk.anyS (Sk.isJump false) y) b ||
     Sk.anyL (fun y => y.isLoop && Sk.anyS (Sk.isJump false) y) e) && (Sk.loop a f b e).hasA
  | _ => false
/-- C02 `promote`: an `isinstance(v, float|complex)` test (its negative branch drops int / bool members) -/
def Sk.testFlag : Sk → Nat
  | .ite f _ _ => f
  | .loop _ f _ _ => f
  | .u f => f
  | .o f => f
  | .mt _ f _ => f
  | _ => 0
def P_promote (s : Sk) : Bool := s.testFlag == 1
/-- own class: the condition is the truth value of a variable `w` whose value is a union in which ONE member (a
comparison / isinstance / `not` result) carries a constraint on `v` (`w = t + t if v else v is not None; if w: …`):
pyanalyze applies that constraint (inverted in the else branch) to `v` although the truth value of `w` may come from
another member of the union. -/
def P_unionMemberConstraint (s : Sk) : Bool := s.testFlag == 2
/-- REPAIRED in /repo (e71c8d1): no longer one of the classes `d01Classes` reports — a recurrence is a new violation;
the witness stays in corpus/C01.jsonl as a regression case. Formerly an own class: the condition is `v in <str>` /
`v not in <str>`: the narrowing treats the str as the collection of its
characters (`InPredicate`), but `in` on strs is substring containment: `'' in ''`, `'ab' in 'ab'`. -/
def P_strContainment (s : Sk) : Bool := s.testFlag == 3
/-- REPAIRED in /repo (232b32d): no longer one of the classes `d01Classes` reports — a recurrence is a new violation;
kept as the description of the regression case in corpus/C01.jsonl. Formerly an own class: a `match` nested in a branch (of an `if`, a loop, a `try`, another `match`). When the cases
exhaust the subject's inferred type (a wildcard last case, or `case None:` on a `None` subject, …) visit_Match marks
the ENCLOSING scope as left, so the state of that branch is dropped at the next join. (Exhaustiveness depends on the
inferred type of the subject; the predicate is the syntactic region.) -/
def P_matchExhaustive (s : Sk) : Bool :=
  Sk.anyLL (fun y => match y with | .mt _ _ _ => true | _ => false) s.blocks

/-- own class: a test on `v` (direct, or through a variable that carries a constraint on `v`) inside a loop. The
constraint's fake definition node is keyed by the AST node, so the visit of the next round puts it over a set of
definition nodes that contains the node itself; the recursion guard of `_resolve_value` answers `Never`, and reads of
`v` in or after the loop are inferred `Never` on paths that are really taken. -/
def P_loopConstraintCycle (s : Sk) : Bool := s.isLoop && Sk.anyS (fun y => y.testFlag != 0) s

def d01Classes (prog : List Sk) : List String :=
  let c (name : String) (P : Sk → Bool) : List String := if scanL P false prog then [name] else []
  c "C02:promote" P_promote ++ c "unionMemberConstraint" P_unionMemberConstraint ++
  c "loopCarriedLiteral" P_loopCarriedLiteral ++
  c "C09:loopElse" P_loopElse ++
  c "C09:secondVisitSeed" P_secondVisitSeed ++ c "C09:loopBreak" P_loopBreak ++
  c "C09:jumpThroughFinally" P_jumpThroughFinally ++ c "C09:loopJumpInSuppressing" P_loopJumpInSuppressing ++
  c "C09:nestedLoopJump" P_nestedLoopJump ++ c "loopConstraintCycle" P_loopConstraintCycle

/-- REPAIRED in /repo (b494820, `_tuple_add_impl`): the driver no longer reports it — a recurrence is a new violation;
kept as the description of the regression case in corpus/C01.jsonl. Formerly an own class for failing *operations*
(not reads): `tuple + tuple` is typed through typeshed's
`tuple.__add__(self, value: tuple[_T_co, ...]) -> tuple[_T_co, ...]`, where pyanalyze solves `_T_co` from the
argument only, so the element types of the left operand are lost. `op`: the operator, `l`/`r`: both runtime
operands are tuples. -/
def D01_tupleConcat (isAdd lTuple rTuple : Bool) : Bool := isAdd && lTuple && rTuple

/-- class `C04:seqLeniency` for failing *calls*: a type variable that occurs in two parameters is solved from a
tuple form (`tuple[int, str]`, `tuple[int, *tuple[str, ...]]`) and a homogeneous `tuple[T, ...]` / `list[T]`;
`can_assign` accepts the homogeneous type for the form (a leniency C04 documents and excludes), so
`remove_redundant_solutions` keeps only the form and the other argument's values are outside the result.
`shared`: the callee has a type variable in two parameters; `seqForm`: the inferred result is a tuple / list form;
`valSeq`: the runtime result is a tuple or list. -/
def D01_seqLeniency (shared seqForm valSeq : Bool) : Bool := shared && seqForm && valSeq

/-- class `setDisplayOrder` for failing *calls*: `list(s)` / `tuple(s)` of a set display `s = {a, b, c}` is inferred
as the list / tuple form with the members of the display in source order, although a set iterates in hash order
(and merges equal elements). `conv`: the callee is `list` or `tuple`; `seqForm`: the inferred result is a
list / tuple form; `valSeq`: the runtime result is a list or tuple. -/
def D01_setDisplayOrder (conv seqForm valSeq : Bool) : Bool := conv && seqForm && valSeq

/-- class `loopCarriedSubscript` for failing *subscripts* `v[i]` / `v[a:b]`: inside a loop whose body assigns `v`, the
subscript is inferred from only one of the definitions of `v` that reach it (the value before the loop, or the one
assigned in the body), although the read of `v` itself sees both. `isSub`: the failing node is a subscript of a name;
`assignedInLoop`: an enclosing loop assigns that name. -/
def D01_loopCarriedSubscript (isSub assignedInLoop : Bool) : Bool := isSub && assignedInLoop

/-! ### composite variables (`x[k1][k2]`, `x.a.b`): classes of the COMPOSITE stream

The failing evaluation is a read of a composite `F` (or of the root name). The harness extracts three facts from the
function text; the classes are their readings. None of them covers the plain shape "narrow / store a deep composite,
assign a proper prefix in the same straight-line block, read the deep composite again", which must be sound. -/

/-- `compositeStaleParent`: the failing read is a PREFIX (root included) of a composite that was stored to earlier: the
value pyanalyze keeps for the prefix (a display, an earlier store) is not updated / forgotten when a member below it
is assigned. `prefixOfEarlierStore`: some earlier store targets a strictly deeper composite that extends `F`. -/
def D01_compositeStaleParent (prefixOfEarlierStore : Bool) : Bool := prefixOfEarlierStore

/-- `compositeJoinAfterReset`: a proper prefix of `F` is assigned inside ONE branch of a conditional that does not
contain the failing read, and the read comes after the join: in that branch the composite has an EMPTY list of
definition nodes (reset by `FunctionScope.set`), `get_combined_scope` chains the lists, so only the other branch's
narrowing / store survives the join. -/
def D01_compositeJoinAfterReset (prefixAssignedInOtherBranch : Bool) : Bool := prefixAssignedInOtherBranch

/-- `compositeInLoop`: the failing read lies in or after a loop whose body tests or stores a composite of the same root
(or assigns the root): narrowing and stores of one round are assumed at the next one (the loop classes of C09 / C01
for plain names, for composites). -/
def D01_compositeInLoop (loopWithCompositeEffect : Bool) : Bool := loopWithCompositeEffect

def d01CompositeClasses (inLoop stale joinReset : Bool) : List String :=
  (if D01_compositeInLoop inLoop then ["compositeInLoop"] else []) ++
  (if D01_compositeStaleParent stale then ["compositeStaleParent"] else []) ++
  (if D01_compositeJoinAfterReset joinReset then ["compositeJoinAfterReset"] else [])

/-- class `matchAsNested` of the MATCH stream: the failing read is the name bound by `<pattern> as c` where the pattern
is a sequence (or mapping) pattern with a constraining sub-pattern (a literal, a class pattern, an or-pattern):
`visit_MatchAs` applies the constraint of the whole pattern — which contains the sub-patterns' constraints on the
ELEMENTS — to the subject itself, so `c` is inferred `Never` although the case body runs. `asOverSeq`: the name is bound
by `as` over a sequence / mapping pattern; `constrainingSub`: that pattern contains such a sub-pattern. -/
def D01_matchAsNested (asOverSeq constrainingSub : Bool) : Bool := asOverSeq && constrainingSub

/-- class `compositeUnionRoot`: the failing read is a subscript composite `t[k]` (literal key) whose root variable holds
a UNION of containers (`tuple[Optional[int]] | list[Optional[str]]`), below / after a test that narrows that composite.
`composite_from_subscript` looks the composite up once per union member, each time with that member's element type
as fallback value, but `FunctionScope._resolve_value` caches the resolved constrained value under a key that leaves the
fallback value out: the first member's narrowed element type is returned for every member.
`unionRoot`: the root's declared / assigned value is a union of at least two subscriptable members;
`narrowedByTest`: a test on that very composite governs or precedes the read. -/
def D01_compositeUnionRoot (unionRoot narrowedByTest : Bool) : Bool := unionRoot && narrowedByTest

/-- class `implicitNoneReturn`: the failing evaluation is a call of a module-level function WITHOUT return annotation
in which some `return` has a value and some path falls off the end (a bare `return` is fine: it is
recorded as None): `_compute_return_type` unites the values of the `return` statements only; the implicit `None` of
the paths that fall through is not added (`has_return` is only used for the missing-return diagnostic of annotated
functions). `unannotated`: the callee has no return annotation; `mayFallOff`: some path through its body ends without
`return` / `raise`. -/
def D01_implicitNoneReturn (unannotated mayFallOff : Bool) : Bool := unannotated && mayFallOff

end Pya.C01
