import PyaModel.Spec.Mem
import PyaModel.Core.Assign
/-!
# Spec/D03 — exception classes of C03 and syntactic side conditions

* `hasMany T`  (class `variadicTuple`): the type has a tuple form with an unpacked member
  (`tuple[int, *tuple[str, ...]]`). `SequenceValue.can_assign` demands equal member counts and
  equal `is_many` flags, so **no** literal tuple is accepted by such a type.
* `hasFset o`  (class `frozensetLiteral`): the object contains a `frozenset`.
  `replace_known_sequence_value` does not expand frozenset literals, so the literal is treated as
  the bare class `frozenset` and its elements are never checked (bare-generic leniency).
* `strVsGeneric T o`: not a finding — the property text does not say whether the elements of a
  `str`/`bytes` object are compared with `T` in `Sequence[T]`; the oracle and the theorem leave
  these pairs out.
-/
namespace Pya

mutual
def Ty.hasMany : Ty → Bool
  | .many _ => true
  | .generic _ args => Ty.hasManyL args
  | .seq _ ms => Ty.hasManyL ms
  | .union ts => Ty.hasManyL ts
  | .annotated t => Ty.hasMany t
  | _ => false
def Ty.hasManyL : List Ty → Bool
  | [] => false
  | t :: ts => Ty.hasMany t || Ty.hasManyL ts
end

mutual
def Obj.hasFset : Obj → Bool
  | .fset _ => true
  | .tuple xs => Obj.hasFsetL xs
  | .list xs => Obj.hasFsetL xs
  | .set xs => Obj.hasFsetL xs
  | .dict ks vs => Obj.hasFsetL ks || Obj.hasFsetL vs
  | _ => false
def Obj.hasFsetL : List Obj → Bool
  | [] => false
  | x :: xs => Obj.hasFset x || Obj.hasFsetL xs
end

mutual
def Obj.hasStr : Obj → Bool
  | .str _ => true
  | .bytes _ => true
  | .tuple xs => Obj.hasStrL xs
  | .list xs => Obj.hasStrL xs
  | .set xs => Obj.hasStrL xs
  | .fset xs => Obj.hasStrL xs
  | .dict ks vs => Obj.hasStrL ks || Obj.hasStrL vs
  | _ => false
def Obj.hasStrL : List Obj → Bool
  | [] => false
  | x :: xs => Obj.hasStr x || Obj.hasStrL xs
end

mutual
/-- some generic target other than the builtin containers themselves (an ABC) occurs in the type -/
def Ty.hasAbcGeneric : Ty → Bool
  | .generic c args =>
    !(c == C.tuple || c == C.list || c == C.set || c == C.frozenset || c == C.dict) || Ty.hasAbcGenericL args
  | .seq _ ms => Ty.hasAbcGenericL ms
  | .many t => Ty.hasAbcGeneric t
  | .union ts => Ty.hasAbcGenericL ts
  | .annotated t => Ty.hasAbcGeneric t
  | _ => false
def Ty.hasAbcGenericL : List Ty → Bool
  | [] => false
  | t :: ts => Ty.hasAbcGeneric t || Ty.hasAbcGenericL ts
end

def strVsGeneric (t : Ty) (o : Obj) : Bool := o.hasStr && t.hasAbcGeneric

end Pya
