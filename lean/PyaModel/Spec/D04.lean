import PyaModel.Spec.WF
/-!
# Spec/D04 — exception classes of C04 (type-to-type assignability)

* `protoUnsound` (known finding `metaclassAttr`): some protocol class `c` occurs as a target in `A`
  and some class `d` occurs in `B` such that pyanalyze's structural check accepts `d` for `c`
  although `d` is not a (virtual) subclass of `c` — e.g. `Iterable` ← an `Enum` class, whose
  *metaclass* defines `__iter__`.
* `newtypeBase`: `A` contains a NewType; `NewTypeValue.can_assign` accepts the whole base class
  (`TypedValue(int)`), i.e. also instances of proper subclasses, which are not members of the NewType.
(`annotatedNever` — a union on the left rejecting `Annotated[Never]` — was repaired in /repo,
commit 637d1c5; its witness stays in the C04 corpus.)
-/
namespace Pya

mutual
/-- classes occurring in class position (typed / generic / seq / newtype base; for `type[c]` the metaclass) -/
def Ty.classes (tbl : ClassTable) : Ty → List Cls
  | .typed c => [c]
  | .newtype _ c => [c]
  | .generic c args => c :: Ty.classesL tbl args
  | .seq c ms => c :: Ty.classesL tbl ms
  | .many t => Ty.classes tbl t
  | .union ts => Ty.classesL tbl ts
  | .subclass c => [tbl.metaOf c]
  | .annotated t => Ty.classes tbl t
  | _ => []
def Ty.classesL (tbl : ClassTable) : List Ty → List Cls
  | [] => []
  | t :: ts => Ty.classes tbl t ++ Ty.classesL tbl ts
end

mutual
def Ty.hasNewtype : Ty → Bool
  | .newtype _ _ => true
  | .generic _ args => Ty.hasNewtypeL args
  | .seq _ ms => Ty.hasNewtypeL ms
  | .many t => Ty.hasNewtype t
  | .union ts => Ty.hasNewtypeL ts
  | .annotated t => Ty.hasNewtype t
  | _ => false
def Ty.hasNewtypeL : List Ty → Bool
  | [] => false
  | t :: ts => Ty.hasNewtype t || Ty.hasNewtypeL ts
end

def protoUnsound (tbl : ClassTable) (a b : Ty) : Bool :=
  ((a.classes tbl).filter tbl.isProtocol).any fun c =>
    (b.classes tbl).any fun d => tbl.nominal false c d && !sub tbl d c

def d04Classes (tbl : ClassTable) (a b : Ty) : List String :=
  (if protoUnsound tbl a b then ["metaclassAttr"] else []) ++
  (if a.hasNewtype then ["newtypeBase"] else [])

end Pya
