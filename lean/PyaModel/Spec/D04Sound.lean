import PyaModel.Spec.D04
/-!
# Spec/D04Sound — side conditions of the C04 theorems (reflexivity, soundness for membership)

Everything here is a decidable predicate on terms (and the class table):

* `Ty.wfR` — the terms for which reflexivity is stated (weaker than `Ty.wf`);
* `Ty.wfB` — well-formedness of the right-hand side of the soundness theorem (`Ty.wf` without the
  "no protocol under `type[...]`" clause);
* `strict04` — the documented leniencies L1/L2 of the property text;
* `d04Sound` — the exception classes of soundness, one disjunct per class (`d04SoundClasses` names
  them); each comes with a witness on the live table in `Props/C04.lean`.
-/
namespace Pya

/-! ### well-formedness for reflexivity -/
mutual
/-- Terms for which `ca tbl x a a` is stated: class ids of `typed`/`generic`/`seq`/`type[...]`
in range, generics applied to as many arguments as the class has parameters (≥ 1), `many` only as
a member of a sequence form, no type variable. (`Any`, NewTypes, literals, protocols under
`type[...]` and sequence forms of any class are allowed.) -/
def Ty.wfR (tbl : ClassTable) : Ty → Bool
  | .any => true
  | .known _ => true
  | .typed c => decide (c < tbl.size)
  | .newtype _ _ => true
  | .generic c args =>
    decide (c < tbl.size) && decide (0 < tbl.arity c) && args.length == tbl.arity c && Ty.wfRL tbl args
  | .seq c ms => decide (c < tbl.size) && Ty.wfRM tbl ms
  | .many _ => false
  | .union ts => Ty.wfRL tbl ts
  | .subclass c => decide (c < tbl.size)
  | .annotated t => Ty.wfR tbl t
  | .tvar _ => false
def Ty.wfRL (tbl : ClassTable) : List Ty → Bool
  | [] => true
  | t :: ts => Ty.wfR tbl t && Ty.wfRL tbl ts
def Ty.wfRM (tbl : ClassTable) : List Ty → Bool
  | [] => true
  | .many t :: ts => Ty.wfR tbl t && Ty.wfRM tbl ts
  | t :: ts => Ty.wfR tbl t && Ty.wfRM tbl ts
end

/-! ### well-formedness of the right-hand side -/
mutual
/-- As `Ty.wf`, but `type[c]` is allowed for protocol classes `c` too. -/
def Ty.wfB (tbl : ClassTable) : Ty → Bool
  | .any => false
  | .known o => Obj.wf tbl o
  | .typed c => decide (c < tbl.size)
  | .newtype _ c => decide (c < tbl.size)
  | .generic c args =>
    decide (c < tbl.size) && decide (0 < tbl.arity c) && args.length == tbl.arity c && Ty.wfBL tbl args
  | .seq c ms => (c == C.tuple || c == C.list) && Ty.wfBM tbl ms
  | .many _ => false
  | .union ts => Ty.wfBL tbl ts
  | .subclass c => decide (c < tbl.size)
  | .annotated t => Ty.wfB tbl t
  | .tvar _ => false
def Ty.wfBL (tbl : ClassTable) : List Ty → Bool
  | [] => true
  | t :: ts => Ty.wfB tbl t && Ty.wfBL tbl ts
def Ty.wfBM (tbl : ClassTable) : List Ty → Bool
  | [] => true
  | .many t :: ts => Ty.wfB tbl t && Ty.wfBM tbl ts
  | t :: ts => Ty.wfB tbl t && Ty.wfBM tbl ts
end

/-! ### "some sub-term satisfies `p`" -/
mutual
def Ty.anyT (p : Ty → Bool) : Ty → Bool
  | .generic c args => p (.generic c args) || Ty.anyTL p args
  | .seq c ms => p (.seq c ms) || Ty.anyTL p ms
  | .many t => p (.many t) || Ty.anyT p t
  | .union ts => p (.union ts) || Ty.anyTL p ts
  | .annotated t => p (.annotated t) || Ty.anyT p t
  | .any => p .any
  | .known o => p (.known o)
  | .typed c => p (.typed c)
  | .newtype n c => p (.newtype n c)
  | .subclass c => p (.subclass c)
  | .tvar i => p (.tvar i)
def Ty.anyTL (p : Ty → Bool) : List Ty → Bool
  | [] => false
  | t :: ts => Ty.anyT p t || Ty.anyTL p ts
end

/-! ### node predicates -/
/-- L1: a bare generic class standing for `G[Any]` (also under a NewType), or bare `type` (= `type[Any]`) -/
def isBare (tbl : ClassTable) : Ty → Bool
  | .typed c => decide (0 < tbl.arity c) || c == C.type
  | .newtype _ c => decide (0 < tbl.arity c)
  | _ => false
/-- a literal whose object satisfies `q` -/
def isLit (q : Obj → Bool) : Ty → Bool
  | .known k => q k
  | _ => false
def isGenericNode : Ty → Bool
  | .generic _ _ => true
  | _ => false
def isSeqNode : Ty → Bool
  | .seq _ _ => true
  | _ => false
def isSubclassNode : Ty → Bool
  | .subclass _ => true
  | _ => false
/-- a metaclass used as an ordinary type (`TypedValue(EnumType)`) -/
def isTypedMeta (tbl : ClassTable) : Ty → Bool
  | .typed d => tbl.issub d C.type
  | _ => false
/-- the class of a term in instance position -/
def headCls : Ty → Option Cls
  | .typed c => some c
  | .newtype _ c => some c
  | .generic c _ => some c
  | .seq c _ => some c
  | _ => none

/-- every class of the table that is below `d` is below `c` -/
def downOk (tbl : ClassTable) (c d : Cls) : Bool :=
  allBelow tbl.size fun k => !(sub tbl k d) || sub tbl k c
/-- the class of every class object below `d` is below `c` -/
def metaDownOk (tbl : ClassTable) (c d : Cls) : Bool :=
  allBelow tbl.size fun k => !(sub tbl k d) || sub tbl (tbl.metaOf k) c

/-- the class-level verdict accepts `d` for `c` although some class below `d` is not below `c` -/
def badNom (tbl : ClassTable) (a b : Ty) : Bool :=
  match headCls a, headCls b with
  | some c, some d => tbl.nominal false c d && !(downOk tbl c d)
  | _, _ => false
/-- the class-level verdict accepts `type(d)` for `c` although the class of some class object below
`d` is not below `c` -/
def badMeta (tbl : ClassTable) (a b : Ty) : Bool :=
  match headCls a, b with
  | some c, .subclass d => tbl.nominal false c (tbl.metaOf d) && !(metaDownOk tbl c d)
  | _, _ => false

/-! ### literals whose `==` does not determine the object -/
mutual
/-- a `bool`, or the `int` 0 or 1, occurs in the object (`1 == True`, `0 == False`) -/
def Obj.hasBoolish : Obj → Bool
  | .bool _ => true
  | .int n => n == 0 || n == 1
  | .tuple xs => Obj.hasBoolishL xs
  | .list xs => Obj.hasBoolishL xs
  | .set xs => Obj.hasBoolishL xs
  | .fset xs => Obj.hasBoolishL xs
  | .dict ks vs => Obj.hasBoolishL ks || Obj.hasBoolishL vs
  | _ => false
def Obj.hasBoolishL : List Obj → Bool
  | [] => false
  | x :: xs => Obj.hasBoolish x || Obj.hasBoolishL xs
end

/-- … strictly inside a container: `(1,) == (True,)` and both are tuples, so `Literal[(True,)]`
contains `(1,)` (membership in a literal type is `type(a) is type(b) and a == b`). -/
def Obj.confusable : Obj → Bool
  | .tuple xs => Obj.hasBoolishL xs
  | .list xs => Obj.hasBoolishL xs
  | .set xs => Obj.hasBoolishL xs
  | .fset xs => Obj.hasBoolishL xs
  | .dict ks vs => Obj.hasBoolishL ks || Obj.hasBoolishL vs
  | _ => false

/-! ### the leniencies and the exception classes -/

/-- The documented leniencies of the property text, excluded from soundness:
L1 — `B` contains a bare generic class (`typed c`/`newtype _ c` with `arity c > 0`), bare `type`, or
a literal containing a frozenset (treated as bare `frozenset`);
L2 — `A` contains a fixed-length sequence form and `B` a homogeneous generic. -/
def strict04 (tbl : ClassTable) (a b : Ty) : Bool :=
  !(b.anyT (isBare tbl)) && !(b.anyT (isLit Obj.hasFset)) &&
  !(a.anyT isSeqNode && b.anyT isGenericNode)

/-- class `protoDown` (contains `metaclassAttr`, i.e. `protoUnsound` on instance positions): a class in
instance position in `A` accepts a class in instance position in `B` at class level, but not every
subclass of the latter is a subclass of the former (only protocol targets can do that). -/
def protoLeak (tbl : ClassTable) (a b : Ty) : Bool :=
  a.anyT fun s => b.anyT fun t => badNom tbl s t
/-- class `virtualMeta`: a class in `A` accepts `type(d)` for a `type[d]` in `B`, but `d` has a
(virtual or promoted) subclass whose class object is not an instance of it (`ABCMeta` ← `type[Sequence]`). -/
def metaLeak (tbl : ClassTable) (a b : Ty) : Bool :=
  a.anyT fun s => b.anyT fun t => badMeta tbl s t
/-- class `metaclassTyped`: `type[c]` in `A`, a metaclass as a plain type in `B`
(`SubclassValue.can_assign` accepts every `TypedValue` of a metaclass of `c`). -/
def metaTyped (tbl : ClassTable) (a b : Ty) : Bool :=
  a.anyT isSubclassNode && b.anyT (isTypedMeta tbl)

/-- The exception classes of `assign_sound_partial`. -/
def d04Sound (tbl : ClassTable) (a b : Ty) : Bool :=
  protoLeak tbl a b || metaLeak tbl a b || a.hasNewtype || metaTyped tbl a b ||
  b.anyT (isLit Obj.confusable) ||
  (b.anyT (isLit Obj.hasCls) && a.hasProto tbl)

def d04SoundClasses (tbl : ClassTable) (a b : Ty) : List String :=
  (if protoLeak tbl a b then ["protoDown"] else []) ++
  (if metaLeak tbl a b then ["virtualMeta"] else []) ++
  (if a.hasNewtype then ["newtypeBase"] else []) ++
  (if metaTyped tbl a b then ["metaclassTyped"] else []) ++
  (if b.anyT (isLit Obj.confusable) then ["literalEq"] else []) ++
  (if b.anyT (isLit Obj.hasCls) && a.hasProto tbl then ["protoClassObj"] else [])

end Pya
