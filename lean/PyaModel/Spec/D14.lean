import PyaModel.Core.Union
/-!
# Spec/D14 — exception classes of C14 (value algebra)

* `unhashable`: a literal of an unhashable object (list / set / dict, or a tuple containing one)
  occurs in an operand: `KnownValue.__hash__` falls back to `id()`, so two equal literals never
  hash equal and are never merged.
* `annotatedUnion`: an operand is `Annotated[A | B, m]` held as one value.
* `dupUnion`: an operand is a union with two `==` members.
* `unionOrder`: a union occurs inside an operand (or, for the equality/hash law, as the operand):
  `MultiValuedValue.__eq__` ignores order, the dataclass `__hash__` does not, so
  `list[int | str] == list[str | int]` with different hashes and `unite_values` keeps both.
-/
namespace Pya

mutual
def Ty.hasUnhashable : Ty → Bool
  | .known o => !o.hashable
  | .generic _ as => Ty.hasUnhashableL as
  | .seq _ as => Ty.hasUnhashableL as
  | .many t => Ty.hasUnhashable t
  | .union ts => Ty.hasUnhashableL ts
  | .annotated t => Ty.hasUnhashable t
  | _ => false
def Ty.hasUnhashableL : List Ty → Bool
  | [] => false
  | t :: ts => Ty.hasUnhashable t || Ty.hasUnhashableL ts
end

mutual
def Ty.hasUnion : Ty → Bool
  | .union _ => true
  | .generic _ as => Ty.hasUnionL as
  | .seq _ as => Ty.hasUnionL as
  | .many t => Ty.hasUnion t
  | .annotated t => Ty.hasUnion t
  | _ => false
def Ty.hasUnionL : List Ty → Bool
  | [] => false
  | t :: ts => Ty.hasUnion t || Ty.hasUnionL ts
end

/-- `Annotated[A | B, m]` held whole: `unite_values` hands the metadata down to the members, so the
result is `Annotated[A, m] | Annotated[B, m]`, which is not `==` to the operand. -/
def isAnnUnion : Ty → Bool
  | .annotated (.union _) => true
  | _ => false

/-- a union operand with two `==` members (`MultiValuedValue([int, int])`): uniting de-duplicates
it, so the result is not `==` to the operand. -/
def hasDupMembers : Ty → Bool
  | .union ts => dupIn ts
  | _ => false
where
  dupIn : List Ty → Bool
    | [] => false
    | t :: ts => Ty.memBy t ts || dupIn ts

/-! ### `seqArgs`: boundary of the modelled fragment (not a finding class)

`SequenceValue`'s dataclass hash and `==` also cover the derived field `args = unite_values(members)`;
the model compares the members only. The two agree unless the merge pattern of `unite_values` on
the members can differ between two member-wise hash-equal (resp. `==`) sequence forms, which needs
two flattened members of one sequence form (possibly the same one: an unhashable literal, whose
`args` are compared as a set once the member order differs) that are hash-equal but not `==`
(`tuple[int, Literal[0]]`) or `==` but not hash-equal (`tuple[[1], int]`,
`tuple[list[int | str], list[str | int]]`). Terms containing such a sequence form are outside the
fragment on which `hash`/`==` are compared. -/
def seqFlat (ms : List Ty) : List Ty := (ms.map stripMany).flatMap flatten1

def halfRelated : List Ty → Bool
  | [] => false
  | x :: xs => (x :: xs).any (fun y => Ty.hashEq x y != Ty.beq x y) || halfRelated xs

mutual
def Ty.seqArgsIrregular : Ty → Bool
  | .seq _ ms => halfRelated (seqFlat ms) || Ty.seqArgsIrregularL ms
  | .generic _ as => Ty.seqArgsIrregularL as
  | .many t => Ty.seqArgsIrregular t
  | .union ts => Ty.seqArgsIrregularL ts
  | .annotated t => Ty.seqArgsIrregular t
  | _ => false
def Ty.seqArgsIrregularL : List Ty → Bool
  | [] => false
  | t :: ts => Ty.seqArgsIrregular t || Ty.seqArgsIrregularL ts
end

/-- classes for the eq ⇒ hash law on a pair (`seqArgs`, last, marks the fragment boundary) -/
def d14Pair (a b : Ty) : List String :=
  (if a.hasUnhashable || b.hasUnhashable then ["unhashable"] else []) ++
  (if a.hasUnion || b.hasUnion then ["unionOrder"] else []) ++
  (if a.seqArgsIrregular || b.seqArgsIrregular then ["seqArgs"] else [])

/-- classes for the semilattice laws on operands `ts`: judged on the flattened members -/
def d14Ops (ts : List Ty) : List String :=
  let ms := ts.flatMap flatten1
  (if ts.any isAnnUnion then ["annotatedUnion"] else []) ++
  (if ts.any hasDupMembers then ["dupUnion"] else []) ++
  (if ms.any Ty.hasUnhashable then ["unhashable"] else []) ++
  (if ms.any Ty.hasUnion then ["unionOrder"] else []) ++
  (if ts.any Ty.seqArgsIrregular then ["seqArgs"] else [])

/-- `substCollapse`: substituting into the union of the operands makes two of its members `==`
(`T | int` with `T := int`) or removes one (`T := Never`, leaving a one-member union):
`MultiValuedValue.substitute_typevars` only re-flattens, uniting the
substituted operands merges them, so substitution does not commute with uniting up to `==`. -/
def nonNormalUnion : Ty → Bool
  | .union [_] => true
  | t => hasDupMembers t

def d14Subst (m : TvMap) (a b : Ty) : List String :=
  (if nonNormalUnion (subst m (unite [a, b])) || nonNormalUnion (subst m a) || nonNormalUnion (subst m b)
   then ["substCollapse"] else []) ++ d14Ops [a, b, subst m a, subst m b]

end Pya
