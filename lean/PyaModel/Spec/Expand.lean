import PyaModel.Spec.CpyBind
/-!
# Spec/Expand — concrete expansions of a call with `*args` / `**kwargs` of unknown length

C05, second sentence: "When *args/**kwargs of unknown length are passed it accepts the call
only if some concrete expansion binds, and rejects it only if no expansion that takes at least
one element from every star-argument binds."

The statement is made at the level of `Actual` (what `preprocess_args` hands to the binder).
An actual is *plain* when every positional and every keyword is definitely provided and the
keyword names are pairwise distinct (this is what `preprocess_args` produces for calls whose
arguments are plain expressions, `*xs` with `xs` of unknown length, `**d` with `d` of unknown
keys — see `preprocess_plain` in Proofs/C05Star.lean).

An *expansion* of a plain actual replaces `*xs` by `k` further positionals and `**d` by the
keyword names `extra`.  `extra` has no duplicates and is disjoint from the explicit keyword
names: a `**d` repeating an explicit keyword raises `TypeError` before binding starts, so such
expansions never bind and excluding them loses nothing.
-/
namespace Pya

/-- The explicit keyword names of an actual, in insertion order. -/
def Actual.names (a : Actual) : List String := a.kws.map (·.1)

/-- Every positional and keyword is definitely provided, keyword names are distinct. -/
def Actual.plain (a : Actual) : Bool :=
  a.pos.all id && a.kws.all (·.2) && decide a.names.Nodup

/-- `(k, extra)` is a concrete expansion of the star arguments of `a`: `k` elements taken
from `*args` (`0` if there is none), keyword names `extra` taken from `**kwargs` (`[]` if
there is none). -/
def IsExpansion (a : Actual) (k : Nat) (extra : List String) : Prop :=
  (a.starArgs = false → k = 0) ∧ (a.starKw = false → extra = []) ∧
  extra.Nodup ∧ ∀ e ∈ extra, e ∉ a.names

instance (a : Actual) (k : Nat) (extra : List String) : Decidable (IsExpansion a k extra) := by
  unfold IsExpansion; infer_instance

/-- The expansion takes at least one element from every star argument that is present. -/
def NonEmpty (a : Actual) (k : Nat) (extra : List String) : Prop :=
  (a.starArgs = true → 1 ≤ k) ∧ (a.starKw = true → extra ≠ [])

instance (a : Actual) (k : Nat) (extra : List String) : Decidable (NonEmpty a k extra) := by
  unfold NonEmpty; infer_instance

/-- The concrete call an expansion stands for. -/
def Actual.expand (a : Actual) (k : Nat) (extra : List String) : CCall :=
  ⟨a.pos.length + k, a.kws.map (·.1) ++ extra⟩

/-! ### The witness expansion of clause (A), computed from the signature -/

/-- Length of the shortest prefix of the positional parameters after which every parameter
has a default: that many positional slots must be filled by position. -/
def need : List P → Nat
  | [] => 0
  | p :: ps => if need ps = 0 ∧ p.dflt = true then 0 else need ps + 1

/-- Names of the positional-or-keyword parameters at an absolute slot `≥ n` that are not
named by an explicit keyword and have no default. -/
def reqPk (n : Nat) (ks : List String) : Nat → List P → List String
  | _, [] => []
  | off, p :: ps =>
    if n ≤ off ∧ ¬ p.name ∈ ks ∧ p.dflt = false then p.name :: reqPk n ks (off + 1) ps
    else reqPk n ks (off + 1) ps

/-- Names of the keyword-only parameters not named by an explicit keyword, without default. -/
def reqKo (ks : List String) (ko : List P) : List String :=
  (ko.filter fun p => !ks.contains p.name && !p.dflt).map (·.name)

/-- Elements taken from `*args` by the witness expansion: just enough to fill every
positional parameter without default beyond the literal positionals (`0` if none, and `0`
when there is no `*args`). -/
def witK (s : DefSig) (a : Actual) : Nat :=
  if a.starArgs then need (s.po ++ s.pk) - a.pos.length else 0

/-- Keyword names taken from `**kwargs` by the witness expansion: the required
keyword-capable parameters that are still unfilled (positional-or-keyword ones only when no
`*args` fills them by position). -/
def witExtra (s : DefSig) (a : Actual) : List String :=
  if a.starKw then
    (if a.starArgs then [] else reqPk a.pos.length a.names s.po.length s.pk) ++ reqKo a.names s.ko
  else []

/-! ### Syntactic calls: keyword section, CPython's view, expansions

After the positional section Python allows explicit keywords `a=1`, dict literals `**{'a': 1}`
and `**d` in any relative order.  The definitions below are independent of the model
(`preprocess` is not used): they say what a concrete syntactic call means to CPython and what
an expansion of a call with `*xs` / `**d` of unknown length is. `dstarLit ns` stands for a dict
display whose key list is `ns` (distinct keys; a display repeating a key denotes the dict with
that key once). -/

/-- Items of the keyword section: `a=1`, `**{...}`, `**d`. -/
def Arg.isKwItem : Arg → Bool
  | .kw _ | .dstarLit _ | .dstarUnk => true
  | _ => false

/-- The keyword names an item supplies (source order). -/
def Arg.kwNames : Arg → List String
  | .kw n => [n]
  | .dstarLit ns => ns
  | _ => []

/-- The number of positional values an item of known length supplies. -/
def Arg.npos : Arg → Nat
  | .pos => 1
  | .starLit n => n
  | _ => 0

/-- No `*xs` / `**d` of unknown length. -/
def Arg.isConcrete : Arg → Bool
  | .starUnk | .dstarUnk => false
  | _ => true

/-- What CPython sees of a concrete syntactic call: the number of positional values and the
keyword names after `*` / `**` unpacking, in source order. -/
def cCallOf (args : List Arg) : CCall := ⟨(args.map Arg.npos).sum, args.flatMap Arg.kwNames⟩

/-- CPython's verdict on a concrete syntactic call (`true` = binds). A keyword name supplied
twice makes `cCallOf`'s keyword list non-`Nodup`, which `cpyBind` rejects ("got multiple values
for keyword argument"). -/
def cpyCall (s : DefSig) (args : List Arg) : Bool := cpyBind s (cCallOf args)

/-- One item and a concrete value of it: `*xs` becomes a tuple of some length, `**d` a dict
with some key list, everything else stays. -/
inductive ArgExp : Arg → Arg → Prop
  | star (m : Nat) : ArgExp .starUnk (.starLit m)
  | dstar (ds : List String) : ArgExp .dstarUnk (.dstarLit ds)
  | same (a : Arg) : a.isConcrete = true → ArgExp a a

/-- `Expands args c`: `c` is a concrete expansion of the syntactic call `args`, item by item. -/
inductive Expands : List Arg → List Arg → Prop
  | nil : Expands [] []
  | cons {a c : Arg} {as cs : List Arg} : ArgExp a c → Expands as cs → Expands (a :: as) (c :: cs)

end Pya
