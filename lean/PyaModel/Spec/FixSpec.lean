import PyaModel.Core.Fixes
import PyaModel.Core.NodeCopy
import PyaModel.Core.Binding
/-!
# Spec/FixSpec — what an automatic fix is *supposed* to do (property C16)

Independent, executable definitions the model of Core/Fixes.lean is compared against, the scope
predicates used as hypotheses, and the exception classes `D16_*`.

* `specApply`      — applying a replacement: walk the file once; drop a line iff its number is named;
                     put the additions right after the line with the largest named number.
* `codeLines`      — the non-comment lines of a file (what the tokenizer keeps: a line whose first
                     non-blank character is `#` produces no token).
* `lexStates`      — a line-level lexer for Python's string literals, backslash continuations and
                     brackets: the state in which each physical line *starts*.  An own-line comment may be
                     inserted before a line without touching the token stream iff that line starts in state
                     `code` (validated against CPython on every run: stream `spec-lex`).
* `lexTrace`       — the physical lines that reach the token stream with their start states (comment-only
                     lines at a safe start removed); `insert_comment_preserves_tokens_partial` is stated on it.
* `specFinal`      — the file `--add-ignores` should end with: one `ignore[code]` comment, indented like its
                     target, directly above every line that carries a diagnostic.
* `specRange`      — the lines of a statement: `lineno … end_lineno`.
-/
namespace Pya.C16

open Pya.C11 (Line IC codedIC strip isSpace hasSub)

/-! ## Applying a replacement -/

/-- Walk the lines numbered from `i`; drop those whose number is in `ks`. -/
def keepNot (ks : List Nat) : Nat → List Line → List Line
  | _, [] => []
  | i, x :: xs => if ks.contains i then keepNot ks (i + 1) xs else x :: keepNot ks (i + 1) xs

/-- The replacement is well formed for the file: it names at least one line, every named line exists
(1-based), none is named twice. -/
def ChangeWF (ls : List Line) (dels : List Nat) : Bool :=
  !dels.isEmpty && dels.all (fun k => decide (1 ≤ k) && decide (k ≤ ls.length)) && decide dels.Nodup

/-- Largest element (0 for the empty list; `ChangeWF` excludes it). -/
def maxOf (ks : List Nat) : Nat := ks.foldl max 0

/-- The result an applied replacement should have: the named lines are gone, the additions stand where
the last named line stood, every other line keeps its content and the relative order is unchanged. -/
def specApply (ls : List Line) (dels : List Nat) (adds : List Line) : List Line :=
  keepNot dels 1 (ls.take (maxOf dels)) ++ adds ++ ls.drop (maxOf dels)

/-! ## Comments and code lines -/

/-- The line consists of a comment only. -/
def isCommentLine (l : Line) : Bool := (lstrip l).head? == some '#'

/-- The lines that are not comment-only lines. -/
def codeLines (ls : List Line) : List Line := ls.filter fun l => !isCommentLine l

/-! ## Scope predicates and the exception classes of `--add-ignores` -/

def startsHash (l : Line) : Bool := l.head? == some '#'

/-- A line inserted before line `p` lies inside the leading comment block (every line above it starts
with `#`; vacuously so for `p = 1`): `has_file_level_ignore` reads it as a *file-level* ignore. -/
def inHeader (lines : List Line) (p : Nat) : Bool := (lines.take (p - 1)).all startsHash

/-- **Class `twoCodesOneLine`**: two diagnostics with different codes on one line. -/
def D16_twoCodesOneLine (raw : List Diag) : Bool :=
  raw.any fun d => raw.any fun e => d.line == e.line && d.code != e.code

/-- **Class `ignoreAboveLineOne`**: a diagnostic on line 1 — or, generally, on the first line after a
leading block of `#` lines: the ignore comment inserted above it becomes a file-level ignore. -/
def D16_ignoreAboveLineOne (lines : List Line) (raw : List Diag) : Bool :=
  raw.any fun d => inHeader lines d.line

/-- **Former class `splitlinesMismatch`** (repaired by ba62f49; kept for the regression witness): the file
contains a character at which `str.splitlines` breaks lines but `readlines` and the tokenizer do not
(form feed, `\x0b`, `\x1c`‥`\x1e`, `\x85`, U+2028/9, a bare `\r`). -/
def oldD16_splitlinesMismatch (lines : List Line) : Bool := lines.any fun l => l.any isExtraSep

/-- Every diagnostic points at a line of the file. -/
def InRange (lines : List Line) (raw : List Diag) : Bool :=
  raw.all fun d => decide (1 ≤ d.line) && decide (d.line ≤ lines.length)

/-- The scope of the termination theorem, as one decidable predicate. -/
def AddIgnoresOK (st : St) : Bool :=
  InRange st.lines st.raw && !D16_twoCodesOneLine st.raw && !D16_ignoreAboveLineOne st.lines st.raw

/-- The scope without the one-code-per-line condition. -/
def AddIgnoresScope (st : St) : Bool :=
  InRange st.lines st.raw && !D16_ignoreAboveLineOne st.lines st.raw

/-- Two diagnostics with different codes on one line that nothing silences yet: no file-level ignore for
either code, no trailing ignore comment on their line, and the line above is not a bare ignore comment.
(In a file without ignore comments this is `D16_twoCodesOneLine`.) -/
def unprotectedPair (st : St) : Bool :=
  st.raw.any fun d1 => st.raw.any fun d2 =>
    d1.line == d2.line && d1.code != d2.code &&
    !fileLevel st.lines d1.code && !fileLevel st.lines d2.code &&
    !Pya.C11.trailingMatch (lineAt st.lines d1.line) (some d1.code) &&
    !Pya.C11.trailingMatch (lineAt st.lines d1.line) (some d2.code) &&
    !(strip (prevLineOf st.lines d1.line) == IC)

/-- The file with one line inserted before 0-based index `i`. -/
def insertAt (lines : List Line) (i : Nat) (l : Line) : List Line := lines.take i ++ l :: lines.drop i

/-- One round as it is meant: the first reported diagnostic gets its comment, indented like its line,
directly above it (line numbers and text taken from the file itself). -/
def specRound (st : St) : St :=
  match visible st.lines st.raw with
  | [] => st
  | d :: _ =>
    { lines := insertAt st.lines (d.line - 1) (List.replicate (getIndentation (lineAt st.lines d.line)) ' ' ++ codedIC d.code),
      raw := st.raw.map (shiftDiag d.line) }

/-- The file `--add-ignores` should produce: above every line with a diagnostic one comment naming its code
(the first reported one), indented like the line. -/
def specFinalFrom (raw : List Diag) : Nat → List Line → List Line
  | _, [] => []
  | i, l :: ls =>
    match raw.find? (fun d => d.line == i) with
    | some d => (List.replicate (getIndentation l) ' ' ++ codedIC d.code) :: l :: specFinalFrom raw (i + 1) ls
    | none => l :: specFinalFrom raw (i + 1) ls

def specFinal (st : St) : List Line := specFinalFrom st.raw 1 st.lines

/-! ## A line-level lexer: where may a comment line be inserted? -/

/-- State at the start of a physical line. -/
inductive Lex
  /-- between tokens, bracket depth `depth` -/
  | code (depth : Nat)
  /-- the previous line ended in a backslash outside strings and comments -/
  | cont (depth : Nat)
  /-- inside a `'…'` / `"…"` literal continued by backslash-newline -/
  | single (q : Char) (depth : Nat)
  /-- inside a triple-quoted literal -/
  | triple (q : Char) (depth : Nat)
  deriving DecidableEq, Repr, Inhabited

/-- Scanner mode inside a physical line. -/
inductive Mode
  | code (depth : Nat)
  /-- just after a backslash in code -/
  | bslash (depth : Nat)
  /-- inside a comment -/
  | comment (depth : Nat)
  /-- inside a string literal opened by `q` (`triple`: by `qqq`) -/
  | str (q : Char) (triple : Bool) (depth : Nat)
  /-- just after a backslash inside a string literal -/
  | esc (q : Char) (triple : Bool) (depth : Nat)
  /-- skip `k` more characters (the rest of a `qqq` delimiter), then continue in `m` -/
  | skip (k : Nat) (m : Mode)
  deriving Repr, Inhabited

def isQuote (c : Char) : Bool := c == '\'' || c == '"'

/-- `cs` starts with two `q`s. -/
def twoMore (q : Char) (cs : Line) : Bool :=
  match cs with
  | a :: b :: _ => a == q && b == q
  | _ => false

/-- One character; `cs` is the rest of the line (look-ahead for `qqq`). -/
def step (m : Mode) (c : Char) (cs : Line) : Mode :=
  match m with
  | .code d =>
    if c == '#' then .comment d
    else if c == '\\' then .bslash d
    else if isQuote c then (if twoMore c cs then .skip 2 (.str c true d) else .str c false d)
    else if c == '(' || c == '[' || c == '{' then .code (d + 1)
    else if c == ')' || c == ']' || c == '}' then .code (d - 1)
    else .code d
  | .bslash d => .code d
  | .comment d => .comment d
  | .str q t d =>
    if c == '\\' then .esc q t d
    else if c == q then (if t then (if twoMore q cs then .skip 2 (.code d) else .str q t d) else .code d)
    else .str q t d
  | .esc q t d => .str q t d
  | .skip (k + 1) m' => if k = 0 then m' else .skip k m'
  | .skip 0 m' => m'

def scan : Mode → Line → Mode
  | m, [] => m
  | m, c :: cs => scan (step m c cs) cs

/-- The state of the next line's start, from the mode at the end of this line. -/
def Mode.atEol : Mode → Lex
  | .code d => .code d
  | .bslash 0 => .cont 0
  | .bslash (d + 1) => .code (d + 1)       -- inside brackets backslash-newline is plain white space
  | .comment d => .code d
  | .str q true d => .triple q d
  | .str _ false d => .code d              -- unterminated literal: a syntax error in Python
  | .esc q true d => .triple q d
  | .esc q false d => .single q d
  | .skip _ m => m.atEol

def Lex.enter : Lex → Mode
  | .code d => .code d
  | .cont d => .code d
  | .single q d => .str q false d
  | .triple q d => .str q true d

/-- One physical line. -/
def scanLine (st : Lex) (l : Line) : Lex := (scan st.enter l).atEol

/-- State in which line `p` (1-based) starts. -/
def lexStateAt (lines : List Line) (p : Nat) : Lex := (lines.take (p - 1)).foldl scanLine (.code 0)

/-- A comment line inserted before line `p` ends up inside a string literal. -/
def insideStringAt (lines : List Line) (p : Nat) : Bool :=
  match lexStateAt lines p with
  | .single _ _ => true
  | .triple _ _ => true
  | _ => false

/-- A comment line inserted before line `p` cuts a backslash continuation outside brackets. -/
def afterBackslashAt (lines : List Line) (p : Nat) : Bool :=
  match lexStateAt lines p with
  | .cont _ => true
  | _ => false

/-- **Class `insideString`**: a diagnostic on a line that starts inside a string literal (a replacement
field of a multi-line f-string, the continuation of a literal): the inserted comment becomes part of the
string. -/
def D16_insideString (lines : List Line) (raw : List Diag) : Bool := raw.any fun d => insideStringAt lines d.line

/-- **Class `afterBackslash`**: a diagnostic on a line that continues the previous one after a backslash
(outside brackets): the inserted comment line breaks the logical line — the file no longer parses. -/
def D16_afterBackslash (lines : List Line) (raw : List Diag) : Bool := raw.any fun d => afterBackslashAt lines d.line

/-- A comment-only line may stand where a physical line starts in this state: between tokens (a
backslash continuation *inside brackets* counts as such, see `Mode.atEol`). -/
def Lex.safeStart : Lex → Bool
  | .code _ => true
  | _ => false

/-- The physical lines that reach the token stream, each with the lexer state it starts in: comment-only
lines at a safe start are dropped (the tokenizer produces only `COMMENT`/`NL` for them, which the parser
never sees). Two files with the same trace have the same token stream. -/
def lexTrace : Lex → List Line → List (Lex × Line)
  | _, [] => []
  | st, l :: ls =>
    if st.safeStart && isCommentLine l then lexTrace (scanLine st l) ls
    else (st, l) :: lexTrace (scanLine st l) ls

/-! ## Statement ranges (`replace_node` / `remove_node`) -/

/-- The lines of a statement that starts on `first` and ends on `stmtEnd` (`ast` `lineno`/`end_lineno`). -/
def specRange (first stmtEnd : Nat) : List Nat := List.range' first (stmtEnd + 1 - first)

/-- **Class `stmtRangeOverrun`** (what is left of `stmtRange` after d5dca9e): the indentation heuristic of
`get_line_range_for_node` takes the line *after* the statement for part of it — a line indented deeper than
the statement's first line (only a comment can be, in valid Python), a line starting with a closing bracket
at the same indentation, or a lone triple quote when the statement's first line contains one (the opening
line of a following string statement). -/
def D16_stmtRangeOverrun (lines : List Line) (first stmtEnd : Nat) : Bool :=
  decide (stmtEnd < lines.length) && isPartOfSameNode (lineAt lines first) (lineAt lines (stmtEnd + 1))

/-- **Former class `stmtRange`** (before d5dca9e; kept for the regression witness): additionally, the last
line of a multi-line statement was dropped unless the heuristic accepted it. -/
def oldD16_stmtRange (lines : List Line) (first stmtEnd : Nat) : Bool :=
  (decide (first < stmtEnd) && !isPartOfSameNode (lineAt lines first) (lineAt lines stmtEnd)) ||
  (decide (stmtEnd < lines.length) && isPartOfSameNode (lineAt lines first) (lineAt lines (stmtEnd + 1)))

/-- What the harness's CPython-side oracle (`ast` + `tokenize`) reports about the statement a proposed
replacement rewrites; the classes below are about Python's grammar, which is not modelled. -/
structure FixCase where
  lines : List Line
  first : Nat
  stmtEnd : Nat
  adds : Option (List Line)
  /-- a token of another statement (or of an enclosing compound statement's header) lies on the
  statement's lines: `x = 1; y = 2`, `if c: x = 1`, `else: x = 1` -/
  sharesLine : Bool
  /-- the statement is the only one of its block -/
  soleInBlock : Bool
  /-- the statement is an `elif` clause (an `If` that is the whole `orelse` of its parent, written `elif`) -/
  isElif : Bool
  /-- the rewritten expression is `"…" % x` with a `%d` conversion, or with a single argument that is not
  a tuple display (so that a tuple value would be unpacked by `%` but not by an f-string) -/
  pctRisky : Bool := false
  /-- the statement is a `def` / `class` with decorators (its `lineno` is the line of the `def` keyword,
  the decorator lines lie above it) -/
  decorated : Bool := false
  /-- the statement contains a `:=` (it binds a name other than through its target list) -/
  hasWalrus : Bool := false
  /-- the rewritten `"…" % x` template ends in a newline with text between the last specifier and it -/
  pctTail : Bool := false
  /-- the rewritten `"…" % x` template has a specifier with precision or width `0` (`%.0s`) -/
  pctZero : Bool := false
  /-- the rewritten node is a literal piece of an f-string (its parent is a `JoinedStr`) -/
  inJoinedStr : Bool := false
  deriving Repr

/-- **Class `sharedLine`**: whole lines are replaced, so everything else on them is lost. -/
def D16_sharedLine (c : FixCase) : Bool := c.adds.isSome && c.sharesLine

/-- **Class `emptyBlock`**: removing the only statement of a block leaves the block empty. -/
def D16_emptyBlock (c : FixCase) : Bool := c.adds == some [] && c.soleInBlock

/-- **Class `elifHeader`**: the `elif` clause is re-generated from its `If` node as a new `if` statement. -/
def D16_elifHeader (c : FixCase) : Bool := c.isElif && (match c.adds with | some (_ :: _) => true | _ => false)

/-- **Former class `walrusInRemoved`** (repaired by 21e29d0; kept for the regression witness): the
unused-variable fix deleted a whole `target = value` statement because its *target list* is a single plain
target — although a `:=` inside the statement binds another name, which was lost with it. -/
def oldD16_walrusInRemoved (c : FixCase) : Bool := c.adds == some [] && c.hasWalrus

/-- The guard of `_check_function_unused_vars` **before 21e29d0**: the shape of the target list only. -/
def oldRemovalGuard (s : AssignStmt) (_u : String) : Bool :=
  (s.targets.length == 1) && !((s.targets.nth 0).isKind ["List", "Tuple"])

/-- **Former class `fstringTail`** (repaired by c3b1485; no longer printed by the driver — a recurrence is a
new violation): `use_fstrings` on a template ending in a newline dropped the text between the last specifier
and that newline (`"%s and %s!\n"` → `f"{a} and {c}\n"`). -/
def oldD16_fstringTail (c : FixCase) : Bool := c.pctTail && (match c.adds with | some (_ :: _) => true | _ => false)

/-- **Former class `fstringZeroPrecision`** (repaired by efac5a4; no longer printed — a recurrence is new):
`maybe_replace_with_fstring` tested the parts of a specifier for
truthiness, so a precision (or width) of `0` counts as absent: `"%.0s" % x` (always empty) becomes `f"{x}"`. -/
def oldD16_fstringZeroPrecision (c : FixCase) : Bool := c.pctZero && (match c.adds with | some (_ :: _) => true | _ => false)

/-- **Former class `missingFInFstring`** (repaired by 2d2e8a7; no longer printed — a recurrence is new):
`missing_f` fired on a literal piece of an f-string (`f"{x} {{y}}"`: the piece
`" {y}"`), and the f-string nested into the f-string is printed as `f'{x}f' {y}''`. -/
def oldD16_missingFInFstring (c : FixCase) : Bool := c.inJoinedStr && (match c.adds with | some (_ :: _) => true | _ => false)

/-- **Class `decoratedStmt`**: a decorated `def`/`class` is regenerated *with* its decorators, but only the
lines from the `def` keyword on are replaced: the old decorator lines stay above the new ones. -/
def D16_decoratedStmt (c : FixCase) : Bool := c.decorated && (match c.adds with | some (_ :: _) => true | _ => false)

/-- **Class `fstringConversion`**: `use_fstrings` turns `"%d" % x` into `f"{x}"` (no `int()` truncation:
`"%d" % 2.5 == "2"`, `"%d" % True == "1"`) and `"%s" % t` into `f"{t}"` (a tuple `t` is no longer unpacked). -/
def D16_fstringConversion (c : FixCase) : Bool := c.pctRisky && (match c.adds with | some (_ :: _) => true | _ => false)

/-! ## Removal fixes: the statement may go iff it binds nothing but the unused name -/

/-- The statement binds no name other than `u`. -/
def soleBinding (s : AssignStmt) (u : String) : Bool := s.bound.all (· == u)

/-- The statement binds a name through a `:=` (what the guard has to exclude; before 21e29d0 it did not). -/
def bindsInValue (s : AssignStmt) : Bool := !s.valueBinds.isEmpty

/-! ## Node-level fixes: the tree with exactly one node replaced -/

mutual
  /-- The tree with the node whose identity is `target` replaced by `r` — everything else, including the
  `None` entries of list fields, as it was. -/
  def substTree (target : Nat) (r : Tree) : Tree → Tree
    | .mk k i fs => if i == target then r else .mk k i (substFields target r fs)
  def substFields (target : Nat) (r : Tree) : FieldList → FieldList
    | .nil => .nil
    | .cons n f rest => .cons n (substField target r f) (substFields target r rest)
  def substField (target : Nat) (r : Tree) : Field → Field
    | .leaf v => .leaf v
    | .child t => .child (substTree target r t)
    | .many items => .many (substItems target r items)
  def substItems (target : Nat) (r : Tree) : ItemList → ItemList
    | .nil => .nil
    | .cons .none rest => .cons .none (substItems target r rest)
    | .cons (.val v) rest => .cons (.val v) (substItems target r rest)
    | .cons (.tree t) rest => .cons (.tree (substTree target r t)) (substItems target r rest)
end

mutual
  /-- A node with identity `target` occurs in the tree. -/
  def occursTree (target : Nat) : Tree → Bool
    | .mk _ i fs => i == target || occursFields target fs
  def occursFields (target : Nat) : FieldList → Bool
    | .nil => false
    | .cons _ f rest => occursField target f || occursFields target rest
  def occursField (target : Nat) : Field → Bool
    | .leaf _ => false
    | .child t => occursTree target t
    | .many items => occursItems target items
  def occursItems (target : Nat) : ItemList → Bool
    | .nil => false
    | .cons .none rest => occursItems target rest
    | .cons (.val _) rest => occursItems target rest
    | .cons (.tree t) rest => occursTree target t || occursItems target rest
end

def rootKind : Tree → String
  | .mk k _ _ => k

/-- `expr` / `stmt` / `other`, given the class names of `ast.expr` and `ast.stmt` subclasses. -/
def catOf (exprs stmts : List String) (k : String) : String :=
  if exprs.contains k then "expr" else if stmts.contains k then "stmt" else "other"

/-- The category of every entry of a list field (a statement list is all `stmt`). -/
def itemCats (cat : String → String) : ItemList → List String
  | .nil => []
  | .cons .none rest => "None" :: itemCats cat rest
  | .cons (.val _) rest => "val" :: itemCats cat rest
  | .cons (.tree t) rest => cat (rootKind t) :: itemCats cat rest

/-- Every entry of the list that *is* the target has the category of the replacement: an expression is
replaced by an expression, a statement by a statement. -/
def rootsKindOk (cat : String → String) (target : Nat) (r : Tree) : ItemList → Bool
  | .nil => true
  | .cons (.tree t) rest => (t.id != target || cat (rootKind t) == cat (rootKind r)) && rootsKindOk cat target r rest
  | .cons _ rest => rootsKindOk cat target r rest

/-- What the route table has to say about a `replace_node` route of the modelled producers
(name_check_visitor.py, signature.py): the rewritten node is known to be an expression and the replacement is
not known to be anything else, or both are statements. -/
def routeKindOk (r : Route) : Bool :=
  r.call != "replace_node" || !(r.file == "name_check_visitor.py" || r.file == "signature.py") ||
  (r.targetKind.startsWith "expr:" && (r.replKind == "unknown" || r.replKind.startsWith "expr:")) ||
  (r.targetKind.startsWith "stmt:" && r.replKind.startsWith "stmt:")

/-- Which entries of a list field are `None` placeholders (`Dict.keys` for `**m`, `kw_defaults`). -/
def noneMask : ItemList → List Bool
  | .nil => []
  | .cons .none rest => true :: noneMask rest
  | .cons _ rest => false :: noneMask rest

end Pya.C16
