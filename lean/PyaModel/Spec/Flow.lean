import PyaModel.Core.Scope
/-!
# Spec/Flow — reaching definitions over the control-flow graph of a skeleton, in two modes (property C09)

The independent specification the property compares pyanalyze against: a reaching-definitions analysis over the
structured control-flow graph with opaque conditions. It never looks at the model in `Core/Scope.lean`
(only the syntax is shared).

A *state* is the set of definitions of the tracked variable that may be current (`none` = the variable is unbound,
`some d` = the assignment `x = d`), kept as a list; the empty list means "this point is not reachable".

* **strict** (`lib = false`): exception edges only where something is called — call statements, `raise`, the
  evaluation of an `if` / `while c` / `for` condition and of a context-manager expression. An exception raised in a
  `try` body goes to any of its handlers (handler selection is opaque); if the `try` has handlers it is not
  propagated further. A suppressing `with` may or may not suppress. `while True` has no false exit (its `else`
  is unreachable).
* **liberal** (`lib = true`): additionally an exception edge before and after every statement (so in particular at
  every statement lexically inside a `try` / `with` body, nested statements included), an exception may pass the
  handlers of a `try` uncaught, every loop may exit after any iteration (from the end of the body or a
  `continue`, straight to the statement after the loop, bypassing `else`), and `while True` may exit.

`finally` bodies are run once for every way the protected part is left (normal, break, continue, return,
exception) and continue that way unless they leave differently themselves.
-/
namespace Pya.C09

def union (a b : List Node) : List Node := a ++ b.filter (fun n => !a.contains n)

/-- The result of analysing a statement or block: the states at each way of leaving it, and the observations
`(u, n)` = "definition `n` is current at some visit of use `u`". -/
structure Out where
  norm : List Node := []
  brk  : List Node := []
  cont : List Node := []
  ret  : List Node := []
  exc  : List Node := []
  uses : List (Nat × Node) := []
deriving Repr, Inhabited

/-- merge everything except `norm` -/
def Out.absorb (o r : Out) : Out :=
  { o with brk := union o.brk r.brk, cont := union o.cont r.cont, ret := union o.ret r.ret,
           exc := union o.exc r.exc, uses := o.uses ++ r.uses }

def Out.absorbN (o r : Out) : Out := { o.absorb r with norm := union o.norm r.norm }

mutual
def Stmt.size : Stmt → Nat
  | .ite t e => 1 + t.size + e.size
  | .loop _ _ b e => 1 + b.size + e.size
  | .try_ b hs e _ f => 1 + b.size + hs.size + e.size + f.size
  | .with_ _ b => 1 + b.size
  | _ => 1
def Block.size : Block → Nat
  | .nil => 0
  | .cons s b => s.size + b.size
def Handlers.size : Handlers → Nat
  | .nil => 0
  | .cons h hs => h.size + hs.size
end

/-- `head₀ = ins`, `headₖ₊₁ = headₖ ∪ back(headₖ)`: the loop-head state after `n` rounds. -/
def iterHead (back : List Node → List Node) (ins : List Node) : Nat → List Node
  | 0 => ins
  | n + 1 => let h := iterHead back ins n; union h (back h)

/-- A loop, given the analysis of its body and of its `else` block. `always`: `while True`;
`condRaises`: evaluating the loop condition / advancing the iterator is a call. -/
@[inline] def flowLoop (lib : Bool) (fBody fElse : List Node → Out) (fuel : Nat) (always condRaises : Bool)
    (ins : List Node) : Out :=
  let head := iterHead (fun h => let r := fBody h; union r.norm r.cont) ins fuel
  let r := fBody head
  let o : Out := { ret := r.ret, exc := if condRaises then union r.exc head else r.exc, uses := r.uses }
  let after := if lib then union r.brk (union r.norm r.cont) else r.brk
  if lib || !always then
    let e := fElse head
    { o.absorb e with norm := union after e.norm }
  else { o with norm := after }

/-- `try … except … else …` without its `finally`, given the analyses of the parts. -/
@[inline] def flowTryExcept (lib : Bool) (fBody fElse : List Node → Out) (fHandlers : List Node → Out)
    (hasHandlers : Bool) (ins : List Node) : Out :=
  let b := fBody ins
  let te : Out := { brk := b.brk, cont := b.cont, ret := b.ret, uses := b.uses }
  let te := te.absorbN (fElse b.norm)
  if hasHandlers then
    let te := te.absorbN (fHandlers b.exc)
    if lib then { te with exc := union te.exc b.exc } else te
  else { te with exc := union te.exc b.exc }

/-- run the `finally` analysis `fFin` on each exit of `te` -/
@[inline] def flowFinally (fFin : List Node → Out) (te : Out) : Out :=
  let rn := fFin te.norm
  let rb := fFin te.brk
  let rc := fFin te.cont
  let rr := fFin te.ret
  let re := fFin te.exc
  let o : Out := { norm := rn.norm, brk := rb.norm, cont := rc.norm, ret := rr.norm, exc := re.norm, uses := te.uses }
  ((((o.absorb rn).absorb rb).absorb rc).absorb rr).absorb re

mutual
def flowStmt (lib : Bool) (x : Nat) : Stmt → List Node → Out
  | .assign v d, ins => { norm := if v = x then [some d] else ins }
  | .use v u, ins => { norm := ins, uses := if v = x then ins.map (fun n => (u, n)) else [] }
  | .call, ins => { norm := ins, exc := ins }
  | .ite t e, ins =>
    (({ exc := ins } : Out).absorbN (flowBlock lib x t ins)).absorbN (flowBlock lib x e ins)
  | .loop isWhile always body orelse, ins =>
    flowLoop lib (flowBlock lib x body) (flowBlock lib x orelse) (body.size + 2) (isWhile && always)
      (!(isWhile && always)) ins
  | .brk _, ins => { brk := ins }
  | .cont _, ins => { cont := ins }
  | .ret, ins => { ret := ins }
  | .raise, ins => { exc := ins }
  | .with_ sup body, ins =>
    let b := flowBlock lib x body ins
    let o := ({ exc := ins } : Out).absorbN b
    if sup then { o with norm := union o.norm b.exc } else o
  | .try_ body hs orelse hasFin fin, ins =>
    let te := flowTryExcept lib (flowBlock lib x body) (flowBlock lib x orelse) (flowHandlers lib x hs)
      (match hs with | .nil => false | _ => true) ins
    if hasFin then flowFinally (flowBlock lib x fin) te else te

/-- every handler is analysed from the exception state of the try body -/
def flowHandlers (lib : Bool) (x : Nat) : Handlers → List Node → Out
  | .nil, _ => {}
  | .cons h hs, ins => ({} : Out).absorbN (flowBlock lib x h ins) |>.absorbN (flowHandlers lib x hs ins)

def flowBlock (lib : Bool) (x : Nat) : Block → List Node → Out
  | .nil, ins => { norm := ins }
  | .cons s b, ins =>
    if ins.isEmpty then {}
    else
      let r := flowStmt lib x s ins
      let o := flowBlock lib x b r.norm
      let e := if lib then union ins r.norm else []
      { norm := o.norm, brk := union r.brk o.brk, cont := union r.cont o.cont, ret := union r.ret o.ret,
        exc := union e (union r.exc o.exc), uses := r.uses ++ o.uses }
end

/-- The definitions of `x` reaching use `u` in function body `p` (entry state: unbound). -/
def reaching (lib : Bool) (p : Block) (x u : Nat) : List Node :=
  ((flowBlock lib x p [none]).uses.filter (·.1 = u)).map (·.2)

mutual
/-- the ids of all `use` statements, in program order -/
def Stmt.useIds : Stmt → List Nat
  | .use _ u => [u]
  | .ite t e => t.useIds ++ e.useIds
  | .loop _ _ b e => b.useIds ++ e.useIds
  | .try_ b hs e _ f => b.useIds ++ hs.useIds ++ e.useIds ++ f.useIds
  | .with_ _ b => b.useIds
  | _ => []
def Block.useIds : Block → List Nat
  | .nil => []
  | .cons s b => s.useIds ++ b.useIds
def Handlers.useIds : Handlers → List Nat
  | .nil => []
  | .cons h hs => h.useIds ++ hs.useIds
end

/-- reaching definitions from an arbitrary entry state -/
def reachingFrom (lib : Bool) (p : Block) (x u : Nat) (entry : List Node) : List Node :=
  ((flowBlock lib x p entry).uses.filter (·.1 = u)).map (·.2)

/-- The entry state of the function for each scope kind. The CFG semantics is the same for every kind; only what
is current on entry differs: a local is unbound, a parameter holds its declared literal, a `global` / `nonlocal`
name holds the binding made outside — and, in the liberal reading, possibly any value the function itself assigns
to it (the function may have been called before). -/
def entryOf (lib : Bool) (k : ScopeKind) (p : Block) (x : Nat) : List Node :=
  match k with
  | .loc => [none]
  | .param d0 => [some d0]
  | .glob d0 => if lib then ownerHolds d0 p x else [some d0]
  | .nonloc d0 => if lib then ownerHolds d0 p x else [some d0]

def reachingK (lib : Bool) (k : ScopeKind) (p : Block) (x u : Nat) : List Node :=
  reachingFrom lib p x u (entryOf lib k p x)

/-! ## The fragment covered by the soundness theorem -/

def Block.isNil : Block → Bool
  | .nil => true
  | _ => false

def Stmt.isJump : Stmt → Bool
  | .brk _ | .cont _ | .ret | .raise => true
  | _ => false

mutual
/-- no `try`, no `with`; loops are `while c:` / `for …:` (not `always_entered`) without `else`;
no statement follows a `break` / `continue` / `return` / `raise` in the same block -/
def Stmt.simple : Stmt → Bool
  | .ite t e => t.simple && e.simple
  | .loop _ a b e => !a && e.isNil && b.simple
  | .try_ _ _ _ _ _ => false
  | .with_ _ _ => false
  | _ => true
def Block.simple : Block → Bool
  | .nil => true
  | .cons s r => s.simple && r.simple && (!s.isJump || r.isNil)
end

mutual
/-- no `try` and no `with` statement -/
def Stmt.noTryWith : Stmt → Bool
  | .ite t e => t.noTryWith && e.noTryWith
  | .loop _ _ b e => b.noTryWith && e.noTryWith
  | .try_ _ _ _ _ _ => false
  | .with_ _ _ => false
  | _ => true
def Block.noTryWith : Block → Bool
  | .nil => true
  | .cons s b => s.noTryWith && b.noTryWith
end

mutual
/-- no statement follows a `break` / `continue` / `return` / `raise` in the same block (no syntactically dead
statements) -/
def Stmt.jumpsLast : Stmt → Bool
  | .ite t e => t.jumpsLast && e.jumpsLast
  | .loop _ _ b e => b.jumpsLast && e.jumpsLast
  | .try_ b hs e _ f => b.jumpsLast && hs.jumpsLast && e.jumpsLast && f.jumpsLast
  | .with_ _ b => b.jumpsLast
  | _ => true
def Block.jumpsLast : Block → Bool
  | .nil => true
  | .cons s b => s.jumpsLast && b.jumpsLast && (!s.isJump || b.isNil)
def Handlers.jumpsLast : Handlers → Bool
  | .nil => true
  | .cons h hs => h.jumpsLast && hs.jumpsLast
end

mutual
/-- no `for` loop that pyanalyze considers always entered (iteration over a non-empty literal); the generated
skeletons iterate over an opaque call -/
def Stmt.plainFor : Stmt → Bool
  | .ite t e => t.plainFor && e.plainFor
  | .loop w a b e => (w || !a) && b.plainFor && e.plainFor
  | .try_ b hs e _ f => b.plainFor && hs.plainFor && e.plainFor && f.plainFor
  | .with_ _ b => b.plainFor
  | _ => true
def Block.plainFor : Block → Bool
  | .nil => true
  | .cons s b => s.plainFor && b.plainFor
def Handlers.plainFor : Handlers → Bool
  | .nil => true
  | .cons h hs => h.plainFor && hs.plainFor
end

mutual
/-- loop-free, `try`/`with`-free skeletons: assignments, uses, calls, `if`/`else`, `return`, `raise` -/
def Stmt.loopFree : Stmt → Bool
  | .ite t e => t.loopFree && e.loopFree
  | .assign _ _ | .use _ _ | .call | .ret | .raise => true
  | _ => false
def Block.loopFree : Block → Bool
  | .nil => true
  | .cons s b => s.loopFree && b.loopFree
end

mutual
/-- the statement / block can complete normally (loop-free fragment) -/
def Stmt.falls : Stmt → Bool
  | .ite t e => t.falls || e.falls
  | .assign _ _ | .use _ _ | .call => true
  | _ => false
def Block.falls : Block → Bool
  | .nil => true
  | .cons s b => s.falls && b.falls
end

mutual
/-- no dead code (loop-free fragment): nothing follows a statement that cannot complete normally -/
def Stmt.noDead : Stmt → Bool
  | .ite t e => t.noDead && e.noDead
  | _ => true
def Block.noDead : Block → Bool
  | .nil => true
  | .cons s b => s.noDead && b.noDead && (s.falls || b.isNil)
end

/-! ## Exception classes (decidable, syntactic) -/
mutual
/-- some loop has a non-empty `else` block -/
def Stmt.hasLoopElse : Stmt → Bool
  | .ite t e => t.hasLoopElse || e.hasLoopElse
  | .loop _ _ b e => (match e with | .nil => false | _ => true) || b.hasLoopElse || e.hasLoopElse
  | .try_ b hs e _ f => b.hasLoopElse || hs.hasLoopElse || e.hasLoopElse || f.hasLoopElse
  | .with_ _ b => b.hasLoopElse
  | _ => false
def Block.hasLoopElse : Block → Bool
  | .nil => false
  | .cons s b => s.hasLoopElse || b.hasLoopElse
def Handlers.hasLoopElse : Handlers → Bool
  | .nil => false
  | .cons h hs => h.hasLoopElse || hs.hasLoopElse
end

mutual
/-- contains a `break` -/
def Stmt.hasBreak : Stmt → Bool
  | .brk _ => true
  | .ite t e => t.hasBreak || e.hasBreak
  | .loop _ _ b e => b.hasBreak || e.hasBreak
  | .try_ b hs e _ f => b.hasBreak || hs.hasBreak || e.hasBreak || f.hasBreak
  | .with_ _ b => b.hasBreak
  | _ => false
def Block.hasBreak : Block → Bool
  | .nil => false
  | .cons s b => s.hasBreak || b.hasBreak
def Handlers.hasBreak : Handlers → Bool
  | .nil => false
  | .cons h hs => h.hasBreak || hs.hasBreak
end

mutual
/-- contains a `while True` -/
def Stmt.hasWhileTrue : Stmt → Bool
  | .ite t e => t.hasWhileTrue || e.hasWhileTrue
  | .loop w a b e => (w && a) || b.hasWhileTrue || e.hasWhileTrue
  | .try_ b hs e _ f => b.hasWhileTrue || hs.hasWhileTrue || e.hasWhileTrue || f.hasWhileTrue
  | .with_ _ b => b.hasWhileTrue
  | _ => false
def Block.hasWhileTrue : Block → Bool
  | .nil => false
  | .cons s b => s.hasWhileTrue || b.hasWhileTrue
def Handlers.hasWhileTrue : Handlers → Bool
  | .nil => false
  | .cons h hs => h.hasWhileTrue || hs.hasWhileTrue
end

mutual
/-- contains a `break`, `continue` or `return` (at any depth) -/
def Stmt.hasJump : Stmt → Bool
  | .brk _ | .cont _ | .ret => true
  | .ite t e => t.hasJump || e.hasJump
  | .loop _ _ b e => b.hasJump || e.hasJump
  | .try_ b hs e _ f => b.hasJump || hs.hasJump || e.hasJump || f.hasJump
  | .with_ _ b => b.hasJump
  | _ => false
def Block.hasJump : Block → Bool
  | .nil => false
  | .cons s b => s.hasJump || b.hasJump
def Handlers.hasJump : Handlers → Bool
  | .nil => false
  | .cons h hs => h.hasJump || hs.hasJump
end

mutual
/-- some `try … finally` has a `break` / `continue` / `return` in its protected part (body, handlers, else) -/
def Stmt.jumpInFinally : Stmt → Bool
  | .ite t e => t.jumpInFinally || e.jumpInFinally
  | .loop _ _ b e => b.jumpInFinally || e.jumpInFinally
  | .try_ b hs e hasFin f =>
    (hasFin && (b.hasJump || hs.hasJump || e.hasJump)) ||
      b.jumpInFinally || hs.jumpInFinally || e.jumpInFinally || f.jumpInFinally
  | .with_ _ b => b.jumpInFinally
  | _ => false
def Block.jumpInFinally : Block → Bool
  | .nil => false
  | .cons s b => s.jumpInFinally || b.jumpInFinally
def Handlers.jumpInFinally : Handlers → Bool
  | .nil => false
  | .cons h hs => h.jumpInFinally || hs.jumpInFinally
end

mutual
/-- contains a `break` or `continue` (at any depth) -/
def Stmt.hasLoopJump : Stmt → Bool
  | .brk _ | .cont _ => true
  | .ite t e => t.hasLoopJump || e.hasLoopJump
  | .loop _ _ b e => b.hasLoopJump || e.hasLoopJump
  | .try_ b hs e _ f => b.hasLoopJump || hs.hasLoopJump || e.hasLoopJump || f.hasLoopJump
  | .with_ _ b => b.hasLoopJump
  | _ => false
def Block.hasLoopJump : Block → Bool
  | .nil => false
  | .cons s b => s.hasLoopJump || b.hasLoopJump
def Handlers.hasLoopJump : Handlers → Bool
  | .nil => false
  | .cons h hs => h.hasLoopJump || hs.hasLoopJump
end

mutual
/-- a `break` / `continue` occurs inside a region pyanalyze wraps in `suppressing_subscope`: the body of a
suppressing `with`, the body of a `try`, or the handlers / `else` of a `try … finally` -/
def Stmt.loopJumpInSuppress : Stmt → Bool
  | .ite t e => t.loopJumpInSuppress || e.loopJumpInSuppress
  | .loop _ _ b e => b.loopJumpInSuppress || e.loopJumpInSuppress
  | .try_ b hs e hasFin f =>
    b.hasLoopJump || (hasFin && (hs.hasLoopJump || e.hasLoopJump)) ||
      b.loopJumpInSuppress || hs.loopJumpInSuppress || e.loopJumpInSuppress || f.loopJumpInSuppress
  | .with_ sup b => (sup && b.hasLoopJump) || b.loopJumpInSuppress
  | _ => false
def Block.loopJumpInSuppress : Block → Bool
  | .nil => false
  | .cons s b => s.loopJumpInSuppress || b.loopJumpInSuppress
def Handlers.loopJumpInSuppress : Handlers → Bool
  | .nil => false
  | .cons h hs => h.loopJumpInSuppress || hs.loopJumpInSuppress
end

mutual
/-- contains a `try` or a suppressing `with` (at any depth) -/
def Stmt.hasSuppressing : Stmt → Bool
  | .try_ _ _ _ _ _ => true
  | .with_ sup b => sup || b.hasSuppressing
  | .ite t e => t.hasSuppressing || e.hasSuppressing
  | .loop _ _ b e => b.hasSuppressing || e.hasSuppressing
  | _ => false
def Block.hasSuppressing : Block → Bool
  | .nil => false
  | .cons s b => s.hasSuppressing || b.hasSuppressing
end

mutual
/-- some `finally` block contains a `try` or a suppressing `with` -/
def Stmt.suppressInFinally : Stmt → Bool
  | .ite t e => t.suppressInFinally || e.suppressInFinally
  | .loop _ _ b e => b.suppressInFinally || e.suppressInFinally
  | .try_ b hs e hasFin f =>
    (hasFin && f.hasSuppressing) ||
      b.suppressInFinally || hs.suppressInFinally || e.suppressInFinally || f.suppressInFinally
  | .with_ _ b => b.suppressInFinally
  | _ => false
def Block.suppressInFinally : Block → Bool
  | .nil => false
  | .cons s b => s.suppressInFinally || b.suppressInFinally
def Handlers.suppressInFinally : Handlers → Bool
  | .nil => false
  | .cons h hs => h.suppressInFinally || hs.suppressInFinally
end

mutual
/-- contains a loop whose body contains a `break` / `continue` -/
def Stmt.hasLoopWithJump : Stmt → Bool
  | .ite t e => t.hasLoopWithJump || e.hasLoopWithJump
  | .loop _ _ b e => b.hasLoopJump || b.hasLoopWithJump || e.hasLoopWithJump
  | .try_ b hs e _ f => b.hasLoopWithJump || hs.hasLoopWithJump || e.hasLoopWithJump || f.hasLoopWithJump
  | .with_ _ b => b.hasLoopWithJump
  | _ => false
def Block.hasLoopWithJump : Block → Bool
  | .nil => false
  | .cons s b => s.hasLoopWithJump || b.hasLoopWithJump
def Handlers.hasLoopWithJump : Handlers → Bool
  | .nil => false
  | .cons h hs => h.hasLoopWithJump || hs.hasLoopWithJump
end

mutual
/-- some loop body contains (at any depth) a loop whose body contains a `break` / `continue` -/
def Stmt.nestedLoopJump : Stmt → Bool
  | .ite t e => t.nestedLoopJump || e.nestedLoopJump
  | .loop _ _ b e => b.hasLoopWithJump || b.nestedLoopJump || e.nestedLoopJump
  | .try_ b hs e _ f => b.nestedLoopJump || hs.nestedLoopJump || e.nestedLoopJump || f.nestedLoopJump
  | .with_ _ b => b.nestedLoopJump
  | _ => false
def Block.nestedLoopJump : Block → Bool
  | .nil => false
  | .cons s b => s.nestedLoopJump || b.nestedLoopJump
def Handlers.nestedLoopJump : Handlers → Bool
  | .nil => false
  | .cons h hs => h.nestedLoopJump || hs.nestedLoopJump
end

mutual
/-- some `finally` block contains a `break` / `continue` -/
def Stmt.jumpOutOfFinally : Stmt → Bool
  | .ite t e => t.jumpOutOfFinally || e.jumpOutOfFinally
  | .loop _ _ b e => b.jumpOutOfFinally || e.jumpOutOfFinally
  | .try_ b hs e hasFin f =>
    (hasFin && f.hasLoopJump) ||
      b.jumpOutOfFinally || hs.jumpOutOfFinally || e.jumpOutOfFinally || f.jumpOutOfFinally
  | .with_ _ b => b.jumpOutOfFinally
  | _ => false
def Block.jumpOutOfFinally : Block → Bool
  | .nil => false
  | .cons s b => s.jumpOutOfFinally || b.jumpOutOfFinally
def Handlers.jumpOutOfFinally : Handlers → Bool
  | .nil => false
  | .cons h hs => h.jumpOutOfFinally || hs.jumpOutOfFinally
end

/-- **R1** `loopElse`: the `else` block of a loop is visited from the pre-loop state. -/
def D09_loopElse (p : Block) : Bool := p.hasLoopElse
/-- **R2** `secondVisitSeed`: the collect-phase second visit of a loop body is seeded with the after-loop state;
for `while True` that state does not contain the state before the loop (unsound and imprecise). -/
def D09_secondVisitSeed (p : Block) : Bool := p.hasWhileTrue
/-- **R2b** `loopBreak` (precision only): same root cause; the after-loop state contains the states at `break`
statements, which flow back into the body on the second visit. -/
def D09_loopBreak (p : Block) : Bool := p.hasBreak
/-- **R3** `jumpThroughFinally`: `break` / `continue` / `return` inside `try … finally` is recorded before the
`finally` body ran. -/
def D09_jumpThroughFinally (p : Block) : Bool := p.jumpInFinally
/-- **R4** `loopJumpInSuppressing`: `suppressing_subscope` copies `%LEAVES_LOOP` of a `break` / `continue` seen inside
the block into the scope that stands for "the block was interrupted", which is then treated as leaving the loop. -/
def D09_loopJumpInSuppressing (p : Block) : Bool := p.loopJumpInSuppress
/-- **R5** `suppressingInFinally`: `suppressing_subscope` finds the assignments made inside the block as "the nodes
that are new in `name_to_all_definition_nodes`"; a `finally` body is visited twice, on the second (main) visit
nothing is new any more. -/
def D09_suppressingInFinally (p : Block) : Bool := p.suppressInFinally
/-- **R6** `nestedLoopJump` (precision only): the collect-phase second visit of a loop body runs outside that loop's
`loop_scope`, so the scopes of its `break` / `continue` statements are appended to the `current_loop_scopes` of the
*enclosing* loop and surface after that loop. -/
def D09_nestedLoopJump (p : Block) : Bool := p.nestedLoopJump
/-- **R7** `jumpOutOfFinally`: the visit of a `finally` body for the case "the protected part failed" happens in a
subscope that is thrown away (the exception is assumed to propagate); a `break` / `continue` in the `finally`
body swallows the exception and continues with that state. -/
def D09_jumpOutOfFinally (p : Block) : Bool := p.jumpOutOfFinally

end Pya.C09
