import PyaModel.Core.ClassTable
/-!
# Spec/Mem — structural membership of an object in a type (the specification)

`mem tbl o T`: does the concrete object `o` belong to the static type `T`?
Decisions where the property text is silent are those of DESIGN.md §6/C03:
promotion applies wherever nominal membership is asked (also under `type[...]`);
a NewType over `c` contains exactly the objects whose class is `c`; generic ABC
targets constrain the elements of builtin containers (for `dict`: keys, or keys and
values for two-parameter targets) and are nominal for every other object.
-/
namespace Pya

mutual
def mem (tbl : ClassTable) : Obj → Ty → Bool
  | _, .any => true
  | o, .known k => Obj.same o k
  | o, .typed c => sub tbl (clsOf tbl o) c
  | o, .newtype _ c => clsOf tbl o == c
  | o, .generic c args => sub tbl (clsOf tbl o) c && memArgs tbl o args
  | o, .seq c ms => sub tbl (clsOf tbl o) c && memSeq tbl o ms
  | _, .many _ => false
  | o, .union ts => memAny tbl o ts
  | o, .subclass c => match o with
    | .cls d => sub tbl d c
    | _ => false
  | o, .annotated t => mem tbl o t
  | _, .tvar _ => false
/-- Element constraints of a generic target on a builtin container. -/
def memArgs (tbl : ClassTable) : Obj → List Ty → Bool
  | .tuple xs, [t] => memAll tbl xs t
  | .list xs, [t] => memAll tbl xs t
  | .set xs, [t] => memAll tbl xs t
  | .fset xs, [t] => memAll tbl xs t
  | .dict ks _, [k] => memAll tbl ks k
  | .dict ks vs, [k, v] => memAll tbl ks k && memAll tbl vs v
  | _, _ => true
def memSeq (tbl : ClassTable) : Obj → List Ty → Bool
  | .tuple xs, ms => matchSeq tbl xs ms
  | .list xs, ms => matchSeq tbl xs ms
  | _, _ => false
def memAll (tbl : ClassTable) : List Obj → Ty → Bool
  | [], _ => true
  | x :: xs, t => mem tbl x t && memAll tbl xs t
def memAny (tbl : ClassTable) : Obj → List Ty → Bool
  | _, [] => false
  | o, t :: ts => mem tbl o t || memAny tbl o ts
/-- Match the elements against a member pattern; `many t` matches any number of `t`s. -/
def matchSeq (tbl : ClassTable) : List Obj → List Ty → Bool
  | [], [] => true
  | xs, .many t :: ms =>
    matchSeq tbl xs ms ||
      (match xs with
       | [] => false
       | x :: xs' => mem tbl x t && matchSeq tbl xs' (.many t :: ms))
  | x :: xs, t :: ms => mem tbl x t && matchSeq tbl xs ms
  | _, _ => false
end

end Pya
