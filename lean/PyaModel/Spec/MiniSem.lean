import PyaModel.Core.MiniPy
import PyaModel.Spec.Mem
import PyaModel.Spec.OpsSpec
/-!
# Spec/MiniSem — CPython's behaviour on the MiniPy fragment (the specification side of C01)

A big-step evaluator over `Obj`. Every loop of the fragment is a `for` over a finite object, so the semantics is a
total function (`forLoop` recurses on the list of elements); an evaluation that raises (`IndexError`, unbound name,
subscript of a non-sequence, wrong number of values to unpack, unsupported `+`) yields `none` and the values recorded
before the exception stay in the log. `log` lists `(node path, runtime value)` for every expression node that was
evaluated, with the node paths of `Core/MiniPy.lean`. The helper functions a program calls are a parameter (`Impl`).
Validated against CPython on every run (stream `eval` of harness/props/c01.py).
-/
namespace Pya.C01

abbrev Env := List (Var × Obj)

def Env.get (env : Env) (x : Var) : Option Obj :=
  match env with
  | [] => none
  | (y, o) :: rest => if y == x then some o else Env.get rest x

def Env.set (env : Env) (x : Var) (o : Obj) : Env :=
  match env with
  | [] => [(x, o)]
  | (y, v) :: rest => if y == x then (y, o) :: rest else (y, v) :: Env.set rest x o

abbrev RLog := List (Path × Obj)

/-- What the helper functions do: `impl f args` = the value `h_f(*args)` returns, `none` if it raises. The soundness
theorem is parametric in it (assumption `ImplOk`: whatever a helper returns belongs to its declared return type). -/
abbrev Impl := Nat → List Obj → Option Obj

/-- the elements iteration / unpacking sees. Sets and dicts are iterated in the order of their `Obj` representation
(CPython: hash / insertion order — any order is a permutation of it, and the types involved constrain all elements
alike). Everything else raises TypeError. -/
def iterObj : Obj → Option (List Obj)
  | .tuple xs => some xs
  | .list xs => some xs
  | .str s => some (s.toList.map fun c => Obj.str (String.singleton c))
  | .bytes s => some (s.toList.map fun c => Obj.int c.toNat)
  | .set xs => some xs
  | .fset xs => some xs
  | .dict ks _ => some ks
  | _ => none

/-- `a + b`: ints and bools (a bool counts as 0 / 1), strs, bytes, tuples, lists. Floats, complex numbers and instances
(IntEnum members among them) are opaque tokens in `Obj`: their arithmetic is outside this semantics (`none`), like every
combination on which CPython raises TypeError. -/
def addObj : Obj → Obj → Option Obj
  | .int a, .int b => some (.int (a + b))
  | .int a, .bool b => some (.int (a + if b then 1 else 0))
  | .bool a, .int b => some (.int ((if a then 1 else 0) + b))
  | .bool a, .bool b => some (.int ((if a then 1 else 0) + if b then 1 else 0))
  | .str a, .str b => some (.str (a ++ b))
  | .bytes a, .bytes b => some (.bytes (a ++ b))
  | .tuple xs, .tuple ys => some (.tuple (xs ++ ys))
  | .list xs, .list ys => some (.list (xs ++ ys))
  | _, _ => none

/-- `x += y`: a list is extended by the elements of any iterable (`list.__iadd__`), everything else is `x + y`.
(In CPython the list object is extended in place; programs that reach it through another name as well are outside the
property — "no mutation of containers through aliases" — and outside this value semantics.) -/
def augObj (x y : Obj) : Option Obj :=
  match x with
  | .list xs => (iterObj y).map fun ys => .list (xs ++ ys)
  | _ => addObj x y

/-- sequential binding of the targets (a repeated name keeps the last value) -/
def setAll (env : Env) : List Var → List Obj → Env
  | x :: xs, o :: os => setAll (env.set x o) xs os
  | _, _ => env

/-- How a block ends. -/
inductive Outcome where
  | normal (env : Env)
  | returned (o : Obj)
  | raised
  deriving Repr, Inhabited

/-- `for x in os: run` — `run` executes the body in a given environment -/
def forLoop (run : Env → Outcome × RLog) (x : Var) : Env → List Obj → Outcome × RLog
  | env, [] => (.normal env, [])
  | env, o :: os =>
    match run (env.set x o) with
    | (.normal env1, lg) =>
      let (out, lg2) := forLoop run x env1 os
      (out, lg ++ lg2)
    | (out, lg) => (out, lg)

section
variable (impl : Impl)

/-- `x is None` / `x is not None` / `not …` -/
def evalTest (env : Env) : Test → Option Bool
  | .isNone x pos => (env.get x).map fun o => isNoneObj o == pos
  | .tnot t => (evalTest env t).map (!·)

/-- `o[i]` for a literal int index: tuples, lists, strings and bytes (anything else raises TypeError here) -/
def subObj (o : Obj) (i : Int) : Option Obj :=
  match o with
  | .tuple xs => C19.elemAt xs i
  | .list xs => C19.elemAt xs i
  | .str s => (C19.elemAt s.toList i).map fun c => Obj.str (String.singleton c)
  | .bytes s => (C19.elemAt s.toList i).map fun c => Obj.int c.toNat
  | _ => none

mutual
def evalExpr (env : Env) (p : Path) : Expr → Option Obj × RLog
  | .lit o => (some o, [(p, o)])
  | .var x =>
    match env.get x with
    | some o => (some o, [(p, o)])
    | none => (none, [])
  | .disp isList es =>
    match evalList env p 0 es with
    | (some os, lg) =>
      let o := if isList then Obj.list os else Obj.tuple os
      (some o, lg ++ [(p, o)])
    | (none, lg) => (none, lg)
  | .sub e i =>
    match evalExpr env (0 :: p) e with
    | (some o, lg) =>
      (match subObj o i with
       | some r => (some r, lg ++ [(p, r)])
       | none => (none, lg))
    | (none, lg) => (none, lg)
  | .ite t a b =>
    match evalTest env t with
    | some true =>
      (match evalExpr env (1 :: p) a with
       | (some o, lg) => (some o, lg ++ [(p, o)])
       | (none, lg) => (none, lg))
    | some false =>
      (match evalExpr env (2 :: p) b with
       | (some o, lg) => (some o, lg ++ [(p, o)])
       | (none, lg) => (none, lg))
    | none => (none, [])
  | .call f args =>
    match evalList env p 0 args with
    | (some os, lg) =>
      (match impl f os with
       | some r => (some r, lg ++ [(p, r)])
       | none => (none, lg))
    | (none, lg) => (none, lg)
  | .add a b =>
    match evalExpr env (0 :: p) a with
    | (some x, lg) =>
      (match evalExpr env (1 :: p) b with
       | (some y, lg2) =>
         (match addObj x y with
          | some r => (some r, lg ++ lg2 ++ [(p, r)])
          | none => (none, lg ++ lg2))
       | (none, lg2) => (none, lg ++ lg2))
    | (none, lg) => (none, lg)
def evalList (env : Env) (p : Path) (k : Nat) : List Expr → Option (List Obj) × RLog
  | [] => (some [], [])
  | e :: es =>
    match evalExpr env (k :: p) e with
    | (some o, lg) =>
      (match evalList env p (k + 1) es with
       | (some os, lg2) => (some (o :: os), lg ++ lg2)
       | (none, lg2) => (none, lg ++ lg2))
    | (none, lg) => (none, lg)
end

mutual
def execStmt (env : Env) (p : Path) : Stmt → Outcome × RLog
  | .assign x e =>
    match evalExpr impl env (0 :: p) e with
    | (some o, lg) => (.normal (env.set x o), lg)
    | (none, lg) => (.raised, lg)
  | .ret e =>
    match evalExpr impl env (0 :: p) e with
    | (some o, lg) => (.returned o, lg)
    | (none, lg) => (.raised, lg)
  | .unpack xs e =>
    match evalExpr impl env (0 :: p) e with
    | (some o, lg) =>
      (match iterObj o with
       | some os => if os.length == xs.length then (.normal (setAll env xs os), lg) else (.raised, lg)
       | none => (.raised, lg))
    | (none, lg) => (.raised, lg)
  | .aug x e =>
    match evalExpr impl env (0 :: p) e with
    | (some y, lg) =>
      (match env.get x with
       | some xv =>
         (match augObj xv y with
          | some r => (.normal (env.set x r), lg)
          | none => (.raised, lg))
       | none => (.raised, lg))
    | (none, lg) => (.raised, lg)
  | .forS x e body =>
    match evalExpr impl env (0 :: p) e with
    | (some o, lg) =>
      (match iterObj o with
       | some os =>
         let (out, lg2) := forLoop (fun env' => execBlock env' (1 :: p) 0 body) x env os
         (out, lg ++ lg2)
       | none => (.raised, lg))
    | (none, lg) => (.raised, lg)
  | .ifs t body els =>
    match evalTest env t with
    | some true => execBlock env (1 :: p) 0 body
    | some false => execBlock env (2 :: p) 0 els
    | none => (.raised, [])
def execBlock (env : Env) (p : Path) (k : Nat) : List Stmt → Outcome × RLog
  | [] => (.normal env, [])
  | s :: ss =>
    match execStmt env (k :: p) s with
    | (.normal env1, lg) =>
      let (out, lg2) := execBlock env1 p (k + 1) ss
      (out, lg ++ lg2)
    | (out, lg) => (out, lg)
end

end

def initEnv (k : Nat) : List Obj → Env
  | [] => []
  | o :: os => (k, o) :: initEnv (k + 1) os

/-- Calling the function on the arguments: outcome and the log of evaluated expression nodes. -/
def exec (impl : Impl) (prog : Prog) (args : List Obj) : Outcome × RLog :=
  execBlock impl (initEnv 0 args) [] 0 prog.body

/-- the assumption on the helper functions: whatever `h_f` returns belongs to its declared return type -/
def ImplOk (impl : Impl) (rets : List Ty) : Prop :=
  ∀ f os r, impl f os = some r → mem liveTable r (rets.getD f .any) = true

/-- the arguments are drawn from the declared parameter types -/
def argsOk : List Ty → List Obj → Bool
  | [], [] => true
  | t :: ts, o :: os => mem liveTable o t && argsOk ts os
  | _, _ => false

end Pya.C01
