import PyaModel.Generated.ConstraintSites
/-!
# Spec/NarrowSites — the registered constraint-combination sites

`liveSites` (Generated/ConstraintSites.lean) is regenerated from an AST scan of the live tree on every
run. This hand-written registry pins, for every site where abstract constraints are combined,
inverted, extracted from a value or handed to a scope, the stream of `harness/props/c02.py` whose
inputs reach it **with a `NULL_CONSTRAINT` operand at every position** (an opaque operand / guard /
comparison link), or says explicitly that the site is outside the fragment. A new site, a site that
moved to another function, or a changed number of calls breaks
`constraint_combination_sites_registered` (Props/C02.lean) until it is registered here — i.e. until
someone has decided which stream exercises it. Three independent slips of the same kind ("NULL is
not neutral under inversion": extract_constraints, visit_Compare, the guards of visit_Match) are the
reason for this list.

streams: `narrowb` unit-level AndConstraint/OrConstraint/invert with opaque and other-variable
operands; `flow` and/or/not trees with opaque operands in if / elif / while / ternary / assert /
assert-message / walrus / comprehension position, executed; `flow:chain` comparison chains with a
link that narrows nothing; `match` match statements with guards of the flow grammar, executed;
`e2e` single conditions through the visitor.
-/
namespace Pya.C02

/-- (file, enclosing function, callee, number of calls, stream) -/
def registeredSites : List (String × String × String × Nat × String) := [
  ("name_check_visitor.py", "NameCheckVisitor._visit_possible_constraint", "EquivalentConstraint.make", 1, "flow"),
  ("name_check_visitor.py", "NameCheckVisitor._visit_possible_constraint", "extract_constraints", 1, "flow"),
  ("name_check_visitor.py", "NameCheckVisitor._visit_single_compare", "extract_constraints", 2, "e2e"),
  ("name_check_visitor.py", "NameCheckVisitor.add_constraint", "add_constraint", 1, "flow"),
  ("name_check_visitor.py", "NameCheckVisitor.check_call", "AndConstraint.make", 2, "uncovered: constraints of a call through a union of callables / no_return_unless (only single TypeIs / TypeGuard callees are exercised, stream e2e)"),
  ("name_check_visitor.py", "NameCheckVisitor.check_call", "OrConstraint.make", 1, "uncovered: constraints of a call through a union of callables / no_return_unless (only single TypeIs / TypeGuard callees are exercised, stream e2e)"),
  ("name_check_visitor.py", "NameCheckVisitor.check_call", "add_constraint", 1, "uncovered: constraints of a call through a union of callables / no_return_unless (only single TypeIs / TypeGuard callees are exercised, stream e2e)"),
  ("name_check_visitor.py", "NameCheckVisitor.constraint_from_condition", "extract_constraints", 1, "flow"),
  ("name_check_visitor.py", "NameCheckVisitor.visit_Assert", "add_constraint", 2, "flow:assert,assertmsg"),
  ("name_check_visitor.py", "NameCheckVisitor.visit_Assert", "extract_constraints", 1, "flow:assert,assertmsg"),
  ("name_check_visitor.py", "NameCheckVisitor.visit_Assert", "invert", 1, "flow:assert,assertmsg"),
  ("name_check_visitor.py", "NameCheckVisitor.visit_BoolOp", "AndConstraint.make", 1, "flow"),
  ("name_check_visitor.py", "NameCheckVisitor.visit_BoolOp", "add_constraint", 2, "flow"),
  ("name_check_visitor.py", "NameCheckVisitor.visit_BoolOp", "constraint_from_condition", 1, "flow"),
  ("name_check_visitor.py", "NameCheckVisitor.visit_BoolOp", "invert", 1, "flow"),
  ("name_check_visitor.py", "NameCheckVisitor.visit_Compare", "AndConstraint.make", 1, "flow:chain"),
  ("name_check_visitor.py", "NameCheckVisitor.visit_Compare", "extract_constraints", 1, "flow:chain"),
  ("name_check_visitor.py", "NameCheckVisitor.visit_If", "add_constraint", 2, "flow:if,elif,walrus"),
  ("name_check_visitor.py", "NameCheckVisitor.visit_If", "constraint_from_condition", 1, "flow:if,elif,walrus"),
  ("name_check_visitor.py", "NameCheckVisitor.visit_If", "invert", 1, "flow:if,elif,walrus"),
  ("name_check_visitor.py", "NameCheckVisitor.visit_IfExp", "add_constraint", 2, "flow:ternary"),
  ("name_check_visitor.py", "NameCheckVisitor.visit_IfExp", "constraint_from_condition", 1, "flow:ternary"),
  ("name_check_visitor.py", "NameCheckVisitor.visit_IfExp", "invert", 1, "flow:ternary"),
  ("name_check_visitor.py", "NameCheckVisitor.visit_Match", "AndConstraint.make", 3, "match"),
  ("name_check_visitor.py", "NameCheckVisitor.visit_Match", "add_constraint", 4, "match"),
  ("name_check_visitor.py", "NameCheckVisitor.visit_Match", "constraint_from_condition", 1, "match"),
  ("name_check_visitor.py", "NameCheckVisitor.visit_Match", "invert", 1, "match"),
  ("name_check_visitor.py", "NameCheckVisitor.visit_UnaryOp", "constraint_from_condition", 1, "flow"),
  ("name_check_visitor.py", "NameCheckVisitor.visit_UnaryOp", "invert", 1, "flow"),
  ("name_check_visitor.py", "NameCheckVisitor.visit_While", "add_constraint", 2, "flow:while"),
  ("name_check_visitor.py", "NameCheckVisitor.visit_While", "constraint_from_condition", 2, "flow:while"),
  ("name_check_visitor.py", "NameCheckVisitor.visit_comprehension", "add_constraint", 1, "flow:comp"),
  ("name_check_visitor.py", "NameCheckVisitor.visit_comprehension", "constraint_from_condition", 1, "flow:comp"),
  ("patma.py", "PatmaVisitor.visit_MatchClass", "AndConstraint.make", 1, "uncovered: sub-patterns of class / mapping / sequence patterns are outside the fragment"),
  ("patma.py", "PatmaVisitor.visit_MatchMapping", "AndConstraint.make", 1, "uncovered: sub-patterns of class / mapping / sequence patterns are outside the fragment"),
  ("patma.py", "PatmaVisitor.visit_MatchOr", "OrConstraint.make", 1, "match"),
  ("patma.py", "PatmaVisitor.visit_MatchSequence", "AndConstraint.make", 2, "uncovered: sub-patterns of class / mapping / sequence patterns are outside the fragment"),
  ("stacked_scopes.py", "AndConstraint.invert", "invert", 1, "narrowb"),
  ("stacked_scopes.py", "EquivalentConstraint.invert", "invert", 1, "narrowb"),
  ("stacked_scopes.py", "OrConstraint.invert", "invert", 1, "narrowb"),
  ("stacked_scopes.py", "OrConstraint.make", "invert", 1, "narrowb"),
  ("stacked_scopes.py", "extract_constraints", "AndConstraint.make", 1, "flow"),
  ("stacked_scopes.py", "extract_constraints", "OrConstraint.make", 1, "flow"),
  ("stacked_scopes.py", "extract_constraints", "extract_constraints", 2, "flow")]

def siteRegistered (s : String × String × String × Nat) : Bool :=
  registeredSites.any fun r => r.1 == s.1 && r.2.1 == s.2.1 && r.2.2.1 == s.2.2.1 && r.2.2.2.1 == s.2.2.2

/-- the registered sites no stream reaches -/
def uncoveredSites : List (String × String) :=
  ((registeredSites.filter fun r => r.2.2.2.2.startsWith "uncovered").map fun r => (r.2.1, r.2.2.1)).eraseDups

end Pya.C02
