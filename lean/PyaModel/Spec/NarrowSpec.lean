import PyaModel.Core.Narrow
import PyaModel.Spec.Mem
import PyaModel.Spec.WF
/-!
# Spec/NarrowSpec — what a condition means at run time, and the exception classes of C02

* `holds tbl c o` — Python's own meaning of the test on the object universe: `isinstance` /
  `issubclass` are the *nominal* `issubclass` matrix of CPython (`tbl.issub`, **no** int→float
  promotion), `is` is identity on singletons, `==` / `in` are `Obj.pyEq`, truthiness is `truthy`,
  `len` is `objLen`; a `TypeIs[t]` / `TypeGuard[t]` function is trusted to return `o ∈ t`.
* `condOk tbl c o` — the side conditions of the property's quantifier: the test does not raise on
  `o` (`len` of an unsized object, `issubclass` of a non-class, an unhashable key in a set), the
  literal of an `is` test is a singleton, and for `==`/`!=`/`in`/`not in` equality of `o` with a
  tested literal implies that they are the same object of the same type (`objDeq`; no
  bool/int cross-type equality at any depth).
* `tested c` — the type the condition tests for.
* `mem` (Spec/Mem.lean) — membership of an object in a type.
* the exception classes `d02` (one name per root cause), computed per union member containing the
  object.
-/
namespace Pya.C02

/-! ### structural equality of objects -/
mutual
def objDeq : Obj → Obj → Bool
  | .int a, .int b => a == b
  | .bool a, .bool b => a == b
  | .str a, .str b => a == b
  | .bytes a, .bytes b => a == b
  | .none, .none => true
  | .flt a, .flt b => a == b
  | .cplx a, .cplx b => a == b
  | .inst c i, .inst d j => c == d && i == j
  | .cls c, .cls d => c == d
  | .tuple xs, .tuple ys => objDeqL xs ys
  | .list xs, .list ys => objDeqL xs ys
  | .set xs, .set ys => objDeqL xs ys
  | .fset xs, .fset ys => objDeqL xs ys
  | .dict ks vs, .dict ks' vs' => objDeqL ks ks' && objDeqL vs vs'
  | _, _ => false
def objDeqL : List Obj → List Obj → Bool
  | [], [] => true
  | x :: xs, y :: ys => objDeq x y && objDeqL xs ys
  | _, _ => false
end

/-- objects for which `is` is determined by value: `None`, `True`/`False`, enum members, classes -/
def isSingleton (tbl : ClassTable) : Obj → Bool
  | .none => true
  | .bool _ => true
  | .inst c _ => tbl.isEnum c
  | .cls _ => true
  | _ => false

def elemsOf (container : Obj) : List Obj := (containerElems container).getD []

/-- **Python's meaning of the condition** on an object. -/
def holds (tbl : ClassTable) : Cond → Obj → Bool
  | .isinst cs, o => cs.any fun c => tbl.issub (clsOf tbl o) c
  | .issub cs, o => (match o with | .cls d => cs.any fun c => tbl.issub d c | _ => false)
  | .is l, o => Obj.same o l
  | .isNot l, o => !Obj.same o l
  | .eq l, o => Obj.pyEq o l
  | .ne l, o => !Obj.pyEq o l
  | .inC c, o => (elemsOf c).any fun e => Obj.pyEq o e
  | .notIn c, o => !((elemsOf c).any fun e => Obj.pyEq o e)
  | .truthy, o => truthy o
  | .len op n, o => (match objLen o with | some k => op.eval (Int.ofNat k) n | none => false)
  | .lenRev op n, o => (match objLen o with | some k => op.eval n (Int.ofNat k) | none => false)
  | .typeIs t, o => mem tbl o t
  | .typeGuard t, o => mem tbl o t
  | .matchClass c, o => tbl.issub (clsOf tbl o) c
  | .assertInst c, o => tbl.issub (clsOf tbl o) c
  | .assertIs l, o => Obj.same o l

/-- the literals an equality-like condition compares with -/
def Cond.literals : Cond → List Obj
  | .eq l => [l] | .ne l => [l]
  | .inC c => elemsOf c | .notIn c => elemsOf c
  | _ => []

/-- **Side conditions of the quantifier** (all decidable). -/
def condOk (tbl : ClassTable) (c : Cond) (o : Obj) : Bool :=
  (match c with
   | .issub _ => (match o with | .cls _ => true | _ => false)
   | .len _ _ => (objLen o).isSome
   | .lenRev _ _ => (objLen o).isSome
   | .inC k => (containerElems k).isSome && inDefined k o
   | .notIn k => (containerElems k).isSome && inDefined k o
   | .is l => isSingleton tbl l
   | .isNot l => isSingleton tbl l
   | .assertIs l => isSingleton tbl l
   | _ => true) &&
  c.literals.all fun l => !(Obj.pyEq o l) || objDeq o l

/-- **The tested type.** -/
def tested : Cond → Ty
  | .isinst cs => unite (cs.map .typed)
  | .issub cs => unite (cs.map .subclass)
  | .is l => .known l | .isNot l => .known l
  | .eq l => .known l | .ne l => .known l
  | .inC c => .union ((elemsOf c).map .known)
  | .notIn c => .union ((elemsOf c).map .known)
  | .truthy => Ty.never
  | .len _ _ => Ty.never
  | .lenRev _ _ => Ty.never
  | .typeIs t => t
  | .typeGuard t => t
  | .matchClass c => .typed c
  | .assertInst c => .typed c
  | .assertIs l => .known l

/-- the constraint applied in the branch where the condition evaluates to `pol` -/
def Cond.kAt (T : BoolTable) (c : Cond) (pol : Bool) : K := if pol then c.k T else (c.k T).invert

/-! ### Exception classes

Each is a reason why the applied constraint removes a union member `m` that contains the object
although the condition evaluates to the polarity of the branch:

* `noIntersection` — the positive branch of an isinstance-like test drops a member that neither
  accepts nor is accepted by the tested type (`is_overlapping` is assignability in one of the two
  directions; a common subclass — `class D(B, Cc)` — or a class object whose metaclass is tested is
  missed). Site: value.py `is_overlapping`, stacked_scopes.py `is_instance` branch ("TODO … infer an
  intersection type").
* `promote` — the negative branch drops a member because the tested type *accepts* it through the
  int→float→complex promotion, while `isinstance` is nominal: the object belongs to the tested type
  but the test is false for it.
* `acceptsNonMember` — the negative branch drops a member the tested type accepts although the
  object is not in the tested type at all (unsoundness of assignability: C04 classes, e.g. a
  protocol satisfied through a metaclass attribute).
* `literalInexact` — the positive branch of `==`/`is`/`in` drops a non-literal member because
  `member.is_assignable(KnownValue(l))` is false although `l` belongs to the member (C03 classes,
  e.g. `variadicTuple`).
* `alwaysTrueWrong` — the negative truthiness branch drops a member whose boolability is
  "always true" although the object is falsy (`_get_type_boolability`: an ABC without `__bool__` /
  `__len__` such as `Hashable`, `Iterable`, `Container` has falsy instances).
* `promoteIsValue` — the `is_value` constraint (`assert_is`) tests `isinstance(l, member.typ)`
  nominally, so a member that contains `l` only by promotion is dropped.
-/

def dK (tbl : ClassTable) (T : BoolTable) (k : K) (tst : Ty) (o : Obj) (m : Ty) : List String :=
  match k with
  | .predicate (.isAssignable pat _) true =>
    if !overlapping tbl pat m then ["noIntersection"] else []
  | .predicate (.isAssignable pat po) false =>
    if !po && ca tbl false pat m && !univAssignable m (unann pat) then
      (if mem tbl o tst then ["promote"] else ["acceptsNonMember"])
    else []
  | .isInstance c true =>
    (match unann m with
     | .subclass d => if !tbl.issub (tbl.metaOf d) c then ["noIntersection"] else []
     | inner =>
       match typOf? inner with
       | some d => if !tbl.issub d c && !tbl.issub c d then ["noIntersection"] else []
       | none => [])
  | .isInstance c false =>
    (match unann m with
     | .subclass d =>
       if tbl.issub (tbl.metaOf d) c then (if mem tbl o tst then ["promote"] else ["acceptsNonMember"]) else []
     | inner =>
       match typOf? inner with
       | some d => if tbl.issub d c then (if mem tbl o tst then ["promote"] else ["acceptsNonMember"]) else []
       | none => [])
  | .predicate (.equals l _) true =>
    (match unann m with
     | .known _ => []
     | _ => if !ca tbl false m (.known l) then ["literalInexact"] else [])
  | .predicate (.inP cont) true =>
    (match unann m with
     | .known _ => []
     | _ => if (elemsOf cont).any (fun e => objDeq o e && !ca tbl false m (.known e)) then ["literalInexact"] else [])
  | .isTruthy false =>
    if (getBool tbl T (unann m)).safelyTrue && !truthy o then ["alwaysTrueWrong"] else []
  | .isValue l true =>
    (match unann m with
     | .subclass d =>
       (match l with
        | .cls e => if !tbl.issub e d then ["promoteIsValue"] else []
        | _ => [])
     | inner =>
       match typOf? inner with
       | some d => if !tbl.issub (clsOf tbl l) d then ["promoteIsValue"] else []
       | none => [])
  | _ => []

/-- Exception class of the *condition* (independent of the union members):
`reversedLenCompare` — `<literal> <op> len(x)` is turned into the constraint of
`len(x) <op> <literal>` (name_check_visitor.py:3560, the operator is not mirrored), so for an
ordering comparison the two branches are exchanged for every object on whose length the comparison
and its mirror image disagree. Empty when the live tree mirrors the operator
(`T.lenRevMirrored`). -/
def dCond (T : BoolTable) (c : Cond) (o : Obj) : List String :=
  match c with
  | .lenRev op n =>
    (match objLen o with
     | some k =>
       if !T.lenRevMirrored && (op.eval n (Int.ofNat k) != op.eval (Int.ofNat k) n) then
         ["reversedLenCompare"] else []
     | none => [])
  | _ => []

/-- the classes the input `(V, c, pol, o)` falls in -/
def d02 (tbl : ClassTable) (T : BoolTable) (v : Ty) (c : Cond) (pol : Bool) (o : Obj) : List String :=
  dCond T c o ++
    (((flatten1 v).filter fun m => mem tbl o m).flatMap fun m => dK tbl T (c.kAt T pol) (tested c) o m)

/-- classification of a wrong "always true" verdict on the whole value -/
def dVerdict (tbl : ClassTable) (T : BoolTable) (v : Ty) (o : Obj) : List String :=
  if (getBool tbl T v).safelyTrue && mem tbl o v && !truthy o then
    ((flatten1 (unannAll v)).filter fun m => mem tbl o m).flatMap fun m =>
      if (getBool tbl T (unann m)).safelyTrue then ["alwaysTrueWrong"] else []
  else []

/-! ### Boolean combinations -/

/-- the part of the run-time state a condition can depend on besides the narrowed variable: the
object bound to the other variable and the truth of every opaque operand -/
structure Env where
  other : Obj := .none
  bits : List Bool := []
  deriving Inhabited

mutual
/-- truth of a boolean combination for the object `o` of the narrowed variable in environment `ρ` -/
def holdsB (tbl : ClassTable) (ρ : Env) : BCond → Obj → Bool
  | .leaf c, o => holds tbl c o
  | .other c, _ => holds tbl c ρ.other
  | .capture c, o => holds tbl c o
  | .opaque i, _ => ρ.bits.getD i false
  | .not b, o => !holdsB tbl ρ b o
  | .and bs, o => holdsAll tbl ρ bs o
  | .or bs, o => holdsAny tbl ρ bs o
def holdsAll (tbl : ClassTable) (ρ : Env) : List BCond → Obj → Bool
  | [], _ => true
  | b :: bs, o => holdsB tbl ρ b o && holdsAll tbl ρ bs o
def holdsAny (tbl : ClassTable) (ρ : Env) : List BCond → Obj → Bool
  | [], _ => false
  | b :: bs, o => holdsB tbl ρ b o || holdsAny tbl ρ bs o
end

mutual
def condOkB (tbl : ClassTable) (ρ : Env) : BCond → Obj → Bool
  | .leaf c, o => condOk tbl c o
  | .other c, _ => condOk tbl c ρ.other
  | .capture c, o => condOk tbl c o
  | .opaque _, _ => true
  | .not b, o => condOkB tbl ρ b o
  | .and bs, o => condOkL tbl ρ bs o
  | .or bs, o => condOkL tbl ρ bs o
def condOkL (tbl : ClassTable) (ρ : Env) : List BCond → Obj → Bool
  | [], _ => true
  | b :: bs, o => condOkB tbl ρ b o && condOkL tbl ρ bs o
end

mutual
/-- the atoms on the narrowed variable -/
def BCond.leaves : BCond → List Cond
  | .leaf c => [c]
  | .other _ => []
  | .capture _ => []
  | .opaque _ => []
  | .not b => b.leaves
  | .and bs => BCond.leavesL bs
  | .or bs => BCond.leavesL bs
def BCond.leavesL : List BCond → List Cond
  | [] => []
  | b :: bs => b.leaves ++ BCond.leavesL bs
end

/-- Exception class `nullAbsorbLeak` of boolean combinations: the constraint the checker extracts from
the *value* of the condition (`BCond.ac`) narrows differently from the ideal algebra
(`BCond.acIdeal`) in one of the two branches. Root cause: `AndConstraint.make` reduces
`NULL AND (NULL OR A)` to `NULL` ("A AND (A OR B) reduces to A" with the singleton `NULL_CONSTRAINT`
for two opaque operands), the value of the `and` expression is then not annotated, and
`extract_constraints` reads the constraint `A` back from the member values as `OR(NULL, A)` — whose
inverse `AND(NULL, ¬A)` asserts `¬A` although `not (p and (p or A))` says nothing about `A`. -/
def nullAbsorbLeak (tbl : ClassTable) (T : BoolTable) (v : Ty) (b : BCond) : List String :=
  if Ty.beq (narrowB tbl T v b true) (narrowBIdeal tbl T v b true) &&
     Ty.beq (narrowB tbl T v b false) (narrowBIdeal tbl T v b false) then [] else ["nullAbsorbLeak"]

/-- Classification of a failing boolean combination (used by the driver only): the classes of every
leaf in either polarity, on the members of `v` and of every narrowing of `v` by a single leaf (the
intermediate values a conjunction passes through). -/
def d02B (tbl : ClassTable) (T : BoolTable) (v : Ty) (b : BCond) (o : Obj) : List String :=
  let ls := b.leaves
  let vs := v :: ls.flatMap fun c => [narrow tbl T v c true, narrow tbl T v c false]
  (nullAbsorbLeak tbl T v b ++
    (vs.flatMap fun w => ls.flatMap fun c => d02 tbl T w c true o ++ d02 tbl T w c false o)).eraseDups

/-! ### side conditions on values, literals and objects; the table laws (all decidable) -/

/-- a union member as `flatten_values` produces it: not itself a union, at most one `Annotated`
layer (`annotate_value` flattens nested ones) -/
def memberOk (m : Ty) : Bool :=
  match unann m with
  | .annotated _ => false
  | .union _ => false
  | _ => true

/-- the value is a well-formed (flat) pyanalyze value at top level -/
def valueOk (v : Ty) : Bool := (flatten1 v).all memberOk

/-- the literals of the condition are objects of the universe (`Obj.wf`) -/
def condWf (tbl : ClassTable) : Cond → Bool
  | .is l => l.wf tbl | .isNot l => l.wf tbl | .eq l => l.wf tbl | .ne l => l.wf tbl
  | .assertIs l => l.wf tbl
  | .inC c => c.wf tbl | .notIn c => c.wf tbl
  | _ => true

/-- the object is an object of the universe; an enum member is one of the listed members -/
def objOk (tbl : ClassTable) (T : BoolTable) (o : Obj) : Bool :=
  o.wf tbl && (match o with
    | .inst c j => !tbl.isEnum c || decide (j < T.enumCount c)
    | _ => true)

/-- Laws of the regenerated tables used by the theorems (`decide`d for the live tables in
`Props/C02.lean`):
(B) `bool` has no other class below it, is reflexive, is neither a user class nor a metaclass;
(E) an Enum class with instances in the universe has no other class below it, is reflexive, is not a
    builtin class id and not a metaclass;
(T) `_get_type_boolability` only answers erroring / boolable / type_always_true. -/
def narrowLaws (tbl : ClassTable) (T : BoolTable) : Bool :=
  let n := tbl.issubM.length
  allBelow n (fun d => !(sub tbl d C.bool) || d == C.bool) &&
  tbl.issub C.bool C.bool && !tbl.isUser C.bool && tbl.metaL.all (fun k => k != C.bool) &&
  allBelow tbl.enumL.length (fun e => !(tbl.isEnum e && tbl.isUser e) ||
    (decide (14 ≤ e) && tbl.issub e e && tbl.metaL.all (fun k => k != e) &&
      allBelow n fun d => !(sub tbl d e) || d == e)) &&
  T.typeBoolL.all (fun k => k == 1 || k == 2 || k == 7)

/-- classes that have falsy instances in the object universe -/
def falsyClasses : List Cls :=
  [C.int, C.bool, C.str, C.bytes, C.none, C.tuple, C.list, C.set, C.frozenset, C.dict]

/-- the class of a class-typed term other than a sequence form -/
def typedHead : Ty → Option Cls
  | .typed c => some c
  | .newtype _ c => some c
  | .generic c _ => some c
  | _ => none

/-- Table-level form of `alwaysTrueWrong` (independent of the object): the member is of a class
that is "always true" for pyanalyze although a class with falsy instances lies below it. -/
def leakM (tbl : ClassTable) (T : BoolTable) (m : Ty) : Bool :=
  match typedHead (unannAll m) with
  | some c => (T.typeBool c).safelyTrue && falsyClasses.any fun d => d == c || sub tbl d c
  | none => false

/-- the members `get_boolability` looks at -/
def boolMembers (v : Ty) : List Ty :=
  match unannAll v with
  | .union ts => ts
  | _ => [v]

def verdictLeak (tbl : ClassTable) (T : BoolTable) (v : Ty) : Bool :=
  (boolMembers v).any (leakM tbl T)

/-- Table-level absence of `alwaysTrueWrong`: no class that `_get_type_boolability` calls "always
true" has a class with falsy instances below it (true of the live tables since /repo c376956, which
made abstract base classes and protocols boolable). -/
def noLeakTable (tbl : ClassTable) (T : BoolTable) : Bool :=
  allBelow T.typeBoolL.length fun c =>
    !((T.typeBool c).safelyTrue && falsyClasses.any fun d => d == c || sub tbl d c)

/-! ### `match` statements: what a pattern means at run time -/

mutual
/-- **CPython's meaning of a pattern** on a subject: a singleton pattern compares by identity
(`1` does *not* match `case True`), a value pattern by `==`, a class pattern without sub-patterns is
`isinstance`, the wildcard always matches. -/
def Pat.matches (tbl : ClassTable) : Pat → Obj → Bool
  | .singleton l, o => Obj.same o l
  | .value l, o => Obj.pyEq o l
  | .cls c, o => tbl.issub (clsOf tbl o) c
  | .wildcard, _ => true
  | .or ps, o => Pat.matchesAny tbl ps o
def Pat.matchesAny (tbl : ClassTable) : List Pat → Obj → Bool
  | [], _ => false
  | p :: ps, o => p.matches tbl o || Pat.matchesAny tbl ps o
end

/-- index of the case whose body runs (`ps.length`: none) -/
def firstMatch (tbl : ClassTable) : List Pat → Obj → Nat
  | [], _ => 0
  | p :: ps, o => if p.matches tbl o then 0 else firstMatch tbl ps o + 1

mutual
/-- side conditions of the quantifier for a pattern: a singleton pattern is `None`/`True`/`False`
(no equality exemption: identity is exact); for a value pattern equality of the subject with the
literal implies that they are the same object of the same type -/
def Pat.ok (tbl : ClassTable) : Pat → Obj → Bool
  | .singleton l, _ => (match l with | .none => true | .bool _ => true | _ => false)
  | .value l, o => l.wf tbl && (!(Obj.pyEq o l) || objDeq o l)
  | .cls _, _ => true
  | .wildcard, _ => true
  | .or ps, o => Pat.okAll tbl ps o
def Pat.okAll (tbl : ClassTable) : List Pat → Obj → Bool
  | [], _ => true
  | p :: ps, o => p.ok tbl o && Pat.okAll tbl ps o
end

mutual
def Pat.tested : Pat → Ty
  | .singleton l => .known l
  | .value l => .known l
  | .cls c => .typed c
  | .wildcard => Ty.never
  | .or ps => .union (Pat.testedL ps)
def Pat.testedL : List Pat → List Ty
  | [] => []
  | p :: ps => p.tested :: Pat.testedL ps
end

/-- `dK` looking one level into `one_of` / `all_of` (classification of or-patterns) -/
def dKdeep (tbl : ClassTable) (T : BoolTable) (k : K) (tst : Ty) (o : Obj) (m : Ty) : List String :=
  let inner := fun (k' : K) => match k' with
    | .allOf ks => ks.flatMap fun k'' => dK tbl T k'' tst o m
    | k' => dK tbl T k' tst o m
  match k with
  | .oneOf ks => ks.flatMap inner
  | k => inner k

/-- classes met while the constraints of a case are applied one after the other (classification of
a failing `match` input by the driver) -/
def dSteps (tbl : ClassTable) (T : BoolTable) (tst : Ty) (o : Obj) : List K → List Ty → List String
  | [], _ => []
  | k :: ks, vs =>
    ((vs.filter fun m => mem tbl o m).flatMap fun m => dKdeep tbl T k tst o m) ++
      dSteps tbl T tst o ks (vs.flatMap fun v => applyK tbl T k v)

def dMatch (tbl : ClassTable) (T : BoolTable) (v : Ty) (ps : List Pat) (i : Nat) (o : Obj) : List String :=
  (dSteps tbl T (.union (Pat.testedL ps)) o (caseKs T ps i) (flatten1 v)).eraseDups

/-- does the case take the object in state `ρ`: the pattern matches and the guard is true -/
def MCase.takes (tbl : ClassTable) (ρ : Env) (c : MCase) (o : Obj) : Bool :=
  c.pat.matches tbl o && (match c.guard with | some g => holdsB tbl ρ g o | none => true)

/-- index of the case whose body runs in state `ρ` (`cs.length`: none) -/
def gfirstMatch (tbl : ClassTable) (ρ : Env) : List MCase → Obj → Nat
  | [], _ => 0
  | c :: cs, o => if c.takes tbl ρ o then 0 else gfirstMatch tbl ρ cs o + 1

def gcasesOk (tbl : ClassTable) (ρ : Env) (cs : List MCase) (o : Obj) : Bool :=
  cs.all fun c => c.pat.ok tbl o && (match c.guard with | some g => condOkB tbl ρ g o | none => true)

def dGMatch (tbl : ClassTable) (T : BoolTable) (v : Ty) (cs : List MCase) (i : Nat) (o : Obj) : List String :=
  (dSteps tbl T (.union (Pat.testedL (cs.map MCase.pat))) o (gcaseKs T cs i) (flatten1 v)).eraseDups

/-- the literals of singleton patterns -/
def singles : List Obj := [.none, .bool true, .bool false]

/-- exactness of literal acceptance for the singleton literals on one member (the absence of
class `literalInexact` for `None`/`True`/`False`): a non-literal member that contains the literal
accepts it -/
def singOkM (tbl : ClassTable) (m : Ty) : Bool :=
  (match unann m with | .known _ => true | _ => false) ||
    singles.all fun l => !(mem tbl l m) || ca tbl false m (.known l)

def singOk (tbl : ClassTable) (v : Ty) : Bool := (flatten1 v).all (singOkM tbl)

/-- the statement only has singleton patterns and wildcards -/
def singlePats : List Pat → Bool
  | [] => true
  | .singleton l :: ps => singles.any (fun s => objDeq l s) && singlePats ps
  | .wildcard :: ps => singlePats ps
  | _ :: _ => false

/-- the patterns of the statement are singleton patterns and wildcards (guards are arbitrary) -/
def gsinglePats (cs : List MCase) : Bool := singlePats (cs.map MCase.pat)

mutual
/-- every `and` / `or` has at least one operand (as in Python source) -/
def BCond.wfB : BCond → Bool
  | .not b => b.wfB
  | .and bs => !bs.isEmpty && BCond.wfBL bs
  | .or bs => !bs.isEmpty && BCond.wfBL bs
  | _ => true
def BCond.wfBL : List BCond → Bool
  | [] => true
  | b :: bs => b.wfB && BCond.wfBL bs
end

/-! the abstract constraint contains no `PredicateProvider` (whose inverse is the null constraint) -/
mutual
def AC.noProvider : AC → Bool
  | .provider => false
  | .otherK => true
  | .and cs => AC.noProviderL cs
  | .or cs => AC.noProviderL cs
  | .equiv cs => AC.noProviderL cs
  | _ => true
def AC.noProviderL : List AC → Bool
  | [] => true
  | c :: cs => c.noProvider && AC.noProviderL cs
end


end Pya.C02
