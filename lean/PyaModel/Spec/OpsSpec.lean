import PyaModel.Core.Ops
/-!
# Spec/OpsSpec — what CPython does (property C19), the table row format, the exception classes

1. `elemAt` / `expand`: CPython's indexing of a concrete tuple/list, and the concrete sequences a
   partly variadic `SequenceValue` stands for.
2. `cpyBinop`: CPython's binary-operator dispatch at the level of dunder methods.
3. `Row`: one line of the regenerated operation table (`Generated/OpTables*.lean`), the property
   on a row (`agree`), the defect-including model of pyanalyze's verdict on a row (`modelDiag`) and
   the exception classes `D19_*`.
-/
namespace Pya.C19

/-! ## 1. indexing -/

/-- CPython `xs[k]`: from the front for `k ≥ 0`, from the back (`-1` = last) for `k < 0`;
`none` = `IndexError`. Deliberately written through `reverse`, not through `len + k`, so that it is
independent of `pyIndex`. -/
def elemAt {α : Type} (xs : List α) (k : Int) : Option α :=
  if k ≥ 0 then xs[k.toNat]? else xs.reverse[(-k - 1).toNat]?

/-- The concrete sequences a member list stands for: every variadic member `(true, t)` is replaced by
`n` copies of `t`, `n` taken from `ns` in order (a missing count means 0). -/
def expand {α : Type} : List (Bool × α) → List Nat → List α
  | [], _ => []
  | (false, m) :: rest, ns => m :: expand rest ns
  | (true, _) :: rest, [] => expand rest []
  | (true, m) :: rest, n :: ns => List.replicate n m ++ expand rest ns

def hasMany {α : Type} (ms : List (Bool × α)) : Bool := ms.any (·.1)

/-! ## 2. CPython's binary operator dispatch (dunder level) -/

/-- The runtime facts about one side: `type(x)` has the dunder, and what calling it does. -/
structure RSide where
  has : Bool
  rt : Rt
  deriving DecidableEq, Repr, Inhabited

inductive CpyBin | typeError | otherExc | fromLeft | fromRight
  deriving DecidableEq, Repr, Inhabited

/-- One attempt: `none` = not handled here (missing or `NotImplemented`), go on. -/
def attempt (s : RSide) (who : CpyBin) : Option CpyBin :=
  if !s.has then none else
  match s.rt with
  | .notImpl => none
  | .raisesTE => some .typeError
  | .raisesOther => some .otherExc
  | .value => some who

/-- `l op r`: `type(l).__op__(l, r)` first; the reflected `type(r).__rop__(r, l)` is tried only when
the two types differ, and *first* (`rprio`) when `type(r)` is a proper subclass of `type(l)` that
overrides the reflected method, or when the left dunder is a sequence slot (`sq_concat`/`sq_repeat`
of str, bytes, tuple), which CPython consults only after the number slots of both operands;
`TypeError` when nobody handles it. -/
def cpyBinop (sameType rprio : Bool) (l r : RSide) : CpyBin :=
  if sameType then (attempt l .fromLeft).getD .typeError
  else if rprio then
    match attempt r .fromRight with
    | some x => x
    | none => (attempt l .fromLeft).getD .typeError
  else
    match attempt l .fromLeft with
    | some x => x
    | none => (attempt r .fromRight).getD .typeError

def Side.rside (s : Side) : RSide := ⟨s.has, s.rt⟩

/-- Does this side handle the operation at run time (returns a value or raises a non-TypeError)? -/
def RSide.yields (s : RSide) : Bool := s.has && (s.rt == .value || s.rt == .raisesOther)

/-- Hypothesis class of the protocol theorem: the stub signature and the runtime disagree about
whether this side accepts the other operand. -/
def Dbin_stub (s : Side) : Bool := s.has && (s.sigOk != s.rside.yields)

/-- Hypothesis class: same type on both sides, `__op__` does not handle it but `__rop__` would;
CPython never tries the reflected method then, pyanalyze does. -/
def Dbin_sameTypeReflected (sameType : Bool) (l r : RSide) : Bool :=
  sameType && !l.yields && r.yields

/-- Hypothesis class: the side CPython tries first raises `TypeError` itself (instead of returning
`NotImplemented`) while the other side would handle the operation. -/
def Dbin_firstRaisesTE (sameType rprio : Bool) (l r : RSide) : Bool :=
  !sameType &&
    (if rprio then r.has && r.rt == .raisesTE && l.yields
     else l.has && l.rt == .raisesTE && r.yields)

/-- Hypothesis class: both sides handle it and CPython asks the right operand first (`rprio`);
pyanalyze always prefers the left result. -/
def Dbin_subclassReflected (sameType rprio : Bool) (l r : RSide) : Bool :=
  !sameType && rprio && l.yields && r.yields

/-! ## 3. rows of the operation table -/

/-- One operation of the literal universe with both outcomes, as regenerated from the live tree.
All fields are small naturals (see the legend in `Generated/OpTables.lean`).

* `k`   kind: 0 binary operator, 1 unary operator, 2 attribute access, 3 subscript
* `op`  operator / attribute-name / index id
* `a b` operand ids (b = 0 unless binary)
* `ta tb` operand tags: 0 none/absent, 1 int, 2 bool, 3 float, 4 complex, 5 str, 6 bytes, 7 tuple,
        8 None, 9 enum member, 10 int-enum member, 11 class, 12 class whose instances have
        `__index__`, 13 module
* `fl`  CPython-derived input facts (bit mask, see `Row.bit`)
* `c`   CPython: 0 value, 1 TypeError, 2 AttributeError, 3 IndexError, 4 any other exception
* `ct cv` interned type / (type, value) ids of CPython's result (0 = none)
* `p`   pyanalyze: 0 literal inferred, 1 non-literal, 2 diagnosed (`unsupported_operation`,
        `undefined_attribute`, `incompatible_call`, `incompatible_argument`, `not_callable`), 3 some other code
* `pt pv` interned ids of pyanalyze's literal (0 = none) -/
structure Row where
  k : Nat
  op : Nat
  a : Nat
  b : Nat
  ta : Nat
  tb : Nat
  fl : Nat
  c : Nat
  ct : Nat
  cv : Nat
  p : Nat
  pt : Nat
  pv : Nat
  deriving DecidableEq, Repr, Inhabited

def r (k op a b ta tb fl c ct cv p pt pv : Nat) : Row := ⟨k, op, a, b, ta, tb, fl, c, ct, cv, p, pt, pv⟩

def Row.bit (x : Row) (i : Nat) : Bool := (x.fl / 2 ^ i) % 2 == 1

/-! flag bits, binary rows: 0 `type(l) is type(r)`; 1 `rprio` (right operand asked first, see `cpyBinop`); 2 left dunder exists; 3 right (reflected)
dunder exists; 4‥5 left `Rt`; 6‥7 right `Rt` (0 notImpl, 1 raisesTE, 2 raisesOther, 3 value).
attribute rows: 0 the name is in pyanalyze's default `IgnoredEndOfReference` list; 1 the operand is
written as a dotted name (`E.A`, `math`); 2 the operand is a class and the name statically resolves,
along the class's own MRO, to a property-like descriptor (getset/member descriptor, `property`,
`enum.property`); 3 the operand is a class with a closed attribute set (enum, tuple subclass, dataclass,
builtin/stdlib class other than `type`, `super`, function); 4 answered by pyanalyze's default
`KnownAttributeHook` (`sys.modules`); 5 the operand is a class; 6 it is a module; 7 module and the name
is in its `__annotations__`; 8 `type(operand)` defines `__getattr__`; 9 class operand and the `__dict__`
of a class of its MRO has the name; 10 class operand that is an Enum subclass; 11 class operand and
the stubs (typeshed) of a class of its MRO declare the name as a variable or a property. -/
def rtOf (n : Nat) : Rt :=
  match n with | 0 => .notImpl | 1 => .raisesTE | 2 => .raisesOther | _ => .value

def Row.sameType (x : Row) : Bool := x.bit 0
def Row.rprio (x : Row) : Bool := x.bit 1
def Row.lside (x : Row) : RSide := ⟨x.bit 2, rtOf ((x.fl / 16) % 4)⟩
def Row.rside (x : Row) : RSide := ⟨x.bit 3, rtOf ((x.fl / 64) % 4)⟩

def isSeqTag (t : Nat) : Bool := t == 5 || t == 6 || t == 7

/-- **`classAsIndex`**: `seq * C` / `C * seq` with `C` a class object whose *instances* have
`__index__` (`'a' * int`): the class object passes for `SupportsIndex`, nothing is reported, CPython
raises TypeError. -/
def D19_classAsIndex (x : Row) : Bool :=
  x.k == 0 && x.op == 2 && ((isSeqTag x.ta && x.tb == 12) || (x.ta == 12 && isSeqTag x.tb))

/-- **`sameTypeReflected`**: both operands have the same type, its `__op__` does not handle the pair
but its `__rop__` does. -/
def D19_sameTypeReflected (x : Row) : Bool :=
  x.k == 0 && Dbin_sameTypeReflected x.sameType x.lside x.rside

/-- **`subclassReflected`**: the right operand's type is a proper subclass overriding the reflected
method and both sides handle the operation: CPython uses the right one, pyanalyze the left one. -/
def D19_subclassReflected (x : Row) : Bool :=
  x.k == 0 && Dbin_subclassReflected x.sameType x.rprio x.lside x.rside

/-- **`ignoredEndOfReference`**: attribute named in the default `IgnoredEndOfReference` option
(`count`, `called`, …) on an object written as a dotted name (`E.A`, `math`, `type`) that is not a
class with a closed attribute set: never reported. -/
def D19_ignoredEndOfReference (x : Row) : Bool :=
  x.k == 2 && x.bit 0 && x.bit 1 && !x.bit 3

/-- **`classLevelDescriptor`**: attribute of a *class object* that is meant for instances: a
property-like descriptor (`int.imag`, `E.name`), or a name that only the stubs / a raising descriptor
provide on the class (`int.__annotations__`, `E._value_`, `type.__abstractmethods__`: class-level access
raises AttributeError). pyanalyze answers with the instance-level type from the stubs (or `Any`),
whatever the class-level access does. -/
def D19_classLevelDescriptor (x : Row) : Bool :=
  x.k == 2 && (x.ta == 11 || x.ta == 12) && (x.bit 2 || ((x.bit 9 || x.bit 11) && x.c == 2))

def D19 (x : Row) : Bool :=
  D19_classAsIndex x || D19_sameTypeReflected x || D19_subclassReflected x ||
  D19_ignoredEndOfReference x || D19_classLevelDescriptor x

/-- Name of the first class a row falls in, `-` if none (printed by the driver). -/
def dName (x : Row) : String :=
  if D19_classAsIndex x then "classAsIndex"
  else if D19_sameTypeReflected x then "sameTypeReflected"
  else if D19_subclassReflected x then "subclassReflected"
  else if D19_ignoredEndOfReference x then "ignoredEndOfReference"
  else if D19_classLevelDescriptor x then "classLevelDescriptor"
  else "-"

/-- Should a diagnostic be present according to the property?  `none` = the property does not speak
(an exception other than TypeError/AttributeError, or IndexError on something that is not a tuple). -/
def specDiag (x : Row) : Option Bool :=
  match x.c with
  | 0 => some false
  | 1 => some true
  | 2 => some true
  | 3 => if x.k == 3 && x.ta == 7 then some true else none
  | _ => none

/-- **The property on one row**: diagnosed ⇔ CPython raises TypeError/AttributeError (IndexError for a
literal tuple index), and an inferred literal equals the real result in type and value. -/
def agree (x : Row) : Bool :=
  match specDiag x with
  | none => true
  | some true => x.p == 2
  | some false => x.p == 1 || (x.p == 0 && x.pt == x.ct && x.pv == x.cv)

/-- The lookup facts of an attribute row (Core/Ops `AttrFacts`). -/
def Row.attrFacts (x : Row) : AttrFacts :=
  { hooked := x.bit 4, isEnumCls := x.bit 10, isModule := x.bit 6, modAnn := x.bit 7, isType := x.bit 5,
    stubAttr := x.bit 2 || x.bit 11, inMroDict := x.bit 9,
    getattr := bif x.c == 0 then .ok else bif x.c == 2 then .attributeError else .otherExc }

def Row.attrMiss (x : Row) : AttrMiss :=
  { onlyKnown := x.bit 3, hasGetattr := x.bit 8, ignoredRef := x.bit 0 && x.bit 1 }

/-- Defect-including model of "does pyanalyze diagnose this row" in terms of the input facts and
CPython's outcome. Attribute rows: the Lean model of the known-object lookup (`attrReported`). Other
rows: what the property demands, except in the classes where the pinned tree is known to stay silent. -/
def modelDiag (x : Row) : Option Bool :=
  if x.k == 2 then
    (bif x.c == 0 || x.c == 2 then some (attrReported x.attrFacts x.attrMiss) else none)
  else
  match specDiag x with
  | none => none
  | some false => some false
  | some true =>
    if D19_classAsIndex x || D19_sameTypeReflected x then some false else some true

/-- Attribute rows on an object that is not a class: when the model finds the attribute through
`getattr`, pyanalyze must infer exactly that literal. -/
def modelLit (x : Row) : Bool :=
  x.k == 2 && !x.bit 5 && x.c == 0 && knownAttr x.attrFacts == .literal

/-- Implementation conforms to the model on a row (or, inside an exception class, already satisfies
the property: the defect was repaired). -/
def conforms (x : Row) : Bool :=
  match modelDiag x with
  | none => true
  | some d =>
    (((x.p == 2) == d) && (!modelLit x || (x.p == 0 && x.pt == x.ct && x.pv == x.cv))) ||
    (D19 x && agree x)

/-- Consistency of the facts of an attribute row (hypothesis of `attr_model_meets_spec_partial`):
hooked / module-annotated names exist, `type(operand)` has no `__getattr__`, the class bits go with
the class tags. -/
def attrWF (x : Row) : Bool :=
  (!x.bit 4 || x.c == 0) && (!x.bit 7 || x.c == 0) && !x.bit 8 &&
  (x.bit 5 == (x.ta == 11 || x.ta == 12))

/-- The dunder-level spec `cpyBinop` reproduces what CPython did on a binary row. -/
def specMatches (x : Row) : Bool :=
  x.k != 0 ||
  (match cpyBinop x.sameType x.rprio x.lside x.rside with
   | .typeError => x.c == 1
   | .otherExc => x.c == 4
   | .fromLeft => x.c == 0
   | .fromRight => x.c == 0)

end Pya.C19
