import PyaModel.Core.Overload
/-!
# Spec/Overload — the documented overload algorithm as a specification, the side conditions of the
C08 theorems and the exception classes

`firstMatch`: "the general rule is to pick the first overload that matches and return an error
otherwise" (docstring of `OverloadedSignature.check_call`). An overload *matches* when the call
binds to its parameters and every bound argument is assignable to the parameter's annotation.
-/
namespace Pya.C08

/-- The overload accepts the call: it binds, and every checked (annotation, value) pair is assignable. -/
def accepts (J : Judge) (s : OSig) (a : CallArgs) : Bool :=
  match s.bind a with
  | none => false
  | some b => (tasks s a b).all fun t =>
      match t.2 with
      | none => true
      | some (e, v) => J.acc e v

/-- **First match**: the return type of the first accepting overload; diagnosed iff there is none. -/
def firstMatch (J : Judge) (sigs : List OSig) (a : CallArgs) : Res :=
  match sigs.find? (accepts J · a) with
  | some s => .ok s.ret
  | none => .err

/-- Was some accepted check of this overload accepted through `Any`? -/
def usedAnyIn (J : Judge) (s : OSig) (a : CallArgs) : Bool :=
  match s.bind a with
  | none => false
  | some b => (tasks s a b).any fun t =>
      match t.2 with
      | none => false
      | some (e, v) => J.acc e v && J.used e v && !(t.1 == Pos.dflt)

/-! ## Side conditions on the arguments -/

mutual
/-- The type mentions `Any` somewhere. -/
def hasAny : Ty → Bool
  | .any => true
  | .generic _ as => hasAnyL as
  | .seq _ ms => hasAnyL ms
  | .many t => hasAny t
  | .union ts => hasAnyL ts
  | .annotated t => hasAny t
  | _ => false
def hasAnyL : List Ty → Bool
  | [] => false
  | t :: ts => hasAny t || hasAnyL ts
end

/-- A union, possibly wrapped in `Annotated` — what `decompose_union` would take apart. -/
def unionLike : Ty → Bool
  | .union _ => true
  | .annotated (.union _) => true
  | _ => false

def CallArgs.vals (a : CallArgs) : List Ty := a.pos ++ a.kws.map (·.2)

/-- No argument contains `Any`. -/
def NoAny (a : CallArgs) : Bool := a.vals.all fun v => !hasAny v
/-- No argument is a union. -/
def NoUnion (a : CallArgs) : Bool := a.vals.all fun v => !unionLike v
/-- Keyword names of the call are distinct (Python rejects `f(k=1, k=2)` at compile time). -/
def KwNodup (a : CallArgs) : Bool := (a.kws.map (·.1)).Nodup

/-- The value a position of the call holds. -/
def CallArgs.get (a : CallArgs) : Pos → Option Ty
  | .idx i => a.pos[i]?
  | .kw n => a.kwVal n
  | _ => none

/-! ## Side conditions on the overloads -/

/-- Equality as keys of a Python dict / members of a set: same hash and `==` (`x` the earlier key). -/
def deq (x y : Ty) : Bool := Ty.hashEq x y && Ty.beq x y

/-- Pairwise different as dict keys — what `unite_values` leaves. -/
def DistinctTys (ts : List Ty) : Prop := ts.Pairwise fun x y => deq x y = false
instance (ts : List Ty) : Decidable (DistinctTys ts) := by unfold DistinctTys; infer_instance

/-- `unite_values(t)` is `t`: what evaluating a return annotation produces — not a union, or a
union of at least two pairwise different non-union members. -/
def normalRet : Ty → Bool
  | .union ts => decide (2 ≤ ts.length) && ts.all (fun t => !unionLike t) && decide (DistinctTys ts)
  | .annotated (.union _) => false
  | _ => true

def RetsNormal (sigs : List OSig) : Bool := sigs.all fun s => normalRet s.ret

/-- `Any`, a literal, a class, `type[C]` or a NewType. -/
def atomicTy : Ty → Bool
  | .any | .known _ | .typed _ | .newtype _ _ | .subclass _ => true
  | _ => false

/-- An annotation without generic / sequence structure: atomic, or a union / `Annotated` of atomic
types. For these `ua` does not consult the class table. -/
def flatTy : Ty → Bool
  | .union ts => ts.all atomicTy
  | .annotated t => atomicTy t
  | t => atomicTy t

/-- Every parameter annotation of every overload is flat. -/
def FlatParams (sigs : List OSig) : Bool := sigs.all fun s => s.params.all fun p => flatTy p.ty

/-- Parameter names of each overload are distinct. -/
def NamesNodup (sigs : List OSig) : Bool := sigs.all fun s => (s.params.map (·.name)).Nodup

/-- No overload has a `**kwargs` parameter (outside the modelled fragment). -/
def NoVarKw (sigs : List OSig) : Bool := sigs.all fun s => s.params.all fun p => p.kind != .varKw

/-- The syntactic fragment of the theorems about pyanalyze's own judge. -/
def PlainSigs (sigs : List OSig) : Bool := FlatParams sigs && NamesNodup sigs && NoVarKw sigs

/-- The class table sees `tuple[T, ...]` as its own generic base with the one parameter `T`. -/
def TupleSelf (tbl : ClassTable) : Bool :=
  match tbl.gbase C.tuple C.tuple with
  | some [.param 0] => true
  | _ => false

/-- The side conditions of the union theorems: `a` is the call with some non-union, Any-free
argument at position `slot`; `ms` (at least two pairwise different non-union, Any-free types) are the
members of the union that is put there. -/
structure OneUnion (a : CallArgs) (slot : Pos) (ms : List Ty) : Prop where
  valid : (a.get slot).isSome = true
  noAny : NoAny a = true
  noUnion : NoUnion a = true
  two : 2 ≤ ms.length
  flat : ms.all (fun m => !unionLike m) = true
  anyFree : ms.all (fun m => !hasAny m) = true
  distinct : DistinctTys ms

instance (a : CallArgs) (slot : Pos) (ms : List Ty) : Decidable (OneUnion a slot ms) :=
  decidable_of_iff ((a.get slot).isSome = true ∧ NoAny a = true ∧ NoUnion a = true ∧ 2 ≤ ms.length ∧
      ms.all (fun m => !unionLike m) = true ∧ ms.all (fun m => !hasAny m) = true ∧ DistinctTys ms)
    ⟨fun ⟨a, b, c, d, e, f, g⟩ => ⟨a, b, c, d, e, f, g⟩, fun ⟨a, b, c, d, e, f, g⟩ => ⟨a, b, c, d, e, f, g⟩⟩

/-! ## Exception class (known finding)

* `unionInVarPos` — a union argument is collected into the `*args` pack of some overload: the pack
  is a `SequenceValue`, never a `MultiValuedValue`, so `decompose_union` does not apply and the
  union is not distributed over the overloads.

The former class `emptyVarPos` (an empty `*args` pack `SequenceValue(tuple, [])` was accepted by
`tuple[T, ...]` "through Any" because of its `Any[unreachable]` argument, value.py:1179) was repaired
in /repo by 41847cf (`if param_used_any and position is not DEFAULT`); the model follows the repaired
code, `emptyVarPos_fixed` (Props/C08.lean) is its regression theorem. -/

def unionInPack (s : OSig) (a : CallArgs) : Bool :=
  match s.bind a with
  | none => false
  | some b => b.any (fun e => e.2 == .args) && (a.pos.drop (idxCount b)).any unionLike

def D08_unionInVarPos (sigs : List OSig) (a : CallArgs) : Bool := sigs.any (unionInPack · a)

/-- Classes of a call, as printed by the driver. -/
def d08Classes (sigs : List OSig) (a : CallArgs) : List String :=
  (if D08_unionInVarPos sigs a then ["unionInVarPos"] else [])

end Pya.C08
