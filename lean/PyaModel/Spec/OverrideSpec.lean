import PyaModel.Core.Override
import PyaModel.Spec.SigAssignSpec
/-!
# Spec/OverrideSpec — what an override has to satisfy

A class `C` that binds a function under a name must be usable wherever **any** ancestor that binds
that name in its own body is expected: for every such ancestor `B`, every concrete call shape that
binds to `B`'s function binds to `C`'s (`BehSound`, Spec/SigAssignSpec.lean), with the arguments
landing on supertypes (`ArgsContra`).  Calls go through an instance (`c.m(…)`), so what matters is
the header *without* `self` for a method and the whole header for a staticmethod: `FnMember.hdr`.
For a property: every value of the child's getter type is a value of the base's, and a settable
base needs a settable child that accepts the base's values.
-/
namespace Pya.C07

variable {τ : Type}

/-- A function bound in a class body. `hdr` = the parameters a caller passes. -/
structure FnMember (τ : Type) where
  static : Bool
  hdr : TDefSig τ
  deriving Repr, Inhabited

/-- The signature pyanalyze derives for the class attribute (`a` = annotation of `self`). -/
def FnMember.raw (a : τ) (m : FnMember τ) : TSig τ :=
  if m.static then m.hdr.tsig
  else ⟨⟨"self", if m.hdr.po.isEmpty then .posOrKw else .posOnly, false, a⟩ :: m.hdr.tparams, m.hdr.ret⟩

/-- The class-body binding as the model sees it. -/
def FnMember.member (a : τ) (m : FnMember τ) : Member τ := .fn m.static (m.raw a)

/-- `_can_assign_to_base_callable` **before** /repo 7244153: both signatures went through
`bind_self`, staticmethod or not. Kept for the regression theorem only. -/
def old_callableOk (R : TyRel τ) (base child : TSig τ) : Bool :=
  match bindSelf base with
  | none => true
  | some b =>
    match bindSelf child with
    | none => false
    | some c => sigCanAssign R b c

/-- The repaired exception class `staticFirst` (a staticmethod is involved and the headers
themselves are not compatible), kept for the regression theorem only. -/
def old_D07_staticFirst (R : TyRel τ) (b c : FnMember τ) : Bool :=
  (b.static || c.static) && !sigCanAssign R b.hdr.tsig c.hdr.tsig

/-- Property override, specification side, for an inclusion test `incl S T` ("S ⊆ T"). -/
def propSpecOk (incl : τ → τ → Bool) (bt : τ) (bs : Bool) (ct : τ) (cs : Bool) : Bool :=
  incl ct bt && (!bs || (cs && incl bt ct))

def d07FnClasses (b c : FnMember τ) : List String := d07Classes b.hdr c.hdr

end Pya.C07
