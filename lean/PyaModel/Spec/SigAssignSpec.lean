import PyaModel.Core.SigAssign
import PyaModel.Spec.CpyBind
/-!
# Spec/SigAssignSpec — what "callable compatibility is behaviourally sound" means

Independent of `Signature.can_assign`: the specification only talks about how CPython binds a
concrete call to a `def` header (`cpyBind`, Spec/CpyBind.lean, validated against real calls by C05
and again by the C07 harness) and about *where* each argument of a bound call lands
(`slotTy`, `kwTy`).

* behavioural soundness of a pair: every concrete call shape the expected header binds is bound by
  the actual header (`BehSound`);
* parameter contravariance: in every such call each argument lands, in the actual header, on a
  parameter whose annotation is a supertype of the annotation it lands on in the expected header
  (`ArgsContra`);  return covariance is `sup exp.ret act.ret`.

The exception classes `D07_*` (decidable, printed by the driver) are defined here too. (A third,
typed class `kwShadow` existed until /repo commit d699eb1 repaired the defect.)
-/
namespace Pya.C07

/-- A parameter of a `def` header with its annotation. -/
structure TP (τ : Type) where
  name : String
  dflt : Bool
  ann : τ
  deriving Repr, Inhabited

/-- A typed `def` header: positional-only, positional-or-keyword, `*args`, keyword-only,
`**kwargs`, return annotation. -/
structure TDefSig (τ : Type) where
  po : List (TP τ)
  pk : List (TP τ)
  vp : Option (String × τ)
  ko : List (TP τ)
  vk : Option (String × τ)
  ret : τ
  deriving Repr, Inhabited

variable {τ : Type}

def TP.toP (p : TP τ) : P := ⟨p.name, p.dflt⟩
def TP.toT (k : Kind) (p : TP τ) : TParam τ := ⟨p.name, k, p.dflt, p.ann⟩

/-- The untyped header (`DefSig` of C05) underneath. -/
def TDefSig.shape (s : TDefSig τ) : DefSig :=
  { po := s.po.map TP.toP, pk := s.pk.map TP.toP, vp := s.vp.map (·.1),
    ko := s.ko.map TP.toP, vk := s.vk.map (·.1) }

/-- Positional parameters, in order. -/
def TDefSig.posL (s : TDefSig τ) : List (TParam τ) :=
  s.po.map (TP.toT .posOnly) ++ s.pk.map (TP.toT .posOrKw)
def TDefSig.vpL (s : TDefSig τ) : List (TParam τ) :=
  s.vp.toList.map fun x => ⟨x.1, .varPos, false, x.2⟩
def TDefSig.koL (s : TDefSig τ) : List (TParam τ) := s.ko.map (TP.toT .kwOnly)
def TDefSig.vkL (s : TDefSig τ) : List (TParam τ) :=
  s.vk.toList.map fun x => ⟨x.1, .varKw, false, x.2⟩

/-- `Signature.parameters.values()` of the header. -/
def TDefSig.tparams (s : TDefSig τ) : List (TParam τ) := s.posL ++ s.vpL ++ s.koL ++ s.vkL

def TDefSig.tsig (s : TDefSig τ) : TSig τ := ⟨s.tparams, s.ret⟩

/-- Parameter names are pairwise distinct (a `def` with a duplicate name is a SyntaxError). -/
def TDefSig.WF (s : TDefSig τ) : Prop := (s.tparams.map (·.name)).Nodup

instance (s : TDefSig τ) : Decidable s.WF := by unfold TDefSig.WF; infer_instance

/-! ## Where arguments land -/

/-- Annotation of the parameter that receives the `i`-th positional argument. -/
def slotTy (s : TDefSig τ) (i : Nat) : Option τ :=
  match s.posL[i]? with
  | some p => some p.ann
  | none => s.vp.map (·.2)

/-- Annotation of the parameter that receives keyword argument `k`: the positional-or-keyword or
keyword-only parameter of that name, else `**kwargs`. -/
def kwTy (s : TDefSig τ) (k : String) : Option τ :=
  match (s.pk ++ s.ko).find? (·.name == k) with
  | some p => some p.ann
  | none => s.vk.map (·.2)

/-- Behavioural soundness of the pair (expected, actual). -/
def BehSound (exp act : TDefSig τ) : Prop :=
  ∀ c : CCall, cpyBind exp.shape c = true → cpyBind act.shape c = true

/-- Parameter contravariance w.r.t. a supertype relation `sup S T` ("every member of `S` is a
member of `T`"): every argument of every call bound by the expected header lands in the actual
header on a parameter annotated with a supertype. -/
def ArgsContra (sup : τ → τ → Prop) (exp act : TDefSig τ) : Prop :=
  ∀ c : CCall, cpyBind exp.shape c = true →
    (∀ i, i < c.npos → ∃ S T, slotTy exp i = some S ∧ slotTy act i = some T ∧ sup S T) ∧
    (∀ k, k ∈ c.kws → ∃ S T, kwTy exp k = some S ∧ kwTy act k = some T ∧ sup S T)

/-! ## Executable, bounded versions (used by the driver: the `spec` stream) -/

/-- All sublists of `l` with at most `n` elements. -/
def subsUpTo : Nat → List String → List (List String)
  | _, [] => [[]]
  | 0, _ => [[]]
  | n + 1, x :: xs => (subsUpTo n xs).map (x :: ·) ++ subsUpTo (n + 1) xs

/-- Call shapes with at most `mp` positionals and at most `mk` keywords drawn from `names`,
fewest keywords first (so that the first counterexample found is a small one). -/
def callShapes (mp mk : Nat) (names : List String) : List CCall :=
  let subs := subsUpTo mk names
  (List.range (mk + 1)).flatMap fun r =>
    (List.range (mp + 1)).flatMap fun n => (subs.filter (·.length == r)).map fun ks => ⟨n, ks⟩

/-- First call shape (within the bound) bound by `exp` and not by `act`. -/
def behCex (mp mk : Nat) (names : List String) (exp act : TDefSig τ) : Option CCall :=
  (callShapes mp mk names).find? fun c => cpyBind exp.shape c && !cpyBind act.shape c

def optRel (r : τ → τ → Bool) : Option τ → Option τ → Bool
  | some s, some t => r s t
  | _, _ => false

/-- First call shape (within the bound) bound by both on which some argument lands on a parameter
whose annotation is not a supertype (`incl S T` = "S is included in T"). -/
def typedCex (incl : τ → τ → Bool) (mp mk : Nat) (names : List String) (exp act : TDefSig τ) :
    Option CCall :=
  (callShapes mp mk names).find? fun c =>
    cpyBind exp.shape c && cpyBind act.shape c &&
    !((List.range c.npos).all (fun i => optRel incl (slotTy exp i) (slotTy act i)) &&
      c.kws.all (fun k => optRel incl (kwTy exp k) (kwTy act k)))

/-! ## Exception classes -/

/-- The expected header accepts keyword `n` in some call: it has `**kwargs`, or a
positional-or-keyword or keyword-only parameter of that name. -/
def acceptsKw (exp : TDefSig τ) (n : String) : Bool :=
  exp.vk.isSome || exp.pk.any (·.name == n) || exp.ko.any (·.name == n)

/-- Position-wise: an expected positional-only parameter faces an actual positional-or-keyword
parameter whose name satisfies `acc`. -/
def clash (acc : String → Bool) : List (TParam τ) → List (TParam τ) → Bool
  | e :: es, a :: as => (e.kind == .posOnly && a.kind == .posOrKw && acc a.name) || clash acc es as
  | _, _ => false

/-- **D07.posKwClash** — an expected positional-only parameter is matched, by position, with an
actual positional-or-keyword parameter `n`, and the expected header accepts the keyword `n`
(through `**kwargs` or a later parameter named `n`): `exp(1, n=2)` binds, `act(1, n=2)` raises
"got multiple values for argument". -/
def D07_posKwClash (exp act : TDefSig τ) : Bool := clash (acceptsKw exp) exp.posL act.posL

/-- The expected header accepts keyword `n` in a call whose positionals overflow into `*args`:
`n` is not one of its positional-or-keyword parameters (those are filled positionally then), and it
has `**kwargs` or a keyword-only parameter `n`. -/
def acceptsKwStar (exp : TDefSig τ) (n : String) : Bool :=
  !exp.pk.any (·.name == n) && (exp.vk.isSome || exp.ko.any (·.name == n))

/-- **D07.starKwClash** — the expected header has `*args`, and the actual header has a
positional-or-keyword parameter `n` beyond the expected positional parameters whose name the
expected header accepts as a keyword: `exp(1, …, 1, n=2)` binds (the positionals go to `*args`),
in `act` they fill `n` too. -/
def D07_starKwClash (exp act : TDefSig τ) : Bool :=
  exp.vp.isSome &&
    (act.posL.drop exp.posL.length).any fun a => a.kind == .posOrKw && acceptsKwStar exp a.name

/-! ## Membership model of the annotation tags (for the executable typed spec) -/

/-- Representative runtime objects: an `int`, a `bool`, a non-integral `float`, a `str`, a plain
`object()`. -/
inductive RObj | anInt | aBool | aFloat | aStr | anObj
  deriving DecidableEq, Repr

def RObj.all : List RObj := [.anInt, .aBool, .aFloat, .aStr, .anObj]

/-- `isinstance` plus the documented promotion int → float (bool is an int). -/
def memR : RObj → Tag → Bool
  | _, .any => true
  | _, .object => true
  | .anInt, .int => true | .aBool, .int => true
  | .aBool, .bool => true
  | .anInt, .float => true | .aBool, .float => true | .aFloat, .float => true
  | .aStr, .str => true
  | _, _ => false

/-- Every representative member of `S` is a member of `T`; an unannotated side (`any`) is
gradual and never counts as a mismatch. -/
def tagIncl (S T : Tag) : Bool :=
  S == .any || T == .any || RObj.all.all fun x => !memR x S || memR x T

def d07Classes (exp act : TDefSig τ) : List String :=
  (if D07_posKwClash exp act then ["posKwClash"] else []) ++
  (if D07_starKwClash exp act then ["starKwClash"] else [])

end Pya.C07
