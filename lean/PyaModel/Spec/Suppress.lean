import PyaModel.Core.Emit
/-!
# Spec/Suppress — what suppression and enabling are *supposed* to do (property C11)

Declarative, state-free definition of the diagnostics a file should produce from the raw stream of
`show_error` calls, written as filters over that stream (no `seen` / `used` bookkeeping, no
indexing tricks):

* a call counts if it is not captured by `catch_errors` and its code is enabled;
* of several calls with the same `(node, code)` key only the first counts (`nub`);
* a counted diagnostic is **suppressed** iff
  - some line of the *leading comment block* (the maximal prefix of lines starting with `#`) is an
    ignore comment, bare or naming its code (**file level**), or
  - it obeys ignore comments, lies on line `n`, and line `n` carries a trailing ignore comment
    (bare or naming its code), or line `n - 1` *exists* and consists of exactly such a comment
    (**own-line form**);
* an ignore comment is **unused** iff no counted diagnostic is *credited* to it, where credit goes
  to the first matching line of the leading block, else to the diagnostic's own line, else to the
  line above it;
* after the visitor's diagnostics come one `unused_ignore` per unused comment line and one
  `bare_ignore` per line whose ignore comments name no code, each subject to enablement and to
  file-level suppression only.

The text-level predicates (`trailingMatch`, `ownLineMatch`, `hasSub IC`) are shared with the
model: they *define* what an ignore comment is.  Everything else is independent of `showError`.

Also here: the scope predicates used as hypotheses, and the predicates of the two exception classes
the code had before its repair (`D11_lineOneWrap`, `D11_splitlinesMismatch`; no class is left —
the predicates now only delimit the `old_…` regression theorems and are no longer printed by the driver).
-/
namespace Pya.C11

/-- The code of the diagnostic is switched on (diagnostics without a code cannot be disabled). -/
def codeOn (en : String → Bool) (r : Raw) : Bool :=
  match r.code with
  | some c => en c
  | none => true

/-- The call counts: not captured, code enabled. -/
def counted (en : String → Bool) (r : Raw) : Bool := !r.captured && codeOn en r

/-- First occurrence of every duplicate key: keep the head, and delete its key from what the
rest produces. -/
def nub : List Raw → List Raw
  | [] => []
  | r :: rs => r :: (nub rs).filter fun r' => r'.key != r.key

/-- The leading comment block. -/
def leading (lines : List Line) : List Line := lines.takeWhile fun l => l.head? == some '#'

/-- File-level suppression of a code (`none` = a diagnostic without a code: bare comments only). -/
def fileSuppressed (lines : List Line) (code : Option String) : Bool :=
  (leading lines).any (ownLineMatch · code)

/-- Line `j` (0-based) exists and carries a trailing ignore comment for `code`. -/
def trailingAt (lines : List Line) (j : Nat) (code : Option String) : Bool :=
  match lines[j]? with
  | some l => trailingMatch l code
  | none => false

/-- Line `j` (0-based) exists and is an own-line ignore comment for `code`. -/
def ownLineAt (lines : List Line) (j : Nat) (code : Option String) : Bool :=
  match lines[j]? with
  | some l => ownLineMatch l code
  | none => false

/-- The comment on 0-based line `i` targets `r` by position: trailing form on `r`'s own line, or
own-line form on the line directly above. -/
def lineTargets (lines : List Line) (i : Nat) (r : Raw) : Bool :=
  r.obey &&
    match r.pos with
    | some (ln, _) =>
      (ln == i + 1 && trailingAt lines i r.code) || (ln == i + 2 && ownLineAt lines i r.code)
    | none => false

def lineSuppressed (lines : List Line) (r : Raw) : Bool :=
  (List.range lines.length).any (lineTargets lines · r)

def suppressed (lines : List Line) (r : Raw) : Bool :=
  fileSuppressed lines r.code || lineSuppressed lines r

/-- The diagnostics the file should produce during the visit (before `save`). -/
def specDiags (en : String → Bool) (lines : List Line) (raw : List Raw) : List Raw :=
  (nub (raw.filter (counted en))).filter fun r => !suppressed lines r

/-- … and the ones that reach the failure list. -/
def specFails (en : String → Bool) (lines : List Line) (raw : List Raw) : List Raw :=
  (specDiags en lines raw).filter (·.save)

/-- Index of the first element satisfying `p`. -/
def firstIdx {α} (p : α → Bool) : List α → Option Nat
  | [] => none
  | a :: as => if p a then some 0 else (firstIdx p as).map (· + 1)

/-- Line-level credit: the diagnostic's own line if it carries a matching trailing comment, else
the line above if that line exists and is a matching own-line comment. -/
def lineCredit (lines : List Line) (r : Raw) : Option Nat :=
  if !r.obey then none
  else match r.pos with
    | none => none
    | some (ln, _) =>
      if ln ≥ 1 && trailingAt lines (ln - 1) r.code then some (ln - 1)
      else if ln ≥ 2 && ownLineAt lines (ln - 2) r.code then some (ln - 2)
      else none

/-- The comment line credited with suppressing `r` (`none`: `r` is not suppressed): the first
matching line of the leading block, else the line-level credit. -/
def credited (lines : List Line) (r : Raw) : Option Nat :=
  match firstIdx (ownLineMatch · r.code) (leading lines) with
  | some i => some i
  | none => lineCredit lines r

/-- Comment line `i`, taken by itself, would suppress `r`: it lies in the leading block and is an
ignore comment for `r`'s code, or it targets `r` by position. -/
def covers (lines : List Line) (i : Nat) (r : Raw) : Bool :=
  (decide (i < (leading lines).length) && ownLineAt lines i r.code) || lineTargets lines i r

/-- No counted diagnostic is covered by two different comment lines (true in particular when the
file has a single ignore comment). -/
def UniqueCover (en : String → Bool) (lines : List Line) (raw : List Raw) : Bool :=
  (nub (raw.filter (counted en))).all fun r =>
    (List.range lines.length).all fun i => (List.range lines.length).all fun j =>
      !(covers lines i r && covers lines j r) || i == j

/-- Line `i` is credited with some suppression. File-level credit is given on every counted call
(the check precedes the duplicate filter, which makes no difference), line-level credit on first
occurrences. -/
def creditedBySome (en : String → Bool) (lines : List Line) (raw : List Raw) (i : Nat) : Bool :=
  (nub (raw.filter (counted en))).any fun r => credited lines r == some i

/-- The `_FakeNode` diagnostic the end-of-file passes attach to comment line `i`. -/
def commentDiag (code : String) (i : Nat) (l : Line) : Raw :=
  let col := (findSub IC l).getD 0
  { node := .fake (i + 1) col, code := some code, pos := some (i + 1, col), obey := false }

def enumFrom {α} : Nat → List α → List (Nat × α)
  | _, [] => []
  | i, a :: as => (i, a) :: enumFrom (i + 1) as

/-- 0-based indices and text of the lines carrying an ignore comment. -/
def commentLines (lines : List Line) : List (Nat × Line) :=
  (enumFrom 0 lines).filter fun p => hasSub IC p.2

/-- Unused comment lines. -/
def specUnused (en : String → Bool) (lines : List Line) (raw : List Raw) : List (Nat × Line) :=
  (commentLines lines).filter fun p => !creditedBySome en lines raw p.1

/-- Lines whose ignore comment names no code. -/
def specBare (lines : List Line) : List (Nat × Line) :=
  (commentLines lines).filter fun p => !hasSub (IC ++ ['[']) p.2

/-- A pass of end-of-file diagnostics of one code: enablement and file-level suppression only. -/
def endPass (en : String → Bool) (lines : List Line) (code : String) (ls : List (Nat × Line)) : List Raw :=
  if en code && !fileSuppressed lines (some code) then ls.map fun p => commentDiag code p.1 p.2 else []

/-- The complete failure list the file should produce. -/
def specCheck (en : String → Bool) (lines : List Line) (raw : List Raw) : List Raw :=
  specFails en lines raw ++
    endPass en lines "unused_ignore" (specUnused en lines raw) ++
    endPass en lines "bare_ignore" (specBare lines)

/-- The settings with every code of `S` switched off (by whatever route: option, per-module
override, command line — see `isErrorCodeEnabled`). -/
def disable (S : List String) (en : String → Bool) : String → Bool := fun c => en c && !S.contains c

/-- The diagnostic carries one of the codes in `S`. -/
def codeIn (S : List String) (r : Raw) : Bool :=
  match r.code with
  | some c => S.contains c
  | none => false

/-! ## Scope predicates (hypotheses of the theorems) and the former exception classes -/

/-- Every positioned call that obeys ignore comments points into the file (1-based line number);
what the AST guarantees.  Outside it `show_error` raises IndexError or indexes from the back. -/
def wfAt (lines : List Line) (r : Raw) : Bool :=
  match r.pos with
  | some (ln, _) => !r.obey || (decide (1 ≤ ln) && decide (ln ≤ lines.length))
  | none => true

def RawWF (lines : List Line) (raw : List Raw) : Bool := raw.all (wfAt lines)

/-- No call uses a `_FakeNode` (the visitor never does; only the end-of-file passes do). -/
def RawAst (raw : List Raw) : Bool :=
  raw.all fun r => match r.node with | .fake _ _ => false | _ => true

/-- **Former exception class `lineOneWrap`** (repaired by /repo 0cba813; it was
`prev_line = lines[lineno - 2].strip()` without the `lineno >= 2` guard): a diagnostic on line 1 that obeys
ignore comments and is not suppressed by its own line, in a file whose *last* line is an own-line
ignore comment matching it.  `lines[lineno - 2]` is `lines[-1]`: the diagnostic is dropped, and
`-1` (not the comment's index) is recorded as used. -/
def wrapsAt (lines : List Line) (r : Raw) : Bool :=
  r.obey &&
    match r.pos, lines.head?, lines.getLast? with
    | some (1, _), some l0, some lz => !trailingMatch l0 r.code && ownLineMatch lz r.code
    | _, _, _ => false

def D11_lineOneWrap (en : String → Bool) (lines : List Line) (raw : List Raw) : Bool :=
  (nub (raw.filter (counted en))).any fun r => !fileSuppressed lines r.code && wrapsAt lines r

/-- The line boundaries of the Python tokenizer, which numbers the lines the AST (and hence every
diagnostic) refers to: `\n`, `\r\n`, `\r`. -/
def isTokBreak (c : Char) : Bool := c == '\n' || c == '\r'

/-- The physical lines as the tokenizer counts them. -/
def tokLines (src : List Char) : List Line := splitBy isTokBreak src [] false

/-- **Former exception class `splitlinesMismatch`** (repaired by /repo ba62f49; `_lines()` was
`contents.splitlines()`): the source contains a character
that `str.splitlines()` treats as a line boundary and the tokenizer does not (form feed, `\x0b`,
`\x1c`‥`\x1e`, `\x85`, `\u2028`, `\u2029` — anywhere: as white space, in a comment, in a string
literal). From there on `lines[lineno - 1]` is not the line the diagnostic is on. -/
def D11_splitlinesMismatch (src : List Char) : Bool := src.any fun c => isPyBreak c && !isTokBreak c

/-- No line of the file carries an ignore comment. -/
def NoIgnore (lines : List Line) : Bool := lines.all fun l => !hasSub IC l

/-- What an ignore comment names: every code, or one. -/
inductive Sel
  | bare
  | code (c : String)
  deriving DecidableEq, Repr

def Sel.matches : Sel → Option String → Bool
  | .bare, _ => true
  | .code c, some c' => c == c'
  | .code _, none => false

/-- The comment text: `# static analysis: ignore` or `# static analysis: ignore[c]`. -/
def Sel.text : Sel → Line
  | .bare => IC
  | .code c => codedIC c

/-- `old  # static analysis: ignore…` -/
def withTrailing (old : Line) (s : Sel) : Line := old ++ ' ' :: ' ' :: s.text

/-- An own-line comment indented by `k` blanks. -/
def ownLine (k : Nat) (s : Sel) : Line := List.replicate k ' ' ++ s.text

/-- A code name usable inside the brackets. -/
def codeOK (c : String) : Bool := !c.toList.contains '#' && !c.toList.contains ']'

def Sel.ok : Sel → Bool
  | .bare => true
  | .code c => codeOK c

/-- A line one may append a trailing comment to: it has no `#` and is not blank. -/
def plainCode (l : Line) : Bool := !l.contains '#' && l.any (!isSpace ·)

/-- The diagnostic obeys ignore comments, lies on (1-based) line `n`, and is named by the comment. -/
def Sel.hits (s : Sel) (n : Nat) (r : Raw) : Bool := r.obey && (r.line == some n) && s.matches r.code

/-- The file with one line inserted before 0-based index `i` (`i = lines.length`: appended). -/
def insertAt (lines : List Line) (i : Nat) (l : Line) : List Line := lines.take i ++ l :: lines.drop i

/-- Renumbering after inserting one line before 0-based index `i` (1-based line numbers `> i`
move down by one). -/
def Raw.shift (i : Nat) (r : Raw) : Raw :=
  { r with pos := r.pos.map fun (ln, c) => (if ln > i then ln + 1 else ln, c) }

/-! ## The documented precedence of the layers that switch a code on or off

command line  >  main configuration file  >  the file it extends  > …  >  built-in default;
inside one file: the most specific applicable `[[overrides]]` entry (first of equally specific ones),
else the top-level entry.  (Priority of the file comes before specificity: a top-level entry of the
main file beats an override of an extended file.) -/

/-- What the command line says about `code`: `-d` beats `-e` beats `--enable-all` /
`--disable-all`; `none` = nothing. -/
def Cli.value (c : Cli) (allCodes : List String) (code : String) : Option Bool :=
  if c.disable.contains code then some false
  else if c.enable.contains code then some true
  else if c.enableAll && allCodes.contains code then some true
  else if !c.enableAll && c.disableAll && allCodes.contains code then some false
  else none

def lookupFirst (l : List (String × Bool)) (k : String) : Option Bool := (l.find? (·.1 == k)).map (·.2)

/-- The applicable override entries for `code`, as (specificity, value), in file order. -/
def ovEntries (f : CfgFile) (path : List String) (code : String) : List (Nat × Bool) :=
  f.overrides.flatMap fun o =>
    if path.take o.1.length == o.1 then (o.2.filter (·.1 == code)).map fun e => (o.1.length, e.2) else []

/-- The most specific entry, the first one among equally specific ones. -/
def firstMax : List (Nat × Bool) → Option (Nat × Bool)
  | [] => none
  | x :: xs =>
    match firstMax xs with
    | none => some x
    | some m => if m.1 ≤ x.1 then some x else some m

def fileValue (f : CfgFile) (path : List String) (code : String) : Option Bool :=
  match firstMax (ovEntries f path code) with
  | some m => some m.2
  | none => lookupFirst f.top code

def filesValue (path : List String) (code : String) : List CfgFile → Option Bool
  | [] => none
  | f :: fs =>
    match fileValue f path code with
    | some v => some v
    | none => filesValue path code fs

/-- The documented precedence. `cmd` = what the command line (the settings dict) says. -/
def specEnabled (cmd : Option Bool) (files : List CfgFile) (path : List String) (dflt : String → Bool)
    (code : String) : Bool :=
  match cmd with
  | some v => v
  | none => (filesValue path code files).getD (dflt code)

/-- Override module paths are non-empty (`"a.b".split(".")` never is empty). -/
def CfgFile.wf (f : CfgFile) : Bool := f.overrides.all fun o => !o.1.isEmpty

end Pya.C11
