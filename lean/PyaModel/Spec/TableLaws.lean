import PyaModel.Spec.Mem
import PyaModel.Core.Assign
/-!
# Spec/TableLaws — decidable laws the regenerated class table must satisfy

The value-kernel theorems are stated for *any* class table with `tableOk tbl = true`;
`Generated`-side obligation: `tableOk liveTable = true` (re-checked by the kernel on every run,
`Props/C03.lean`). A change to pyanalyze that alters a class-level verdict (nominal relation,
protocol check, artificial bases, generic bases) changes the regenerated table and breaks the
obligation.
-/
namespace Pya

/-- Classes whose instances occur as objects (`clsOf` of some `Obj`), by table index. -/
def allBelow (n : Nat) (p : Nat → Bool) : Bool := (List.range n).all p

/-- generic-base facts for the class `k` of a builtin container whose own parameters are its
element types (`tuple`, `list`, `set`: one; `dict`: key and value). -/
def gOkSeq (tbl : ClassTable) (k c : Cls) : Bool :=
  if tbl.arity c == 0 then true
  else if sub tbl k c then
    tbl.arity c == 1 && (match tbl.gbase k c with | some [.param 0] => true | _ => false)
  else (match tbl.gbase k c with | none => true | some g => g.length != tbl.arity c) &&
       !(tbl.nominalK false c k)

def gOkDict (tbl : ClassTable) (c : Cls) : Bool :=
  if tbl.arity c == 0 then true
  else if sub tbl C.dict c then
    (tbl.arity c == 2 && (match tbl.gbase C.dict c with | some [.param 0, .param 1] => true | _ => false)) ||
    (tbl.arity c == 1 && (match tbl.gbase C.dict c with | some [.param 0] => true | _ => false))
  else (match tbl.gbase C.dict c with | none => true | some g => g.length != tbl.arity c) &&
       !(tbl.nominalK false c C.dict)

/-- classes of objects that carry no generic structure: no generic base of matching arity -/
def gOkScalar (tbl : ClassTable) (k c : Cls) : Bool :=
  tbl.arity c == 0 || (match tbl.gbase k c with | none => true | some g => g.length != tbl.arity c)

def isContainerCls (k : Cls) : Bool :=
  k == C.tuple || k == C.list || k == C.set || k == C.frozenset || k == C.dict || k == C.str || k == C.bytes

/-! ### Laws added for the C04 theorems (`Props/C04.lean`, second half)

All are decidable statements about the class-level verdicts only; `c04Law tbl c` bundles the ones
about one class `c` (quantifying over the other classes of the table), `c04Dims` the dimension
facts. They are conjuncts of `tableOk` (inside its last per-class conjunct, so that the positional
destructuring of `tableOk` in `Proofs/C03.lean` is unaffected). -/

/-- `g = [param i, param (i+1), …]`: the generic base passes the subclass's own parameters through
unchanged and in order. -/
def isIdFrom : Nat → List GArg → Bool
  | _, [] => true
  | i, .param j :: g => i == j && isIdFrom (i + 1) g
  | _, _ => false

/-- some builtin container class (whose objects have element structure in `Obj`) is a subclass of `d` -/
def contSuper (tbl : ClassTable) (d : Cls) : Bool :=
  sub tbl C.tuple d || sub tbl C.list d || sub tbl C.set d || sub tbl C.frozenset d || sub tbl C.dict d

/-- The "Any only matches Any" matrices have no entries outside the table (so that the
mode-monotonicity law (X) below covers every class number). -/
def c04Dims (tbl : ClassTable) : Bool :=
  let n := tbl.size
  let ok := fun (m : List (List Bool)) => decide (m.length ≤ n) && m.all fun r => decide (r.length ≤ n)
  ok tbl.nominalXM && ok tbl.nominalKXM && ok tbl.nominalCXM

def c04Law (tbl : ClassTable) (c : Cls) : Bool :=
  let n := tbl.size
  -- (R) every class accepts itself, in both modes; a generic class seen as itself has its own
  --     parameters, unchanged and in order, as arguments
  tbl.nominal false c c && tbl.nominal true c c &&
  (tbl.arity c == 0 ||
    match tbl.gbase c c with
    | some g => g.length == tbl.arity c && isIdFrom 0 g
    | none => false) &&
  -- (O) `object` accepts the class `c`: as a type, as a class object, and its literal instances
  tbl.nominal false C.object c && tbl.nominal true C.object c &&
  tbl.nominalC false C.object c && tbl.nominalC true C.object c && tbl.issub c C.object &&
  -- (L') `tuple` and `list` have no proper subclasses in the table (strengthens (L))
  (!(sub tbl c C.tuple) || c == C.tuple) && (!(sub tbl c C.list) || c == C.list) &&
  -- (F) `frozenset` towards generic classes: as `tuple`/`list`/`set` above
  gOkSeq tbl C.frozenset c &&
  -- (T) membership in classes is transitive into `c`, unless `c` is a non-generic protocol
  --     (`issubclass` is not transitive at `Hashable`: `list` ≤ `object` ≤ `Hashable`)
  ((tbl.isProtocol c && tbl.arity c == 0) ||
    allBelow n fun b => !(sub tbl b c) || allBelow n fun a => !(sub tbl a b) || sub tbl a c) &&
  allBelow n fun d =>
    -- (X) what is accepted in the "Any only matches Any" mode is accepted in the normal mode
    (!(tbl.nominal true c d) || tbl.nominal false c d) &&
    (!(tbl.nominalK true c d) || tbl.nominalK false c d) &&
    (!(tbl.nominalC true c d) || tbl.nominalC false c d) &&
    -- (G) generic bases of `d` towards a generic class `c`: a base of matching arity exists only
    --     for subclasses, and for super-classes of the builtin containers it passes the parameters
    --     through in order; without such a base a super-class of a builtin container is not
    --     accepted by the nominal fallback (which would leave the element types unchecked)
    (tbl.arity c == 0 ||
      match tbl.gbase d c with
      | some g =>
        if g.length == tbl.arity c then
          sub tbl d c && (!(contSuper tbl d) || (isIdFrom 0 g && decide (tbl.arity c ≤ tbl.arity d)))
        else !(contSuper tbl d) || !(tbl.nominal false c d)
      | none => !(contSuper tbl d) || !(tbl.nominal false c d))

def tableOk (tbl : ClassTable) : Bool :=
  let n := tbl.size
  allBelow n (fun c => tbl.issub c c && decide (tbl.metaOf c < n)) &&
  allBelow n (fun c => allBelow n fun d =>
    -- (K) literal instances: TypeObject verdict or isinstance  =  issubclass + numeric tower
    ((tbl.nominalK false c d || tbl.issub d c) == sub tbl d c || isAbstractOrMeta tbl d) &&
    -- (C) class objects (protocol targets are value-dependent: exception class `protoClassObj`)
    (tbl.isProtocol c ||
      (tbl.nominalC false c d || tbl.issub (tbl.metaOf d) c) == sub tbl (tbl.metaOf d) c) &&
    -- (S) TypedValue-level relation for non-protocol expected classes
    (tbl.isProtocol c || tbl.nominal false c d == sub tbl d c)) &&
  allBelow n (fun c =>
    gOkSeq tbl C.tuple c && gOkSeq tbl C.list c && gOkSeq tbl C.set c && gOkDict tbl c &&
    -- str / bytes literals carry no generic structure towards the builtin containers
    (!(c == C.tuple || c == C.list || c == C.set || c == C.frozenset || c == C.dict) ||
      (gOkScalar tbl C.str c && gOkScalar tbl C.bytes c)) &&
    allBelow n fun k => !(objCls tbl k) || isContainerCls k || gOkScalar tbl k c) &&
  -- Laws added for the proof of `assign_known_eq_mem_partial` (Props/C03.lean); each excludes a
  -- class table on which the model and the spec differ for reasons unrelated to pyanalyze:
  -- (B) the builtin class ids 0..13 are in range (otherwise the rows of `clsOf o` are unconstrained)
  decide (14 ≤ n) &&
  -- (T) `tuple`/`list` (the only sequence-form classes) are not protocols and have one parameter
  !(tbl.isProtocol C.tuple) && !(tbl.isProtocol C.list) &&
  tbl.arity C.tuple == 1 && tbl.arity C.list == 1 &&
  -- (L) no other class of the object universe is a subclass of `tuple`/`list` (such instances would
  --     have no element structure in `Obj`, while `SequenceValue.can_assign` falls back to the
  --     nominal check and accepts them)
  allBelow n (fun k => !(objCls tbl k) || k == C.tuple || k == C.list ||
    (!(sub tbl k C.tuple) && !(sub tbl k C.list))) &&
  -- (U) user classes and metaclasses are not the builtin container classes, and `type(c)` is
  --     listed as a metaclass (so the scalar law above applies to instances and class objects)
  --     … and the laws added for the C04 theorems (`c04Law`, `c04Dims` above)
  allBelow n (fun k => (!(tbl.isUser k && isContainerCls k) && (c04Law tbl k && c04Dims tbl)) &&
    !(isContainerCls (tbl.metaOf k)) && tbl.metaL.contains (tbl.metaOf k))
where
  /-- classes without instances in the object universe (their `nominalK` row is not populated) -/
  isAbstractOrMeta (tbl : ClassTable) (d : Cls) : Bool := !(instCls tbl d)
  instCls (tbl : ClassTable) (d : Cls) : Bool :=
    d == C.int || d == C.bool || d == C.float || d == C.complex || d == C.str || d == C.bytes ||
    d == C.none || d == C.tuple || d == C.list || d == C.set || d == C.frozenset || d == C.dict ||
    tbl.isUser d
  /-- classes some object can have: instance classes and metaclasses -/
  objCls (tbl : ClassTable) (k : Cls) : Bool := instCls tbl k || tbl.metaL.contains k

end Pya
