import PyaModel.Core.AnnVisit
import PyaModel.Core.Render
import PyaModel.Core.Measure
import PyaModel.Generated.TotalTables
import PyaModel.Core.Tfr
import PyaModel.Generated.TfrRoutes
import PyaModel.Generated.FoldSites
import PyaModel.Generated.FormatRegexC12
/-!
# Spec/Total — what C12 demands, as executable predicates, and the exception classes

* `wellFormed reg lines f` — the property's clause on one diagnostic: a registered code, a line number
  inside the file, a column inside that line, a non-empty description and message.
* `Call.inFile reg lines c` — the hypothesis of `emit_wellformed`: the call names a registered code,
  its node has a position inside the file, and it carries (or its code has) a non-empty message.
* `D12_noPosition`, `D12_noCode`, `D12_emptyMessage` — the `show_error` calls on which the full
  statement fails (the model builds an ill-formed record).
* `AExpr.hasUnsupported sup e` = `D12_unsupportedAnnotNode`: some node of `e` has a kind without a
  `visit_` method — the only inputs on which `annVisit` can raise.
-/
namespace Pya.C12
open Pya.C11 (Line)

/-- the live registry and visitor table (regenerated on every run) -/
def liveReg : Reg := Gen.errorCodes
def liveSup (k : String) : Bool := Gen.visitorMethods.contains k
/-- the table of the pinned tree (annotations.py:973‥1043), for the witness theorems -/
def pinnedSup (k : String) : Bool :=
  ["Attribute", "BinOp", "Call", "Constant", "Dict", "Expr", "List", "Name", "Set", "Subscript", "Tuple",
   "UnaryOp"].contains k

/-- does the live ForwardRef branch re-enter the evaluator on a route outside `add_evaluation`? -/
def liveUnguarded : Bool := Gen.forwardRefRoutes.any fun r => r.2.1 && !r.2.2

def Reg.has (reg : Reg) (c : String) : Bool := reg.any (·.1 == c)

/-- every registered code has a non-empty description -/
def Reg.descrOk (reg : Reg) : Bool := reg.all (fun p => p.2 != "")

/-- The property's clause on one diagnostic. -/
def wellFormed (reg : Reg) (lines : List Line) (f : Failure) : Bool :=
  (match f.code with | some c => reg.has c | none => false) &&
  (match f.lineno, f.col with
   | some ln, some col => decide (1 ≤ ln) && decide (ln ≤ lines.length) && decide (col ≤ (lines.getD (ln - 1) []).length)
   | _, _ => false) &&
  f.description != "" && f.message != ""

/-- `(ln, col)` lies inside the file -/
def posInside (lines : List Line) (p : Nat × Nat) : Bool :=
  decide (1 ≤ p.1) && decide (p.1 ≤ lines.length) && decide (p.2 ≤ (lines.getD (p.1 - 1) []).length)

/-- Hypothesis of `emit_wellformed` on one `show_error` call. -/
def Call.inFile (reg : Reg) (lines : List Line) (c : Call) : Bool :=
  (match c.code with | some k => reg.has k | none => false) &&
  (match c.pos with | some p => posInside lines p | none => false) &&
  (match c.e with | some s => s != "" | none => true)

/-! ### exception classes on `show_error` calls -/

/-- the node is `None` or has no position (`check()`'s own catch-all, import failures of an empty file) -/
def D12_noPosition (c : Call) : Bool := c.pos.isNone
/-- no error code is passed -/
def D12_noCode (c : Call) : Bool := c.code.isNone
/-- an empty message text is passed -/
def D12_emptyMessage (c : Call) : Bool := c.e == some ""

def d12Call (reg : Reg) (lines : List Line) (c : Call) : List String :=
  (if D12_noPosition c then ["noPosition"] else []) ++ (if D12_noCode c then ["noCode"] else []) ++
  (if D12_emptyMessage c then ["emptyMessage"] else []) ++
  (if !c.inFile reg lines && !D12_noPosition c && !D12_noCode c && !D12_emptyMessage c then ["outsideFile"] else [])

/-! ### exception class on annotation expressions -/
mutual
/-- some node anywhere in `e` has a kind without a `visit_` method -/
def AExpr.hasUnsupported (sup : String → Bool) : AExpr → Bool
  | .name _ => !sup "Name"
  | .const => !sup "Constant"
  | .attr v _ => !sup "Attribute" || AExpr.hasUnsupported sup v
  | .sub v s => !sup "Subscript" || AExpr.hasUnsupported sup v || AExpr.hasUnsupported sup s
  | .tuple es => !sup "Tuple" || AExpr.hasUnsupportedL sup es
  | .list es => !sup "List" || AExpr.hasUnsupportedL sup es
  | .set es => !sup "Set" || AExpr.hasUnsupportedL sup es
  | .dict ks vs => !sup "Dict" || AExpr.hasUnsupportedL sup ks || AExpr.hasUnsupportedL sup vs
  | .binop _ l r => !sup "BinOp" || AExpr.hasUnsupported sup l || AExpr.hasUnsupported sup r
  | .unary _ e => !sup "UnaryOp" || AExpr.hasUnsupported sup e
  | .call f as ks => !sup "Call" || AExpr.hasUnsupported sup f || AExpr.hasUnsupportedL sup as || AExpr.hasUnsupportedL sup ks
  | .other k => !sup k
def AExpr.hasUnsupportedL (sup : String → Bool) : List AExpr → Bool
  | [] => false
  | e :: es => AExpr.hasUnsupported sup e || AExpr.hasUnsupportedL sup es
end

mutual
/-- the node kinds occurring in `e` -/
def AExpr.kinds : AExpr → List String
  | .name _ => ["Name"]
  | .const => ["Constant"]
  | .attr v _ => "Attribute" :: AExpr.kinds v
  | .sub v s => "Subscript" :: (AExpr.kinds v ++ AExpr.kinds s)
  | .tuple es => "Tuple" :: AExpr.kindsL es
  | .list es => "List" :: AExpr.kindsL es
  | .set es => "Set" :: AExpr.kindsL es
  | .dict ks vs => "Dict" :: (AExpr.kindsL ks ++ AExpr.kindsL vs)
  | .binop _ l r => "BinOp" :: (AExpr.kinds l ++ AExpr.kinds r)
  | .unary _ e => "UnaryOp" :: AExpr.kinds e
  | .call f as ks => "Call" :: (AExpr.kinds f ++ (AExpr.kindsL as ++ AExpr.kindsL ks))
  | .other k => [k]
def AExpr.kindsL : List AExpr → List String
  | [] => []
  | e :: es => AExpr.kinds e ++ AExpr.kindsL es
end

/-- `D12_unsupportedAnnotNode`: the annotation contains a node kind `_Visitor` cannot visit. -/
def D12_unsupportedAnnotNode (sup : String → Bool) (e : AExpr) : Bool := e.hasUnsupported sup

/-! ### constant-folding sites (regenerated table `Gen.foldSites` / `Gen.unguardedFolds`)

pyanalyze *executes* operators, `format`, `repr`, `len`, `hash`, … on statically known values in many
places; each such site must catch whatever the operation can raise (a valid format spec on a huge
int raises `OverflowError`, a user `__format__` raises anything). -/

/-- the handler list catches every ordinary exception -/
def catchesAll (caught : List String) : Bool := caught.contains "Exception" || caught.contains "BaseException"

/-- Sites whose narrower clause is accepted, with the reason:
* `_sequence_common_getitem_impl.inner` — `members[key.val]` on a *list of Values* with a slice of literals: CPython's list
  slicing raises only `TypeError` / `ValueError` itself; a user `__index__` that raises is class `userCodeRaises`;
* `KnownValue.__hash__`, `MultiValuedValue.can_assign` — `hash(...)` / set membership of a literal: builtin containers raise only
  `TypeError` (unhashable); a user `__hash__` that raises is class `userCodeRaises`;
* `_isinstance_impl` / `_issubclass_impl` — `_CannotResolve` is the module's own control-flow exception around a helper, not a fold. -/
def foldWaivers : List (String × String × List String) :=
  [("implementation.py", "_sequence_common_getitem_impl.inner", ["TypeError", "ValueError"]),
   ("value.py", "KnownValue.__hash__", ["TypeError"]),
   ("value.py", "MultiValuedValue.can_assign", ["TypeError"]),
   ("implementation.py", "_isinstance_impl", ["_CannotResolve"]),
   ("implementation.py", "_issubclass_impl", ["_CannotResolve"])]

def foldSitesOk (sites : List (String × String × List String)) : Bool :=
  sites.all fun s => catchesAll s.2.2 || foldWaivers.contains s

/-- the guarded sites of the pinned tree: (file, function, number of fold `try:` blocks) — a `try:` that disappears is as bad
as a clause that narrows -/
def pinnedFoldSites : List (String × String × Nat) :=
  [("name_check_visitor.py", "ClassAttributeChecker.serialize_type", 1),
   ("name_check_visitor.py", "NameCheckVisitor._load_module", 1),
   ("name_check_visitor.py", "NameCheckVisitor._visit_single_formatted_value", 2),
   ("name_check_visitor.py", "NameCheckVisitor._visit_single_compare", 1),
   ("name_check_visitor.py", "NameCheckVisitor._constraint_from_compare_op", 1),
   ("name_check_visitor.py", "NameCheckVisitor._constraint_from_compare_op.predicate_func", 1),
   ("name_check_visitor.py", "NameCheckVisitor._check_call_no_mvv", 1),
   ("implementation.py", "_issubclass_impl", 1),
   ("implementation.py", "_isinstance_impl", 1),
   ("implementation.py", "_sequence_common_getitem_impl.inner", 1),
   ("implementation.py", "_dict_getitem_impl.inner", 2),
   ("implementation.py", "_dict_get_impl.inner", 2),
   ("implementation.py", "_dict_delitem_impl", 1),
   ("implementation.py", "_dict_pop_impl", 1),
   ("implementation.py", "_dict_setdefault_impl", 1),
   ("implementation.py", "len_of_value", 1),
   ("boolability.py", "_get_boolability_no_mvv", 1),
   ("predicates.py", "EqualsPredicate.__call__", 1),
   ("predicates.py", "InPredicate.__call__", 1),
   ("value.py", "KnownValue.__hash__", 1),
   ("value.py", "MultiValuedValue.can_assign", 1),
   ("value.py", "concrete_values_from_iterable", 1),
   ("value.py", "_HashableValue.can_assign", 1)]

def foldSitesPresent (sites : List (String × String × List String)) : Bool :=
  pinnedFoldSites.all fun p => decide (p.2.2 ≤ (sites.filter fun s => s.1 == p.1 && s.2.1 == p.2.1).length)

/-- fold expressions outside every `try:` in the pinned tree. Each was probed (see harness corpus): most are protected by a type test
just before them; the `KnownValue.__str__` repr and the `len(value.val)` of `concrete_values_from_iterable` were the finding classes
`hugeIntRepr` / `hugeRangeLen` and are inside a `try:` since 891931a / fe3a397 (re-pinned). A *new* unguarded fold is a new obligation failure. -/
def pinnedUnguardedFolds : List (String × String × String) :=
  [("name_check_visitor.py", "NameCheckVisitor._extract_exception_types", "f'{subval.val!r}'"),
   ("name_check_visitor.py", "NameCheckVisitor.visit_Assign", "value.val in self.current_enum_members"),
   ("implementation.py", "_sequence_common_getitem_impl.inner", "-len(members) <= key.val < len(members)"),
   ("implementation.py", "_sequence_common_getitem_impl.inner", "key.val >= 0"),
   ("implementation.py", "_sequence_common_getitem_impl.inner", "-key.val"),
   ("implementation.py", "_typeddict_setitem", "key.val not in self_value.items"),
   ("implementation.py", "_typeddict_setitem", "f'{key.val!r}'"),
   ("implementation.py", "_dict_getitem_impl.inner", "f'{key.val!r}'"),
   ("implementation.py", "_dict_get_impl.inner", "f'{key.val!r}'"),
   ("format_strings.py", "ConversionSpecifier.accept_no_mvv", "arg.val not in range(256)"),
   ("format_strings.py", "ConversionSpecifier.accept_no_mvv", "len(arg.val)"),
   ("value.py", "KnownValue.__hash__", "hash((type(self.val), id(self.val)))"),
   ("value.py", "KnownValue.__str__", "f'{self.val.__name__!r}'"),
   ("value.py", "KnownValue.__str__", "f'{get_fully_qualified_name(self.val)!r}'"),
   ("value.py", "TypedValue.can_assign_thrift_enum", "other.val in self.typ._VALUES_TO_NAMES"),
   ("value.py", "TypedDictValue.can_assign", "key_type.val not in self.items"),
   ("value.py", "TypedDictValue.can_assign", "f'{key_type.val!r}'"),
   ("value.py", "TypedDictValue.can_assign", "key not in other.val"),
   ("value.py", "MultiValuedValue.__str__", "repr(val.val)"),
   ("value.py", "_HashableValue.can_assign", "f'{other.val!r}'")]

def unguardedFoldsKnown (l : List (String × String × String)) : Bool := l.all pinnedUnguardedFolds.contains

/-- `format_strings._FORMAT_STRING_REGEX` of the pinned tree. The %-template parser built on it
(`ConversionSpecifier.from_match`: `int(field_width)`, `int(precision[1:])`, …) relies on what the pattern
guarantees about each group (digits are never empty); an edit of the pattern must re-validate that. -/
def pinnedFormatRegex : String := "\n    (?P<pre_match>.*?)  # stuff before the match\n    (\n        %  # starting character\n        (?P<mapping_key>\\([^\\)]+\\))?\n        (?P<conversion_flags>[#0\\- +]+)?\n        (?P<field_width>\\*|\\d+)?\n        (?P<precision>\\.(\\*|\\d+))?\n        (?P<length_modifier>[hlL])?\n        (?P<conversion_type>[diouxXeEfFgGcrs%ba])\n    |\n        $  # or until the end of the string\n    )\n"

end Pya.C12
