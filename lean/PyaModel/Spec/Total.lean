import PyaModel.Core.AnnVisit
import PyaModel.Core.Render
import PyaModel.Core.Measure
import PyaModel.Generated.TotalTables
import PyaModel.Core.Tfr
import PyaModel.Generated.TfrRoutes
/-!
# Spec/Total — what C12 demands, as executable predicates, and the exception classes

* `wellFormed reg lines f` — the property's clause on one diagnostic: a registered code, a line number
  inside the file, a column inside that line, a non-empty description and message.
* `Call.inFile reg lines c` — the hypothesis of `emit_wellformed`: the call names a registered code,
  its node has a position inside the file, and it carries (or its code has) a non-empty message.
* `D12_noPosition`, `D12_noCode`, `D12_emptyMessage` — the `show_error` calls on which the full
  statement fails (the model builds an ill-formed record).
* `AExpr.hasUnsupported sup e` = `D12_unsupportedAnnotNode`: some node of `e` has a kind without a
  `visit_` method — the only inputs on which `annVisit` can raise.
-/
namespace Pya.C12
open Pya.C11 (Line)

/-- the live registry and visitor table (regenerated on every run) -/
def liveReg : Reg := Gen.errorCodes
def liveSup (k : String) : Bool := Gen.visitorMethods.contains k
/-- the table of the pinned tree (annotations.py:973‥1043), for the witness theorems -/
def pinnedSup (k : String) : Bool :=
  ["Attribute", "BinOp", "Call", "Constant", "Dict", "Expr", "List", "Name", "Set", "Subscript", "Tuple",
   "UnaryOp"].contains k

/-- does the live ForwardRef branch re-enter the evaluator on a route outside `add_evaluation`? -/
def liveUnguarded : Bool := Gen.forwardRefRoutes.any fun r => r.2.1 && !r.2.2

def Reg.has (reg : Reg) (c : String) : Bool := reg.any (·.1 == c)

/-- every registered code has a non-empty description -/
def Reg.descrOk (reg : Reg) : Bool := reg.all (fun p => p.2 != "")

/-- The property's clause on one diagnostic. -/
def wellFormed (reg : Reg) (lines : List Line) (f : Failure) : Bool :=
  (match f.code with | some c => reg.has c | none => false) &&
  (match f.lineno, f.col with
   | some ln, some col => decide (1 ≤ ln) && decide (ln ≤ lines.length) && decide (col ≤ (lines.getD (ln - 1) []).length)
   | _, _ => false) &&
  f.description != "" && f.message != ""

/-- `(ln, col)` lies inside the file -/
def posInside (lines : List Line) (p : Nat × Nat) : Bool :=
  decide (1 ≤ p.1) && decide (p.1 ≤ lines.length) && decide (p.2 ≤ (lines.getD (p.1 - 1) []).length)

/-- Hypothesis of `emit_wellformed` on one `show_error` call. -/
def Call.inFile (reg : Reg) (lines : List Line) (c : Call) : Bool :=
  (match c.code with | some k => reg.has k | none => false) &&
  (match c.pos with | some p => posInside lines p | none => false) &&
  (match c.e with | some s => s != "" | none => true)

/-! ### exception classes on `show_error` calls -/

/-- the node is `None` or has no position (`check()`'s own catch-all, import failures of an empty file) -/
def D12_noPosition (c : Call) : Bool := c.pos.isNone
/-- no error code is passed -/
def D12_noCode (c : Call) : Bool := c.code.isNone
/-- an empty message text is passed -/
def D12_emptyMessage (c : Call) : Bool := c.e == some ""

def d12Call (reg : Reg) (lines : List Line) (c : Call) : List String :=
  (if D12_noPosition c then ["noPosition"] else []) ++ (if D12_noCode c then ["noCode"] else []) ++
  (if D12_emptyMessage c then ["emptyMessage"] else []) ++
  (if !c.inFile reg lines && !D12_noPosition c && !D12_noCode c && !D12_emptyMessage c then ["outsideFile"] else [])

/-! ### exception class on annotation expressions -/
mutual
/-- some node anywhere in `e` has a kind without a `visit_` method -/
def AExpr.hasUnsupported (sup : String → Bool) : AExpr → Bool
  | .name _ => !sup "Name"
  | .const => !sup "Constant"
  | .attr v _ => !sup "Attribute" || AExpr.hasUnsupported sup v
  | .sub v s => !sup "Subscript" || AExpr.hasUnsupported sup v || AExpr.hasUnsupported sup s
  | .tuple es => !sup "Tuple" || AExpr.hasUnsupportedL sup es
  | .list es => !sup "List" || AExpr.hasUnsupportedL sup es
  | .set es => !sup "Set" || AExpr.hasUnsupportedL sup es
  | .dict ks vs => !sup "Dict" || AExpr.hasUnsupportedL sup ks || AExpr.hasUnsupportedL sup vs
  | .binop _ l r => !sup "BinOp" || AExpr.hasUnsupported sup l || AExpr.hasUnsupported sup r
  | .unary _ e => !sup "UnaryOp" || AExpr.hasUnsupported sup e
  | .call f as ks => !sup "Call" || AExpr.hasUnsupported sup f || AExpr.hasUnsupportedL sup as || AExpr.hasUnsupportedL sup ks
  | .other k => !sup k
def AExpr.hasUnsupportedL (sup : String → Bool) : List AExpr → Bool
  | [] => false
  | e :: es => AExpr.hasUnsupported sup e || AExpr.hasUnsupportedL sup es
end

mutual
/-- the node kinds occurring in `e` -/
def AExpr.kinds : AExpr → List String
  | .name _ => ["Name"]
  | .const => ["Constant"]
  | .attr v _ => "Attribute" :: AExpr.kinds v
  | .sub v s => "Subscript" :: (AExpr.kinds v ++ AExpr.kinds s)
  | .tuple es => "Tuple" :: AExpr.kindsL es
  | .list es => "List" :: AExpr.kindsL es
  | .set es => "Set" :: AExpr.kindsL es
  | .dict ks vs => "Dict" :: (AExpr.kindsL ks ++ AExpr.kindsL vs)
  | .binop _ l r => "BinOp" :: (AExpr.kinds l ++ AExpr.kinds r)
  | .unary _ e => "UnaryOp" :: AExpr.kinds e
  | .call f as ks => "Call" :: (AExpr.kinds f ++ (AExpr.kindsL as ++ AExpr.kindsL ks))
  | .other k => [k]
def AExpr.kindsL : List AExpr → List String
  | [] => []
  | e :: es => AExpr.kinds e ++ AExpr.kindsL es
end

/-- `D12_unsupportedAnnotNode`: the annotation contains a node kind `_Visitor` cannot visit. -/
def D12_unsupportedAnnotNode (sup : String → Bool) (e : AExpr) : Bool := e.hasUnsupported sup

end Pya.C12
