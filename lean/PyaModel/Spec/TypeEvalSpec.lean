import PyaModel.Core.TypeEval
import PyaModel.Spec.D14
/-!
# Spec/TypeEvalSpec — the reference interpreter of docs/type_evaluation.md, and the exception classes of C20

The specification side of C20, written from the document, not from the code:

* **argument kinds** ("### is_provided(), is_positional(), and is_keyword()"): a parameter is provided as
  `POSITIONAL` (a positional argument or `*args`), `KEYWORD` (a keyword argument or `**kwargs`), `DEFAULT`,
  or its kind is `UNKNOWN`; `is_provided` = POSITIONAL or KEYWORD, `is_positional` = POSITIONAL,
  `is_keyword` = KEYWORD;
* **conditions**: `is_of_type(x, T, exclude_any=b)` is assignability of the argument's type to `T`, where
  with `b = True` "Any is no longer compatible with any other type, but only with another Any"
  (`ca tbl b T a`, the assignability model shared with C03/C04); `x == c` / `x is c` is
  `is_of_type(x, Literal[c], exclude_any=True)` and `!=` / `is not` its negation; version / platform
  comparisons have their CPython outcome; `and` / `or` / `not` are the boolean connectives;
* **execution**: statements run in order until a `return`; `show_error` records its message and
  execution continues; without a `return` the call has the return annotation;
* **unions** ("### Interaction with unions"): for an argument of union type the result is the union of
  the results for the members evaluated separately (`refUnion`: all member-wise environments), and a
  `show_error` is reported when it fires for some member.

Validated on every run against an independently written Python reference interpreter (stream `spec`).
-/
namespace Pya.C20

/-- The four argument kinds of the document. -/
inductive AKind | positional | keyword | default | unknown
  deriving DecidableEq, Repr, Inhabited

/-- The kind a bound `Position` stands for (`int`/`ARGS` → POSITIONAL, `str`/`KWARGS` → KEYWORD). -/
def akindOf : Pos → AKind
  | .idx _ => .positional | .args => .positional
  | .kw _ => .keyword | .kwargs => .keyword
  | .dflt => .default | .unknown => .unknown

/-- "The three special functions map to these kinds as follows". -/
def specKind : KindFn → AKind → Bool
  | .provided, k => k == .positional || k == .keyword
  | .positional, k => k == .positional
  | .keyword, k => k == .keyword

mutual
/-- truth value of a condition for arguments that are not unions -/
def refCond (tbl : ClassTable) (ps : Positions) (e : Env) : Cond → Bool
  | .ofType v t x => (match e v with | some a => ca tbl x t a | none => false)
  | .cmp v k neg => (match e v with | some a => ca tbl true (.known k) a != neg | none => false)
  | .kind f v => (match ps.lookup v with | some p => specKind f (akindOf p) | none => false)
  | .sys b => b
  | .not c => !refCond tbl ps e c
  | .and cs => refAll tbl ps e cs
  | .or cs => refAny tbl ps e cs
def refAll (tbl : ClassTable) (ps : Positions) (e : Env) : List Cond → Bool
  | [] => true
  | c :: cs => refCond tbl ps e c && refAll tbl ps e cs
def refAny (tbl : ClassTable) (ps : Positions) (e : Env) : List Cond → Bool
  | [] => false
  | c :: cs => refCond tbl ps e c || refAny tbl ps e cs
end

mutual
/-- execution of one statement: the type returned (if a `return` was reached) and the messages shown -/
def refStmt (tbl : ClassTable) (ps : Positions) (e : Env) : Stmt → Option Ty × List String
  | .pass => (none, [])
  | .ret t => (some t, [])
  | .err m => (none, [m])
  | .ite c body orelse => if refCond tbl ps e c then refBlock tbl ps e body else refBlock tbl ps e orelse
def refBlock (tbl : ClassTable) (ps : Positions) (e : Env) : List Stmt → Option Ty × List String
  | [] => (none, [])
  | s :: ss =>
    let r := refStmt tbl ps e s
    match r.1 with
    | some t => (some t, r.2)
    | none => let rest := refBlock tbl ps e ss; (rest.1, r.2 ++ rest.2)
end

/-- A call whose arguments are not unions. -/
def refRun (tbl : ClassTable) (ps : Positions) (e : Env) (retAnn : Ty) (body : List Stmt) :
    Ty × List String :=
  let r := refBlock tbl ps e body
  (r.1.getD retAnn, r.2)

/-- All ways of choosing one member for every union-typed variable. -/
def splitVars : VarMap → List VarMap
  | [] => [[]]
  | (k, t) :: rest => (flatten1 t).flatMap fun m => (splitVars rest).map fun r => (k, m) :: r

/-- A call with union-typed arguments: the union of the member-wise results; a message is shown when
it is shown for some member. -/
def refUnion (tbl : ClassTable) (ps : Positions) (vars : VarMap) (retAnn : Ty) (body : List Stmt) :
    Ty × List String :=
  let runs := (splitVars vars).map fun vm => refRun tbl ps (Env.ofList vm) retAnn body
  (unite (runs.map (·.1)), (runs.flatMap (·.2)).eraseDups)

/-- The document's context of a call: an omitted parameter whose default is `...` has its annotation as
its type ("If the default is `...`, the type is the parameter's annotation instead"); everything else as
the binder reports it. -/
def specContext (c : EvalCase) : Option (Positions × VarMap) := contextWith id c

def refCall (tbl : ClassTable) (c : EvalCase) : Option (Ty × List String) :=
  (specContext c).map fun (poss, vars) => refUnion tbl poss vars c.retAnn c.body

/-! ## Exception classes (decidable predicates on the input; printed by the driver) -/

def isUnionVal : Ty → Bool
  | .union _ => true
  | .annotated (.union _) => true
  | _ => false

mutual
/-- every `(variable, pattern, exclude_any)` type test occurring in a condition -/
def Cond.tests : Cond → List (String × Ty × Bool)
  | .ofType v t x => [(v, t, x)]
  | .cmp v k _ => [(v, .known k, true)]
  | .kind _ _ => []
  | .sys _ => []
  | .not c => c.tests
  | .and cs => Cond.testsL cs
  | .or cs => Cond.testsL cs
def Cond.testsL : List Cond → List (String × Ty × Bool)
  | [] => []
  | c :: cs => c.tests ++ Cond.testsL cs
end

mutual
def Stmt.tests : Stmt → List (String × Ty × Bool)
  | .ite c b o => c.tests ++ Stmt.testsL b ++ Stmt.testsL o
  | _ => []
def Stmt.testsL : List Stmt → List (String × Ty × Bool)
  | [] => []
  | s :: ss => s.tests ++ Stmt.testsL ss
end

/-- one type test re-types a *matching* member of the variable's type: the positive narrowing of a full
match (`constrain_value`) does not keep the member as it is (predicates.py:65‥66 hands back the pattern
for `Any`-like members) -/
def retypedTest (tbl : ClassTable) (vars : VarMap) (vtx : String × Ty × Bool) : Bool :=
  match vars.lookup vtx.1 with
  | some a => (flatten1 a).any fun m => ca tbl vtx.2.2 vtx.2.1 m && narrowTag tbl vtx.2.1 m != .keep
  | none => false

/-- **class `retyped`**: the body tests a variable against a pattern that some member of the variable's
type matches without being kept by the positive narrowing — in practice an `Any` argument matched with
`exclude_any=False`, which is `T` (not `Any`) for the rest of the branch. -/
def D20_retyped (tbl : ClassTable) (vars : VarMap) (body : List Stmt) : Bool :=
  (Stmt.testsL body).any (retypedTest tbl vars)

def isPass : Stmt → Bool
  | .pass => true
  | _ => false

mutual
/-- Instrumented run of the model: does `pb` hold at some executed statement that does not return for
every member (with its flattened result and the statements that follow it in its block)? -/
def walkStmt (tbl : ClassTable) (ps : Positions) (pb : EvalRet → List Stmt → Bool) (e : Env) : Stmt → Bool
  | .ite c body orelse =>
    let r := evalCond tbl ps e c
    (match r.left, r.right with
     | some l, some rr => walkBlock tbl ps pb (e.over l) body || walkBlock tbl ps pb (e.over rr) orelse
     | some l, none => walkBlock tbl ps pb (e.over l) body
     | none, some rr => walkBlock tbl ps pb (e.over rr) orelse
     | none, none => false)
  | _ => false
def walkBlock (tbl : ClassTable) (ps : Positions) (pb : EvalRet → List Stmt → Bool) (e : Env) :
    List Stmt → Bool
  | [] => false
  | s :: ss =>
    walkStmt tbl ps pb e s ||
      (let r := (evalStmt tbl ps e s).1
       if r.all Option.isSome then false
       else pb r ss || walkBlock tbl ps pb e ss)
end

/-- **class `fallThrough`**: in some executed block a statement returns for some union members and falls
through for others (its `CombinedReturn` mixes values and `None`) and is followed by statements other
than `pass`: `visit_block` (:670) keeps the returns and goes on with the *un-narrowed* variables, so the
members that already returned are evaluated again by the rest. -/
def D20_fallThrough (tbl : ClassTable) (ps : Positions) (e : Env) (body : List Stmt) : Bool :=
  walkBlock tbl ps (fun r ss => r.any Option.isSome && !ss.all isPass) e body

/-- What the reporting pipeline shows of the `show_error`s that fired in one call: every
`UserRaisedError` is reported on the call node with code `incompatible_call` (signature.py:1356‥1364)
and `show_error` keeps one diagnostic per (node, error code) (node_visitor.py:613): the first. -/
def reported (fired : List String) : List String := fired.take 1

/-- **class `multiError`**: two or more `show_error` calls execute in one call; the reporting pipeline
keeps one diagnostic per (node, error code) (node_visitor.py:613), so only the first reaches the user. -/
def D20_multiError (tbl : ClassTable) (ps : Positions) (e : Env) (body : List Stmt) : Bool :=
  decide ((evalBlock tbl ps e [] body).2.length ≥ 2)

/-! ## Decidable side conditions of the union-distribution theorem -/

mutual
/-- the types a body can return -/
def Stmt.rets : Stmt → List Ty
  | .ret t => [t]
  | .ite _ b o => Stmt.retsL b ++ Stmt.retsL o
  | _ => []
def Stmt.retsL : List Stmt → List Ty
  | [] => []
  | s :: ss => s.rets ++ Stmt.retsL ss
end

/-- a returned type is a value `unite_values` leaves alone: not `Annotated[A | B]`, not a one-member or
duplicate-carrying union, and its members are hashable -/
def okRet (t : Ty) : Bool :=
  !isAnnUnion t && !nonNormalUnion t && (flatten1 t).all fun y => Ty.hashEq y y

def retsOK (retAnn : Ty) (body : List Stmt) : Bool := (retAnn :: Stmt.retsL body).all okRet

/-- the members of a normal union: at least two, none a union, all hashable, pairwise different -/
def goodMembers (S0 : List Ty) : Bool :=
  decide (2 ≤ S0.length) && S0.all (fun m => !isUnionVal m && Ty.hashEq m m) && !hasDupMembers.dupIn S0

/-- exactly one entry of the call's variables is for `x`, it holds a (plain) union, and no other entry
holds a union -/
def oneUnionB (x : String) : VarMap → Bool
  | [] => false
  | (k, t) :: rest =>
    if k = x then
      (match t with | .union _ => true | _ => false) && rest.all fun kv => kv.1 != x && !isUnionVal kv.2
    else !isUnionVal t && oneUnionB x rest

/-- `x` is the one union-typed variable and its union is normal -/
def unionArgOK (x : String) (vars : VarMap) : Bool :=
  oneUnionB x vars && (match vars.lookup x with | some (.union S0) => goodMembers S0 | _ => false)

/-- every other variable holds a hashable value -/
def othersOK (x : String) (vars : VarMap) : Bool := vars.all fun kv => kv.1 == x || Ty.hashEq kv.2 kv.2

/-- number of union-typed variables of a call -/
def unionCount (vars : VarMap) : Nat := (vars.filter fun kv => isUnionVal kv.2).length

/-- the classes a case falls in, in the order the harness looks them up -/
def d20Classes (tbl : ClassTable) (c : EvalCase) : List String :=
  match context c with
  | none => []
  | some (poss, vars) =>
    let e := Env.ofList vars
    (if D20_fallThrough tbl poss e c.body then ["fallThrough"] else []) ++
    (if D20_retyped tbl vars c.body then ["retyped"] else []) ++
    (if D20_multiError tbl poss e c.body then ["multiError"] else [])

end Pya.C20
