import PyaModel.Core.TypeVar
/-!
# Spec/TypeVarSpec — what a type-variable solution has to satisfy (C15), independent of the solver

* `Sat le bs s` — the value `s` satisfies the bounds `bs`: it accepts every lower bound, is accepted
  by every upper bound (a declared `bound=` is an upper bound), and is one of the constraints of
  every `IsOneOf`. `OrBound`s demand nothing (the solver ignores them; they are outside the
  property). `satLower` / `satUpper` / `satOneOf` are the executable parts.
* `specOk le bs` — the order-free, executable verdict "some value satisfies the bounds": every
  lower bound is below every upper bound and, when constraints exist, some constraint lies between
  them. It is written with `List.all` / `List.any` over the *multiset* of bounds only, so it does not
  depend on their order by construction (`Proofs/C15.lean: specOk_perm`).
* `reach le join bs` — every value the solver looks at while folding `bs`: the bound values and
  the successive `bottom` / `top` values. `lawsOn le join V` — `le` restricted to the non-`Any`
  members of the finite list `V` is reflexive and transitive and `join` is a least upper bound.
* the exception classes `D15_*` (decidable; printed by the driver).
-/
namespace Pya.C15

def lowers : List Bound → List Ty
  | [] => []
  | .lower v :: bs => v :: lowers bs
  | _ :: bs => lowers bs

def uppers : List Bound → List Ty
  | [] => []
  | .upper v :: bs => v :: uppers bs
  | _ :: bs => uppers bs

def oneOfs : List Bound → List (List Ty)
  | [] => []
  | .oneOf cs :: bs => cs :: oneOfs bs
  | _ :: bs => oneOfs bs

/-- the constraint list `solve` ends up with: the last `IsOneOf` wins (typevar.py:113) -/
def lastOneOf (bs : List Bound) : Option (List Ty) := (oneOfs bs).getLast?

section Spec
variable (le : Ty → Ty → Bool) (join : Ty → Ty → Ty)

/-- `s` satisfies the bounds. -/
def Sat (bs : List Bound) (s : Ty) : Prop :=
  (∀ l ∈ lowers bs, le l s = true) ∧ (∀ u ∈ uppers bs, le s u = true) ∧ (∀ cs ∈ oneOfs bs, s ∈ cs)

def satLower (bs : List Bound) (s : Ty) : Bool := (lowers bs).all fun l => le l s
def satUpper (bs : List Bound) (s : Ty) : Bool := (uppers bs).all fun u => le s u
/-- `s` is (`==` to) one of the constraints of every `IsOneOf`, or `Any` (which the property allows) -/
def satOneOf (bs : List Bound) (s : Ty) : Bool := isAny s || (oneOfs bs).all fun cs => Ty.memBy s cs

/-- "some value satisfies the bounds", order-free. -/
def specOk (bs : List Bound) : Bool :=
  ((lowers bs).all fun l => (uppers bs).all fun u => le l u) &&
  match oneOfs bs with
  | [] => true
  | cs :: rest => cs.any fun o =>
      (rest.all fun cs' => Ty.memBy o cs') && ((lowers bs).all fun l => le l o) && ((uppers bs).all fun u => le o u)

/-- the `bottom` and `top` values after each iteration of the loop, started in state `st` -/
def trail : St → List Bound → List Ty
  | _, [] => []
  | st, b :: bs =>
    (step le join st b).bottom.toList ++ (step le join st b).top.toList ++ trail (step le join st b) bs

def boundVals (bs : List Bound) : List Ty := lowers bs ++ uppers bs ++ (oneOfs bs).flatten

/-- every value `solve` compares, unites or returns while working on `bs` -/
def reach (bs : List Bound) : List Ty := boundVals bs ++ trail le join {} bs

/-- On the non-`Any` members of `V`: `le` is reflexive and transitive, `join` is not `Any`, is an upper
bound of its operands and lies below every common upper bound. -/
def lawsOn (V : List Ty) : Bool :=
  let W := V.filter fun t => !isAny t
  W.all fun a => le a a &&
    W.all fun b => !isAny (join a b) && le a (join a b) && le b (join a b) &&
      W.all fun c => (!(le a b && le b c) || le a c) && (!(le a c && le b c) || le (join a b) c)

/-! ### exception classes -/

/-- `twoUppers` (typevar.py:105): two upper bounds neither of which is assignable to the other —
the solver *unites* them, so a solution accepted by the union need not be accepted by each. -/
def D15_twoUppers (bs : List Bound) : Bool :=
  (uppers bs).any fun u => (uppers bs).any fun v => !le u v && !le v u

/-! (`anyUpper` — an upper bound `Any` replacing the upper bounds seen so far — was repaired in /repo,
commit 6dfe6d2 "an Any upper bound no longer discards the other upper bounds": the solver now skips
an `Any` upper bound unless it is the first one, as it always did for lower bounds. No class is left
for it; the former witnesses are regression theorems in Props/C15.lean and corpus cases.) -/

/-- `oneOfUpper` (typevar.py:139-146): constraints together with an upper bound. The constraint is
selected by `option.can_assign(solution)` only; nothing checks it against the upper bounds. -/
def D15_oneOfUpper (bs : List Bound) : Bool := !(oneOfs bs).isEmpty && !(uppers bs).isEmpty

/-- `nonTransitive`: assignability is not a preorder with least upper bounds on the values the solver
meets (a bare generic such as `list`, or a nested `Any` such as `list[Any]`, sits between two
incompatible types), so "adopt the wider bound" loses earlier bounds. -/
def D15_nonTransitive (bs : List Bound) : Bool := !lawsOn le join (reach le join bs)

/-- more than one constraint list (cannot arise from a declaration; excluded by hypothesis) -/
def multiOneOf (bs : List Bound) : Bool := decide (1 < (oneOfs bs).length)

/-- the cheap classes, as printed by the driver -/
def d15Cheap (bs : List Bound) : List String :=
  (if D15_twoUppers le bs then ["twoUppers"] else []) ++
  (if D15_oneOfUpper bs then ["oneOfUpper"] else [])

def d15Classes (bs : List Bound) : List String :=
  d15Cheap le bs ++ (if D15_nonTransitive le join bs then ["nonTransitive"] else [])

end Spec
end Pya.C15
