/-!
# Spec/ValueChildren — the pinned table of child positions of pyanalyze's Value classes (C14)

Every dataclass field of a `Value` / `Extension` class (and of the records reachable from them:
`Signature`, `SigParameter`, `OverloadedSignature`, `TypedDictEntry`, `KVPair`, `Composite`) whose
annotation mentions a value class, with its status:

* `planted` — a child position: the `tv` stream of harness/props/c14x.py plants a type variable there and
  demands the substitution clauses of C14 (identity on closed values, every occurrence replaced, commutes with
  uniting) and that `walk_values` / `extract_typevars` finds the variable;
* `derived` — recomputed by the constructor from other fields (`SequenceValue.args = unite_values(members)`, …);
* `notType` — not a type position (default values, callbacks, attribute names, `compare=False` bookkeeping).

`Generated/ValueChildren.lean` is regenerated from the live tree (`valueChildren`) and from the harness
(`harnessRegistry`, `harnessPlanters`); Props/C14.lean states that the three agree with this table, so a
container field that appears upstream, or a drift between harness and table, breaks an obligation.
-/
namespace Pya

def registeredChildren : List (String × String × String) :=
  [("AnnotatedValue", "metadata", "planted"),
  ("AnnotatedValue", "value", "planted"),
  ("AsyncTaskIncompleteValue", "args", "derived"),
  ("AsyncTaskIncompleteValue", "value", "planted"),
  ("CallValue", "args", "notType"),
  ("CallableValue", "signature", "planted"),
  ("Composite", "value", "planted"),
  ("Composite", "varname", "notType"),
  ("DictIncompleteValue", "args", "derived"),
  ("DictIncompleteValue", "kv_pairs", "planted"),
  ("GenericValue", "args", "planted"),
  ("HasAttrExtension", "attribute_name", "notType"),
  ("HasAttrExtension", "attribute_type", "planted"),
  ("HasAttrGuardExtension", "attribute_name", "notType"),
  ("HasAttrGuardExtension", "attribute_type", "planted"),
  ("KVPair", "key", "planted"),
  ("KVPair", "value", "planted"),
  ("KnownValueWithTypeVars", "typevars", "notType"),
  ("MultiValuedValue", "_known_subvals", "derived"),
  ("MultiValuedValue", "vals", "planted"),
  ("NoReturnGuardExtension", "guarded_type", "planted"),
  ("OverloadedSignature", "signatures", "planted"),
  ("ParameterTypeGuardExtension", "guarded_type", "planted"),
  ("SequenceValue", "args", "derived"),
  ("SequenceValue", "members", "planted"),
  ("SigParameter", "annotation", "planted"),
  ("SigParameter", "default", "notType"),
  ("Signature", "impl", "notType"),
  ("Signature", "parameters", "planted"),
  ("Signature", "return_value", "planted"),
  ("SubclassValue", "typ", "planted"),
  ("TypeAliasValue", "alias", "notType"),
  ("TypeAliasValue", "type_arguments", "planted"),
  ("TypeGuardExtension", "guarded_type", "planted"),
  ("TypeIsExtension", "guarded_type", "planted"),
  ("TypeVarValue", "bound", "planted"),
  ("TypeVarValue", "constraints", "planted"),
  ("TypeVarValue", "default", "notType"),
  ("TypedDictEntry", "typ", "planted"),
  ("TypedDictValue", "args", "derived"),
  ("TypedDictValue", "extra_keys", "planted"),
  ("TypedDictValue", "items", "planted"),
  ("UnboundMethodValue", "composite", "planted"),
  ("UnboundMethodValue", "typevars", "notType"),
  ("UnpackedValue", "value", "planted")]

/-- Where pyanalyze/value.py builds an `AnnotatedValue` with the raw constructor and where it goes through
the normalising helper `annotate_value` (which flattens `Annotated[Annotated[X, m1], m2]` and de-duplicates
metadata): (enclosing function, callee, number of calls). `flatten_values` and `unite_values` distribute the
metadata of an annotated union over its members through the helper; the raw constructor is used by the helper
itself, by `AnnotatedValue.substitute_typevars` (known class `annotatedSubstNotNormalised`) and `simplify`. -/
def registeredAnnotatedSites : List (String × String × String) :=
  [("AnnotatedValue.simplify", "AnnotatedValue", "1"),
  ("AnnotatedValue.substitute_typevars", "AnnotatedValue", "1"),
  ("annotate_value", "AnnotatedValue", "1"),
  ("concrete_values_from_iterable", "annotate_value", "1"),
  ("flatten_values", "annotate_value", "1"),
  ("unannotate_value", "annotate_value", "1"),
  ("unite_values", "annotate_value", "1")]

/-- the rows with a given status -/
def childrenWith (s : String) : List (String × String) :=
  (registeredChildren.filter (fun r => r.2.2 == s)).map (fun r => (r.1, r.2.1))

end Pya
