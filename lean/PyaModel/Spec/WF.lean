import PyaModel.Spec.D03
import PyaModel.Spec.TableLaws
/-!
# Spec/WF — well-formedness of objects and static types w.r.t. a class table
(the explicit, decidable side conditions of the value-kernel theorems)
-/
namespace Pya

mutual
/-- class ids in range; instances only of user classes -/
def Obj.wf (tbl : ClassTable) : Obj → Bool
  | .inst c _ => decide (c < tbl.size) && tbl.isUser c
  | .cls c => decide (c < tbl.size)
  | .tuple xs => Obj.wfL tbl xs
  | .list xs => Obj.wfL tbl xs
  | .set xs => Obj.wfL tbl xs
  | .fset xs => Obj.wfL tbl xs
  | .dict ks vs => Obj.wfL tbl ks && Obj.wfL tbl vs && ks.length == vs.length
  | _ => true
def Obj.wfL (tbl : ClassTable) : List Obj → Bool
  | [] => true
  | x :: xs => Obj.wf tbl x && Obj.wfL tbl xs
end

mutual
/-- A fully static, well-formed type: no `Any`, class ids in range, generics applied to as many
arguments as the class has parameters (≥ 1), sequence forms only for tuple/list, `many` only as
a member of a sequence form, `type[c]` only for non-protocol `c`. -/
def Ty.wf (tbl : ClassTable) : Ty → Bool
  | .any => false
  | .known o => Obj.wf tbl o
  | .typed c => decide (c < tbl.size)
  | .newtype _ c => decide (c < tbl.size)
  | .generic c args =>
    decide (c < tbl.size) && decide (0 < tbl.arity c) && args.length == tbl.arity c && Ty.wfL tbl args
  | .seq c ms => (c == C.tuple || c == C.list) && Ty.wfM tbl ms
  | .many _ => false
  | .union ts => Ty.wfL tbl ts
  | .subclass c => decide (c < tbl.size) && !tbl.isProtocol c
  | .annotated t => Ty.wf tbl t
  | .tvar _ => false
def Ty.wfL (tbl : ClassTable) : List Ty → Bool
  | [] => true
  | t :: ts => Ty.wf tbl t && Ty.wfL tbl ts
/-- members of a sequence form: `many t` allowed at this level only -/
def Ty.wfM (tbl : ClassTable) : List Ty → Bool
  | [] => true
  | .many t :: ts => Ty.wf tbl t && Ty.wfM tbl ts
  | t :: ts => Ty.wf tbl t && Ty.wfM tbl ts
end

mutual
def Obj.hasCls : Obj → Bool
  | .cls _ => true
  | .tuple xs => Obj.hasClsL xs
  | .list xs => Obj.hasClsL xs
  | .set xs => Obj.hasClsL xs
  | .fset xs => Obj.hasClsL xs
  | .dict ks vs => Obj.hasClsL ks || Obj.hasClsL vs
  | _ => false
def Obj.hasClsL : List Obj → Bool
  | [] => false
  | x :: xs => Obj.hasCls x || Obj.hasClsL xs
end

mutual
/-- a protocol class occurs as a `typed`/`generic` target -/
def Ty.hasProto (tbl : ClassTable) : Ty → Bool
  | .typed c => tbl.isProtocol c
  | .generic c args => tbl.isProtocol c || Ty.hasProtoL tbl args
  | .seq _ ms => Ty.hasProtoL tbl ms
  | .many t => Ty.hasProto tbl t
  | .union ts => Ty.hasProtoL tbl ts
  | .annotated t => Ty.hasProto tbl t
  | _ => false
def Ty.hasProtoL (tbl : ClassTable) : List Ty → Bool
  | [] => false
  | t :: ts => Ty.hasProto tbl t || Ty.hasProtoL tbl ts
end

/-- Exception class `protoClassObj` (C03): a class object is tested against a protocol target;
pyanalyze looks the protocol members up on the class object itself and finds the *instance*
methods (`TypedValue(Container).can_assign(KnownValue(dict))` succeeds). -/
def protoClassObj (tbl : ClassTable) (t : Ty) (o : Obj) : Bool := o.hasCls && t.hasProto tbl

/-- The classes a (type, object) pair falls in, as printed by the driver. -/
def d03Classes (tbl : ClassTable) (t : Ty) (o : Obj) : List String :=
  (if t.hasMany then ["variadicTuple"] else []) ++ (if o.hasFset then ["frozensetLiteral"] else []) ++
  (if protoClassObj tbl t o then ["protoClassObj"] else [])

end Pya
