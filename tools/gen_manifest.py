#!/usr/bin/env python3
"""Regenerates /verif/MANIFEST.json from the table below (kept next to the checks so the two stay in step)."""
import json, os

HERE = os.path.dirname(os.path.dirname(os.path.abspath(__file__)))
TECH = "Lean 4 theorem about a model of the code + differential correspondence model<->implementation"
ENGINE = "lean-proof+correspondence"
NOT_YET = "not yet claimed: model, theorems and correspondence for this property are still being built (see DESIGN.md build order); Lean proof is applicable"

CLAIMED = {
    "C09": dict(
        text="Proof + correspondence: for all try/with-free statement skeletons outside the classes loopElse and secondVisitSeed (`while True`) - assignments, uses, calls, if/else, while/for with break/continue, return/raise, any size and nesting - c09_reported_sound_partial proves that every definition and the unbound state reaching a use on a strict CFG path is in what the Lean model of FunctionScope reports; c09_reported_precise_partial proves exactness on loop-free skeletons; c09_check_reads_collect holds for the full syntax. The model equals pyanalyze on every generated skeleton incl. try/except/else/finally, with, loop-else and dead code (0 disagreements on 106k cases in thorough); for try/with and precision in loops the verdict rests on that correspondence plus search against two independent oracles (a Python CFG reaching-definitions analysis in strict and liberal mode, and real execution with opaque conditions driven by all bit strings). Eight defect classes, each with a decided witness and listed as a finding.",
        note="Trusted: Lean kernel + 3 standard axioms; sampled correspondence (exhaustive <=4 statements quick / <=5 thorough before thinning); Spec/Flow.lean cross-checked every run against a Python CFG analysis and CPython execution; strict/liberal conventions where the property is silent are listed in the evidence assumptions. Not covered by theorems: try/with, loop precision, nested functions, global/nonlocal; del and dead code are outside the property."),
    "C14": dict(
        text="Model: `unite` (unite_values), `Ty.beq` (==, hash-aware on unions exactly as MultiValuedValue.__eq__), `Ty.hashEq` (hash equality), `subst` (substitute_typevars) in Core/Union.lean + Core/Assign.lean. Proved for all terms: hash-equal implies equal; equal implies hash-equal outside the classes unionOrder/unhashable (witnesses); uniting never nests unions; Never is the identity; members(unite vs) = union of the members of the operands (unite_mem, full strength, with beq_mem); associativity as an identity under flatness; commutativity / idempotence / merging of equal alternatives / substitution-commutes-with-uniting under explicit decidable hypotheses, each exception class (unhashable, unionOrder, annotatedUnion, dupUnion, substCollapse) with a decided witness and listed as a finding; substitution is the identity on closed flat terms and replaces every mapped variable. Tie: unite/==/hash/substitute_typevars of the real Values vs the model on generated triples; all laws evaluated on the implementation incl. an implementation-only stream for TypedDict/DictIncomplete/Callable values; spec `mem` vs the CPython reference.",
        note="Trusted: Lean kernel + 3 standard axioms; hash equality modelled structurally (no accidental collisions; compared only where a == b); object identity invisible to the model (the harness builds fresh Values per occurrence); 'the union accepts each operand' is checked on the implementation only."),
    "C17": dict(
        text="Machine-checked for all templates (any character list, str and bytes) and all literal arguments: outside 10 decidable exception classes, the Lean model of pyanalyze's % checker (regex scanner, lint, tuple/mapping accept, result type) reports whenever the Lean spec of CPython's % formatter raises, and is silent up to the two documented lint rules when it succeeds (percent_reports_if_raises_partial, percent_silent_if_ok_partial, percent_result_type_partial); on str.format templates without ':' '.' '[' '!' that do not mix numbering modes, pyanalyze's parser and accounting agree with CPython's (format_plain_iff_partial, format_accounting_iff_partial). The full statements are shown false on 14 decided witnesses (each a listed finding). str.format paths, specs and conversions are covered by model, correspondence and search only (classes fmtPath/fmtSpec), not by theorems. Tie: live regex vs scanner, unit and end-to-end message streams vs model, real % / .format evaluation vs spec, on every run.",
        note="Trusted: Lean kernel + 3 axioms; hand-written model tied to /repo by unit and e2e differential streams; CPython spec validated against real evaluation each run; the scanner equals the regex only on the tested small-alphabet strings; ASCII-digit \\d; literal arguments only; the .format parser is fuelled with 2*len+2."),
    "C18": dict(
        text="Proof: for valid stacks of chained config files of any depth, any command line and any module path, lookup_precedence_partial shows the Lean model of parse_config_file/_parse_config_section/from_option_list/get_value_for returns exactly the value of the documented precedence sentence (first-match and concatenating options, disable_all desugaring), outside decidable exception classes each with a decided witness; full-strength theorems cover the sort-key lookup on arbitrary instance lists, command-line precedence, single-file configurations, acceptance of valid configurations, and rejection of recursive/missing inclusion and of everything the parser checks; bad_config_rejected_partial covers the rejection clause. Model and spec are tied to the code on every run: model vs pyanalyze through real TOML files and the real prepare_constructor_kwargs (value, error kind, is_error_code_enabled), spec vs an independent Python implementation; the option registry table is regenerated from the live registry and re-checked by the kernel.",
        note="Trusted: Lean kernel + 3 axioms; tomli/pathlib (the model starts at the decoded table, file names are atoms); sampled correspondence (exhaustive family of 13104 stacks complete in thorough, depth <= 2 complete in quick); PyObjectSequence/IgnoredPaths options, extend_config inside override tables and duplicate-module ties are outside the theorems."),
    "C19": dict(
        text="Proof + regenerated finite table. For literal subscripts the Lean model of _sequence_common_getitem_impl is proved, for all lengths and all int keys, to report exactly CPython's IndexError and to return exactly the indexed element (getitem_literal_iff, getitem_literal_value); for partly variadic members it is proved sound for every expansion (getitem_variadic_sound, full strength after the repair 07b1f6d). The operator fallback protocol is proved to report iff CPython's dunder dispatch raises TypeError, under explicit decidable hypotheses. The property's finite quantifier (34 literals x 13 binary / 3 unary operators, 26 attribute names, 15 indices = 16354 operations) is enumerated from the live tree and from CPython on every run and re-proved by the kernel (ops_table_agree, ops_table_conforms, ops_table_spec) outside five decidable exception classes, each a listed finding with a witness.",
        note="Trusted: Lean kernel + 3 axioms; hand-written models tied to the code by differential streams on every run (getitem, binop unit facts, attribute fallback); values canonicalised as (type, exact repr); CPython 3.12.1 as oracle; cpyBinop is a dunder-level abstraction of binary_op1 validated on every binary row; % on str/bytes, ordering comparisons and exceptions other than TypeError/AttributeError/IndexError are outside the property."),
    "C03": dict(
        text="Model `ca` (Core/Assign.lean) of Value.can_assign follows value.py/type_object.py branch by branch; class-level facts (nominal relation incl. protocol checks, generic bases) are a table regenerated from the live tree and the kernel re-checks `tableOk liveTable` on every run. Proved (assign_known_eq_mem_partial, by induction over all terms): for every table satisfying the laws and every well-formed static type and object outside three exception classes (variadicTuple, frozensetLiteral, protoClassObj - each a listed finding with a proved witness) and the property-silent region (str/bytes against generic ABCs), can_assign(T, Literal o) = structural membership. Tie: ca vs pyanalyze on thousands of generated (type, object) pairs per run, spec `mem` vs a CPython-isinstance reference, runtime route (type_from_runtime) decoded structurally; property searched directly through runtime.is_assignable and `x: T = literal` diagnostics; TypedDict types are covered by an implementation-only search stream.",
        note="Trusted: Lean kernel + 3 standard axioms; class table translator; sampled correspondence; TypedDict/Callable/TypeVar types are outside the Lean model (TypedDict searched on the implementation only); oracle decisions for NewType / str-as-Sequence / promotion under type[] are stated in DESIGN 6/C03."),
    "C04": dict(
        text="Same model `ca`. Proved for every class table with tableOk and all terms (induction, no bound): Any accepts and is accepted, Never accepted everywhere, union on the right iff every member, a union accepts what a member accepts (unconditional after the repair 637d1c5), object accepts everything (assign_object_top), every well-formed type accepts itself (assign_refl, both modes), 'Any only matches Any' never turns a rejection into an acceptance (exclude_any_monotone), and soundness for membership (assign_sound_partial: A accepts B and o in B imply o in A) outside the documented leniencies (strict04: bare generics incl. `type` and frozenset literals; fixed-length form accepting a homogeneous generic) and five decidable exception classes (protoDown, virtualMeta, metaclassTyped, newtypeBase, protoClassObj - each a listed finding with a proved witness replayed on pyanalyze) plus a spec artefact (literalEq: nested bool/int equality in container literals). `tableOk liveTable` is re-proved by the kernel on every run. Tie: ca vs pyanalyze on generated pairs in both modes; search: witness objects drawn from B against the reference membership, and all laws evaluated on the implementation.",
        note="Trusted: Lean kernel + 3 standard axioms; class table translator; sampled correspondence; leniencies L1/L2/L4 excluded from soundness as the property says; protocol checks that depend on the value (generic protocol vs Enum class, protocol vs type[...]) are searched but not modelled; exclude-any protocol verdicts are history dependent (C10) and left out of that correspondence stream."),
    "C05": dict(
        text="Proved for every def header and every call, no bound on sizes: bind_literal_iff (the Lean model of Signature.bind_arguments fails exactly when the model of CPython's binder raises, literal call shapes), bind_star_accept (a call with *args/**kwargs of unknown length that the model accepts has a concrete expansion that binds - full strength) and bind_star_reject_partial (a rejected call has no binding expansion taking at least one element from every star argument, outside the class starThenKw, a listed finding with a proved witness); corollaries through preprocess_args. Both models are tied to the code on every run (model vs pyanalyze end-to-end and at unit level incl. bound positions; spec vs real calls; star calls against exhaustively enumerated expansions).",
        note="Trusted: Lean kernel + 3 standard axioms; sampled correspondence (exhaustive for headers of <=3 parameters in quick, <=4 in thorough); AST->Signature plumbing is exercised by the e2e stream, not modelled; ELLIPSIS/ParamSpec parameters outside the model."),
}


def main():
    props = [json.loads(l) for l in open(os.path.join(HERE, "properties.jsonl"))]
    man = {
        "version": 1,
        "setup_cmd": "tools/setup.sh",
        "hooks": {
            "guard": "PYANALYZE_VERIF",
            "enable": "none needed: the checks call pyanalyze's public API in-process from /repo's working tree; no hook commits exist",
            "baseline_off_cmd": "cd /repo && /venv/bin/python -m pytest -ra -q -p no:cacheprovider --timeout=900 --continue-on-collection-errors",
            "source_commits": [],
            "add_only": True,
        },
        "engines": [{
            "name": ENGINE, "path": "check", "serves_properties": sorted(CLAIMED),
            "kind_free_text": "Lean 4 model + spec + theorems (lean/PyaModel), rebuilt and axiom-audited on every run; differential correspondence of the model's executable definitions with pyanalyze in-process; independent oracles (CPython itself, reference implementations) for the failing-input search",
        }],
        "checks": [],
        "notes": "See DESIGN.md. known_findings.json lists genuine defects (known / fixed).",
        "not_applicable": [],
    }
    for p in props:
        pid = p["id"]
        if pid in CLAIMED:
            c = CLAIMED[pid]
            man["checks"].append({
                "property_id": pid,
                "quick_cmd": "./check %s --tier quick" % pid,
                "thorough_cmd": "./check %s --tier thorough" % pid,
                "evidence_file": "evidence/%s.json" % pid,
                "replay_cmd_template": "./check %s --replay {path}" % pid,
                "engine": ENGINE,
                "level_claimed": {"category": "proof", "text": c["text"], "design_ref": "DESIGN.md §6/%s" % pid},
                "level_note": c["note"],
                "technique": c.get("technique", TECH),
            })
        else:
            man["not_applicable"].append({"property_id": pid, "reason": NOT_YET})
    json.dump(man, open(os.path.join(HERE, "MANIFEST.json"), "w"), indent=1)


if __name__ == "__main__":
    main()
