#!/bin/sh
# usage: tools/seedtest.sh C05-2 [C09-2 ...]
# Protocol for a seeded (red-team) change kept under /verif/seeded/<ID>/ {patch.diff, demo.py, meta.json}:
#   1 scratch worktree of /repo at HEAD (outside /repo and /verif)   2 demo on the clean tree must PASS
#   3 apply patch; demo must FAIL   4 the pinned test suite must still pass on the changed tree
#   5 ./check <prop> with VERIF_REPO=<worktree>: exit 1 + VIOLATION = caught, exit 0 = missed
# Results are written into seeded/<ID>/meta.json (verif_result, confirmed). The worktree is removed at the end.
# SKIP_TESTS=1 skips step 4 (when it was done before).
HERE="$(cd "$(dirname "$0")/.." && pwd)"
WT=${SEED_WT:-/var/tmp/wt-seedtest-$$}
git -C /repo worktree remove --force "$WT" 2>/dev/null
git -C /repo worktree add -f "$WT" HEAD >/dev/null 2>&1 || exit 2
# the check regenerates lean/PyaModel/Generated/*.lean from the tree it is pointed at: keep the clean tree's files
GENBAK="$WT.generated"; rm -rf "$GENBAK"; cp -a "$HERE/lean/PyaModel/Generated" "$GENBAK"
# ... and the evidence files of the clean tree (a run against a patched tree rewrites evidence/<ID>.json)
EVBAK="$WT.evidence"; rm -rf "$EVBAK"; cp -a "$HERE/evidence" "$EVBAK"
for id in "$@"; do
  d="$HERE/seeded/$id"; prop=${SEED_PROP:-${id%%-*}}
  git -C "$WT" checkout -q -- . ; git -C "$WT" clean -fdq
  (cd "$WT" && /venv/bin/python "$d/demo.py" >"$WT/.demo-clean.log" 2>&1); c1=$?
  if ! git -C "$WT" apply "$d/patch.diff"; then echo "== $id: PATCH DOES NOT APPLY to HEAD"; continue; fi
  (cd "$WT" && /venv/bin/python "$d/demo.py" >"$WT/.demo-changed.log" 2>&1); c2=$?
  tests="skipped"
  if [ -z "$SKIP_TESTS" ]; then
    tests=$(cd "$WT" && timeout 1500 /venv/bin/python -m pytest -q -p no:cacheprovider --timeout=900 -n 6 pyanalyze/ 2>&1 | tail -1)
  fi
  (cd "$HERE" && VERIF_REPO="$WT" timeout 1600 ./check "$prop" --tier quick >"$WT/.check.log" 2>&1); rc=$?
  summary=$(grep -v '^KNOWN' "$WT/.check.log" | tail -1)
  nviol=$(grep -c '^VIOLATION' "$WT/.check.log")
  first=$(grep '^VIOLATION' "$WT/.check.log" | head -1)
  echo "== $id: demo clean exit=$c1, changed exit=$c2; tests: $tests; check rc=$rc ($nviol VIOLATION lines) $summary"
  /venv/bin/python - "$d/meta.json" "$c1" "$c2" "$tests" "$rc" "$nviol" "$summary" "$first" "$prop" <<'PY'
import json, sys
p, c1, c2, tests, rc, nviol, summary, first, prop = sys.argv[1:]
m = json.load(open(p))
m["confirmed"] = {"demo_clean_exit": int(c1), "demo_changed_exit": int(c2), "tests_on_changed_tree": tests,
                  "how": "tools/seedtest.sh: scratch worktree of /repo at HEAD, patch applied there"}
st = "caught" if rc == "1" and int(nviol) > 0 else ("missed" if rc == "0" else "infrastructure (exit %s)" % rc)
runs = m.setdefault("verif_runs", [])
runs.append({"status": st, "exit": int(rc), "violation_lines": int(nviol), "first": first, "summary": summary,
             "cmd": "VERIF_REPO=<worktree with patch> ./check %s --tier quick" % prop})
vr = m.get("verif_result")
if not isinstance(vr, dict):
    vr = {"first_report": vr} if vr else {}
m["verif_result"] = dict(vr, status_latest=st)
json.dump(m, open(p, "w"), indent=1)
PY
done
# restore file by file (do not remove the directory: another check may be building from it)
for f in "$GENBAK"/*; do cmp -s "$f" "$HERE/lean/PyaModel/Generated/$(basename "$f")" || cp -p "$f" "$HERE/lean/PyaModel/Generated/"; done; rm -rf "$GENBAK"
for f in "$EVBAK"/*; do cmp -s "$f" "$HERE/evidence/$(basename "$f")" || cp -p "$f" "$HERE/evidence/"; done; rm -rf "$EVBAK"
cd /; git -C /repo worktree remove --force "$WT"
