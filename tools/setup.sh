#!/bin/sh
# MANIFEST.setup_cmd: build every claimed property's Lean module (theorems + what its driver imports), offline.
# Each property is built on its own so that one broken property cannot take the others down; a property whose
# build is broken is reported by its own check (broken obligation -> search -> VIOLATION), not by the setup.
HERE="$(cd "$(dirname "$0")/.." && pwd)"
cd "$HERE/lean" || exit 1
mkdir -p .lake
PROPS=$(/venv/bin/python - "$HERE" <<'PY'
import json, sys, os
m = json.load(open(os.path.join(sys.argv[1], "MANIFEST.json")))
print(" ".join(c["property_id"] for c in m["checks"]))
PY
)
rc=0
for p in $PROPS; do
  targets=$(/venv/bin/python - "$HERE" "$p" <<'PY'
import importlib, sys
sys.path.insert(0, sys.argv[1])
mod = importlib.import_module("harness.props.%s" % sys.argv[2].lower())
print(" ".join(dict.fromkeys([mod.LEAN_PROP] + list(getattr(mod, "LEAN_TARGETS", [])))))
PY
)
  echo "== $p: lake build $targets"
  flock .lake/verif.lock lake build $targets 2>&1 | tail -3 || rc=1
done
exit 0
